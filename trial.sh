#!/bin/sh
# usage: trial.sh <seed-dir> <property> [tier]   -- applies a seeded change to /repo, runs the check, reverts.
d="$1"; p="$2"; t="${3:-quick}"
cd /repo || exit 2
if [ -n "$(git status --porcelain --untracked-files=no)" ]; then echo "repo dirty"; exit 2; fi
git apply "$d/patch.diff" || { echo "patch does not apply"; exit 2; }
/verif/check.sh "$p" "$t" --no-evidence > /tmp/trial.out 2>&1; rc=$?
git checkout -- . 
grep -E "^(VIOLATION|KNOWN-FINDING|OK|INCONCLUSIVE)" /tmp/trial.out | cut -c1-260 | head -8
echo "exit=$rc"
