#!/bin/bash
# usage: trial_wt.sh <seed-id> [tier] [extra flags]  -- runs the property's check against a seeded change in a scratch worktree (never /repo).
id=$1; tier=${2:-quick}; shift; shift
d=/verif/seeded/$id
prop=$(python3 -c "import json,sys;print(json.load(open('$d/meta.json'))['property'])" 2>/dev/null || echo ${id%%-*})
wt=/tmp/trial-wt-$id
git -C /repo worktree remove --force $wt 2>/dev/null
git -C /repo worktree add -q --detach $wt HEAD || exit 2
git -C $wt apply $d/patch.diff || { echo "patch does not apply"; git -C /repo worktree remove --force $wt; exit 2; }
/verif/check.sh $prop $tier --no-evidence --repo $wt --work work-trial "$@" > /tmp/trial-$id.out 2>&1; rc=$?
git -C /repo worktree remove --force $wt
grep -E "^(VIOLATION|KNOWN-FINDING|OK|INCONCLUSIVE)" /tmp/trial-$id.out | cut -c1-260 | head -6
echo "$id exit=$rc"
