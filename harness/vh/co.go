package vh

import (
	"bytes"
	"fmt"
	"runtime"
	"sync"
	"time"
)

// Interleave runs fa and fb as two threads of control of which exactly one runs at a time;
// control changes hands only inside Yield (an arbitrary decision per call, bounded number of
// preemptions), when a thread ends, or when the running thread blocks on a sync.Mutex the
// other one holds. Symbolically the decisions are solver variables; natively they are read
// from the replay file and the threads are goroutines gated by a token.
func Interleave(fa, fb func()) {
	if co != nil {
		panic("nested vh.Interleave")
	}
	c := &coState{}
	c.cond = sync.NewCond(&c.mu)
	co = c
	defer func() { co = nil }()
	fns := [2]func(){fa, fb}
	var wg sync.WaitGroup
	for i := 0; i < 2; i++ {
		wg.Add(1)
		go func(i int) {
			defer wg.Done()
			c.gid[i] = goid()
			c.mu.Lock()
			for c.cur != i && !c.killed {
				c.cond.Wait()
			}
			killed := c.killed
			c.mu.Unlock()
			if killed {
				return
			}
			defer func() {
				r := recover()
				c.mu.Lock()
				c.done[i] = true
				if r != nil {
					if _, k := r.(coKilled); !k && !c.panicked {
						c.panicked, c.panicVal = true, r
					}
					c.killed = true
				} else if !c.done[1-i] {
					c.cur = 1 - i
				}
				c.cond.Broadcast()
				c.mu.Unlock()
			}()
			fns[i]()
		}(i)
	}
	wg.Wait()
	if c.panicked {
		panic(c.panicVal)
	}
}

// Yield is a scheduling point: the other thread may run now (at most maxPreempt such
// preemptions per Interleave). Outside Interleave it does nothing.
func Yield(maxPreempt int) {
	c := co
	if c == nil {
		return
	}
	me := c.whoami()
	c.mu.Lock()
	// a thread that was released from a mutex while not scheduled waits for its turn here
	for c.cur != me && !c.killed {
		c.cond.Wait()
	}
	if c.killed {
		c.mu.Unlock()
		panic(coKilled{})
	}
	if c.done[1-me] || c.preempt >= maxPreempt {
		c.mu.Unlock()
		return
	}
	c.mu.Unlock()
	if !NondetBool("switch") {
		return
	}
	c.mu.Lock()
	c.preempt++
	c.cur = 1 - me
	c.cond.Broadcast()
	c.mu.Unlock()
	// wait until control comes back; if the other thread blocks on a mutex we hold, take it back
	blockedPolls := 0
	for {
		c.mu.Lock()
		if c.killed {
			c.mu.Unlock()
			panic(coKilled{})
		}
		if c.cur == me {
			c.mu.Unlock()
			return
		}
		c.mu.Unlock()
		// The other thread counts as blocked on a mutex we hold only if it is seen parked in
		// sync.Mutex.Lock on many consecutive polls: database/sql and the driver take short-lived
		// mutexes of their own, and a single sighting of such a wait must not hand control back
		// while that thread is in fact running.
		if blockedOnMutex(c.gid[1-me]) {
			blockedPolls++
		} else {
			blockedPolls = 0
		}
		if blockedPolls >= 100 {
			c.mu.Lock()
			stillWaiting := c.cur != me && !c.done[1-me]
			if stillWaiting {
				c.cur = me
				c.cond.Broadcast()
			}
			c.mu.Unlock()
			if stillWaiting {
				return
			}
			blockedPolls = 0
		}
		time.Sleep(200 * time.Microsecond)
	}
}

type coKilled struct{}

type coState struct {
	mu       sync.Mutex
	cond     *sync.Cond
	cur      int
	done     [2]bool
	gid      [2]string
	killed   bool
	panicked bool
	panicVal any
	preempt  int
}

var co *coState

func (c *coState) whoami() int {
	g := goid()
	for i := range c.gid {
		if c.gid[i] == g {
			return i
		}
	}
	panic("vh.Yield called from a goroutine that is not an Interleave thread")
}

func goid() string {
	var buf [64]byte
	n := runtime.Stack(buf[:], false)
	f := bytes.Fields(buf[:n])
	if len(f) < 2 {
		return ""
	}
	return string(f[1])
}

// blockedOnMutex reports whether goroutine gid is parked in sync.Mutex.Lock.
func blockedOnMutex(gid string) bool {
	buf := make([]byte, 1<<20)
	n := runtime.Stack(buf, true)
	hdr := []byte(fmt.Sprintf("goroutine %s [", gid))
	i := bytes.Index(buf[:n], hdr)
	if i < 0 {
		return false
	}
	rest := buf[i+len(hdr) : n]
	j := bytes.IndexByte(rest, ']')
	if j < 0 {
		return false
	}
	state := string(rest[:j])
	for _, w := range []string{"sync.Mutex.Lock", "sync.RWMutex.Lock", "sync.RWMutex.RLock", "semacquire"} {
		if bytes.HasPrefix([]byte(state), []byte(w)) {
			return true
		}
	}
	return false
}
