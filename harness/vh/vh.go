// Package vh is the harness API. Every function here has a native body (used when a
// counterexample is replayed against the real build) and is intercepted by name by the
// symbolic executor, which never enters these bodies.
package vh

import (
	"runtime"
	"bytes"
	"crypto/sha256"
	"encoding/json"
	"fmt"
	"math/big"
	"os"
	"strconv"
	"time"

	"github.com/bitcoin-sv/block-headers-service/internal/chaincfg/chainhash"
	"github.com/rs/zerolog"
)

type nv struct {
	Name string `json:"name"`
	Kind string `json:"kind"`
	Val  string `json:"val"`
}

type replayFile struct {
	Harness string  `json:"harness"`
	Label   string  `json:"label"`
	Args    []int64 `json:"args"`
	Values  []nv    `json:"values"`
}

type replaySet struct {
	Entries []replayFile `json:"entries"`
}

var (
	loaded bool
	rs     replaySet
	rf     replayFile
	pos    int
	cur    int
	// Failures collects violated assertion labels during a native replay.
	Failures []string
)

// Diverged is the panic value of a replay whose assumptions do not hold natively.
type Diverged struct{ Why string }

func load() {
	if loaded {
		return
	}
	loaded = true
	p := os.Getenv("VH_REPLAY")
	if p == "" {
		panic(Diverged{"VH_REPLAY not set"})
	}
	b, err := os.ReadFile(p)
	if err != nil {
		panic(Diverged{err.Error()})
	}
	if err := json.Unmarshal(b, &rs); err != nil {
		panic(Diverged{err.Error()})
	}
}

// RunReplay runs every entry of the replay file $VH_REPLAY against the natively compiled
// harnesses in reg and prints one REPLAY-RESULT line per entry.
func RunReplay(reg map[string]func([]int64)) {
	load()
	for i, e := range rs.Entries {
		rf, pos, cur, Failures = e, 0, i, nil
		for _, c := range cleanups {
			c()
		}
		cleanups = nil
		f, ok := reg[e.Harness]
		if !ok {
			fmt.Printf("REPLAY-RESULT %d NOHARNESS %s\n", i, e.Harness)
			continue
		}
		status, detail := "CLEAN", ""
		func() {
			defer func() {
				if r := recover(); r != nil {
					if d, ok := r.(Diverged); ok {
						if len(Failures) > 0 {
							status, detail = "VIOLATED", fmt.Sprint(Failures)+" ("+d.Why+")"
							return
						}
						status, detail = "DIVERGED", d.Why
						return
					}
					status, detail = "PANIC", fmt.Sprint(r)
				}
			}()
			f(e.Args)
		}()
		if status == "VIOLATED" {
			fmt.Printf("REPLAY-RESULT %d %s %s\n", i, status, detail)
			continue
		}
		if status == "CLEAN" && len(Failures) > 0 {
			status, detail = "VIOLATED", fmt.Sprint(Failures)
		} else if status == "PANIC" && len(Failures) > 0 {
			detail += " after violating " + fmt.Sprint(Failures)
		}
		fmt.Printf("REPLAY-RESULT %d %s %s\n", i, status, detail)
	}
	for _, c := range cleanups {
		c()
	}
}

var cleanups []func()

// Cleanup registers a function to run when the current replay entry is finished.
func Cleanup(f func()) { cleanups = append(cleanups, f) }

func next(kind, name string) string {
	load()
	if pos >= len(rf.Values) {
		panic(Diverged{fmt.Sprintf("replay file exhausted at %s %s", kind, name)})
	}
	v := rf.Values[pos]
	pos++
	if v.Kind != kind || v.Name != name {
		panic(Diverged{fmt.Sprintf("replay order mismatch: want %s %s, file has %s %s", kind, name, v.Kind, v.Name)})
	}
	return v.Val
}

func NondetBool(name string) bool { return next("bool", name) == "true" }
func NondetI8(name string) int8   { v, _ := strconv.ParseInt(next("i8", name), 10, 8); return int8(v) }
func NondetU8(name string) uint8  { v, _ := strconv.ParseUint(next("u8", name), 10, 8); return uint8(v) }
func NondetI32(name string) int32 { v, _ := strconv.ParseInt(next("i32", name), 10, 32); return int32(v) }
func NondetU32(name string) uint32 {
	v, _ := strconv.ParseUint(next("u32", name), 10, 32)
	return uint32(v)
}
func NondetI64(name string) int64 { v, _ := strconv.ParseInt(next("i64", name), 10, 64); return v }
func NondetU64(name string) uint64 {
	v, _ := strconv.ParseUint(next("u64", name), 10, 64)
	return v
}
func NondetInt(name string) int { v, _ := strconv.ParseInt(next("int", name), 10, 64); return int(v) }
func NondetStr(name string) string { return next("str", name) }

// NondetText is an arbitrary string that is not a canonical decimal numeral.
func NondetText(name string) string { return next("text", name) }

// NondetHuge is an arbitrary canonical decimal numeral outside the int64 range.
func NondetHuge(name string) string { return next("huge", name) }

// NondetAtom is an arbitrary string without a space character.
func NondetAtom(name string) string { return next("atom", name) }
func NondetHash(name string) chainhash.Hash {
	h, err := chainhash.NewHashFromStr(next("hash", name))
	if err != nil {
		panic(Diverged{err.Error()})
	}
	return *h
}
func NondetBig(name string) *big.Int {
	v, ok := new(big.Int).SetString(next("big", name), 10)
	if !ok {
		panic(Diverged{"bad big"})
	}
	return v
}
func NondetTime(name string) time.Time {
	v, _ := strconv.ParseInt(next("time", name), 10, 64)
	return time.Unix(v, 0).UTC()
}

func Assume(c bool) {
	if !c {
		panic(Diverged{"assumption does not hold natively"})
	}
}

func Assert(label string, c bool) {
	if !c {
		Failures = append(Failures, label)
	}
}

func Reach(label string)              {}
func Class(name string, c bool)       {}
func Observe(name string, v any)      { fmt.Printf("REPLAY-OBS %d %s=%s\n", cur, name, fmtObs(v)) }
func SetUnwind(n int)                 {}
func Symbolic() bool                  { return false }
func Not(a bool) bool                 { return !a }
func Implies(a, b bool) bool          { return !a || b }
func Iff(a, b bool) bool              { return a == b }
func StrEq(a, b string) bool          { return a == b }
func HashEq(a, b chainhash.Hash) bool { return a == b }
func BigEq(a, b *big.Int) bool        { return a.Cmp(b) == 0 }
func BigLt(a, b *big.Int) bool        { return a.Cmp(b) < 0 }
func BigLe(a, b *big.Int) bool        { return a.Cmp(b) <= 0 }

func And(cs ...bool) bool {
	for _, c := range cs {
		if !c {
			return false
		}
	}
	return true
}
func Or(cs ...bool) bool {
	for _, c := range cs {
		if c {
			return true
		}
	}
	return false
}
func IteI32(c bool, a, b int32) int32 {
	if c {
		return a
	}
	return b
}
func IteU8(c bool, a, b uint8) uint8 {
	if c {
		return a
	}
	return b
}
func IteI64(c bool, a, b int64) int64 {
	if c {
		return a
	}
	return b
}
func IteBig(c bool, a, b *big.Int) *big.Int {
	if c {
		return a
	}
	return b
}
func IteStr(c bool, a, b string) string {
	if c {
		return a
	}
	return b
}

// Choose returns a value in [0,n); the executor forks over all of them.
func Choose(n int) int { v, _ := strconv.ParseInt(next("choose", "choose"), 10, 64); return int(v) }

// Concrete returns v; the executor forks over the feasible values of v.
func Concrete(v uint32) uint32 { return v }

// Logger returns a disabled logger.
func Logger() *zerolog.Logger { l := zerolog.Nop(); return &l }

// UF is an uninterpreted non-negative integer function of a 32-bit argument. Natively it
// must be given meaning by the harness through SetUF.
var ufImpl = map[string]func(uint32) *big.Int{}

func SetUF(name string, f func(uint32) *big.Int) { ufImpl[name] = f }
func UF(name string, arg uint32) *big.Int {
	if f, ok := ufImpl[name]; ok {
		return f(arg)
	}
	panic(Diverged{"no native meaning for UF " + name})
}

func fmtObs(v any) string {
	switch x := v.(type) {
	case *big.Int:
		if x == nil {
			return "<nil>"
		}
		return x.String()
	case chainhash.Hash:
		return x.String()
	case time.Time:
		return strconv.FormatInt(x.Unix(), 10)
	case bool:
		return strconv.FormatBool(x)
	case string:
		return x
	}
	return fmt.Sprint(v)
}

// Sha256 is SHA-256 (an uninterpreted function for the executor).
func Sha256(b []byte) [32]byte { return sha256.Sum256(b) }

// IsJSONOf reports whether data is the JSON encoding of v.
func IsJSONOf(data []byte, v any) bool {
	b, err := json.Marshal(v)
	return err == nil && bytes.Equal(b, data)
}

// Settle gives goroutines started by the code under test time to run (native replay only).
func Settle() { time.Sleep(50 * time.Millisecond) }

// MustNotBlock runs f and asserts under label that it returns (natively: within 3 s).
func MustNotBlock(label string, f func()) {
	done := make(chan any, 1)
	go func() {
		defer func() { done <- recover() }()
		f()
	}()
	select {
	case r := <-done:
		if r != nil {
			panic(r)
		}
	case <-time.After(3 * time.Second):
		Failures = append(Failures, label)
		panic(Diverged{Why: "blocked: " + label})
	}
}

// Now is the current time (for the executor: an arbitrary instant not before any earlier one).
func Now() time.Time { return time.Now() }

// Concretely returns c; the executor forks when c is not decided by the path (so that the harness
// can branch on it with ordinary Go control flow at a place of its choosing).
func Concretely(c bool) bool { return c }

// FromRandomSource: s was produced by the cryptographic random string generator (uniuri).
// Symbolically this is known from the model (and what such a generator returns is then assumed
// distinct); natively it cannot be observed and need not be: real strings are simply compared.
func FromRandomSource(s string) bool { return false }

// Bytes returns n arbitrary bytes.
func Bytes(name string, n int) []byte {
	out := make([]byte, n)
	for i := range out {
		out[i] = NondetU8(name)
	}
	return out
}

var allocBase uint64

// SetAllocView declares that the harness supplies fewer than n input bytes/elements (the executor
// represents larger symbolic allocations by their first n+1 elements) and starts the accounting
// of allocated bytes.
func SetAllocView(n int) {
	var m runtime.MemStats
	runtime.ReadMemStats(&m)
	allocBase = m.TotalAlloc
}

// AllocatedBytes: symbolically the largest single make() seen since SetAllocView, in bytes;
// natively everything allocated since then (an upper bound of it).
func AllocatedBytes() int64 {
	var m runtime.MemStats
	runtime.ReadMemStats(&m)
	return int64(m.TotalAlloc - allocBase)
}
