// Package c15: two submitters (and a reader) interleaved at repository-method granularity.
package c15

import (
	"github.com/bitcoin-sv/block-headers-service/domains"
	"github.com/bitcoin-sv/block-headers-service/internal/chaincfg"
	"github.com/bitcoin-sv/block-headers-service/internal/chaincfg/chainhash"
	"github.com/bitcoin-sv/block-headers-service/internal/zzverif/c01"
	"github.com/bitcoin-sv/block-headers-service/internal/zzverif/hstore"
	"github.com/bitcoin-sv/block-headers-service/internal/zzverif/vh"
	"github.com/bitcoin-sv/block-headers-service/repository"
	"github.com/bitcoin-sv/block-headers-service/service"
)

// yielding puts a scheduling point in front of every repository method Add and the tip
// readers use: this is the granularity of the property ("storage-operation granularity").
type yielding struct {
	repository.Headers
	max int
}

func (y yielding) AddHeaderToDatabase(h domains.BlockHeader) error {
	vh.Yield(y.max)
	return y.Headers.AddHeaderToDatabase(h)
}
func (y yielding) UpdateState(hs []chainhash.Hash, s domains.HeaderState) error {
	vh.Yield(y.max)
	return y.Headers.UpdateState(hs, s)
}
func (y yielding) GetHeaderByHeight(h int32) (*domains.BlockHeader, error) {
	vh.Yield(y.max)
	return y.Headers.GetHeaderByHeight(h)
}
func (y yielding) GetLongestChainHeadersFromHeight(h int32) ([]*domains.BlockHeader, error) {
	vh.Yield(y.max)
	return y.Headers.GetLongestChainHeadersFromHeight(h)
}
func (y yielding) GetStaleChainHeadersBackFrom(h string) ([]*domains.BlockHeader, error) {
	vh.Yield(y.max)
	return y.Headers.GetStaleChainHeadersBackFrom(h)
}
func (y yielding) GetHeaderByHash(h string) (*domains.BlockHeader, error) {
	vh.Yield(y.max)
	return y.Headers.GetHeaderByHash(h)
}
func (y yielding) GetTip() (*domains.BlockHeader, error) {
	vh.Yield(y.max)
	return y.Headers.GetTip()
}
func (y yielding) GetCurrentHeight() (int, error) {
	vh.Yield(y.max)
	return y.Headers.GetCurrentHeight()
}
func (y yielding) GetHeadersCount() (int, error) {
	vh.Yield(y.max)
	return y.Headers.GetHeadersCount()
}
func (y yielding) GetAllTips() ([]*domains.BlockHeader, error) {
	vh.Yield(y.max)
	return y.Headers.GetAllTips()
}
func (y yielding) GetHeaderByHeightRange(from int, to int) ([]*domains.BlockHeader, error) {
	vh.Yield(y.max)
	return y.Headers.GetHeaderByHeightRange(from, to)
}

// hashOf gives each of the two submitted headers its own arbitrary hash.
type twoHasher struct {
	a, b   chainhash.Hash
	nonceA uint32
}

func (t twoHasher) BlockHash(s *domains.BlockHeaderSource) domains.BlockHash {
	if s.Nonce == t.nonceA {
		return domains.BlockHash(t.a)
	}
	return domains.BlockHash(t.b)
}

type countNotifier struct{ n int }

func (r *countNotifier) Notify(any) { r.n++ }

func source(prev chainhash.Hash, nonce uint32) domains.BlockHeaderSource {
	return domains.BlockHeaderSource{Version: 1, PrevBlock: prev, MerkleRoot: vh.NondetHash("smerkle"),
		Timestamp: vh.NondetTime("sts"), Bits: c01.BitsMenu[2+vh.Choose(2)], Nonce: nonce}
}

// HarnessTwoSubmitters: from an arbitrary store of k headers satisfying INV-H, two peers
// submit two different new headers at the same time; the two Add calls are interleaved in
// every way at repository-method granularity with at most p preemptions. Afterwards INV-H
// holds again (in particular one longest-chain header per height) and exactly the two
// headers were added: the store is the one some sequential order would have produced.
func HarnessTwoSubmitters(k int, p int) { twoSubmitters(k, p, 0) }

// HarnessTwoBranches: the slice of HarnessTwoSubmitters in which one header extends the longest
// chain and the other a stored stale branch (two peers feeding two branches) - one row further.
func HarnessTwoBranches(k int, p int) { twoSubmitters(k, p, 1) }

// HarnessForkBelowTip: the slice in which one header extends the tip and the other forks off a
// longest-chain header below the tip (it may out-work the tip and reorganise).
func HarnessForkBelowTip(k int, p int) { twoSubmitters(k, p, 2) }

func twoSubmitters(k int, p int, slice int) {
	distinctStoredParents := slice == 1
	pre := make([]hstore.H, k)
	for i := range pre {
		pre[i] = hstore.NondetH()
	}
	vh.Assume(hstore.Inv(pre, nil))
	vh.Assume(hstore.PositiveWork(pre))
	db := hstore.Store(pre)
	hashA, hashB := vh.NondetHash("hashA"), vh.NondetHash("hashB")
	srcA, srcB := source(vh.NondetHash("prevA"), 1), source(vh.NondetHash("prevB"), 2)
	hashes, prevs := []chainhash.Hash{hashA, hashB}, []chainhash.Hash{srcA.PrevBlock, srcB.PrevBlock}
	for i := range pre {
		hashes, prevs = append(hashes, pre[i].Hash), append(prevs, pre[i].Prev)
		// both headers are new
		vh.Assume(vh.And(!vh.HashEq(pre[i].Hash, hashA), !vh.HashEq(pre[i].Hash, hashB)))
	}
	vh.Assume(!vh.HashEq(hashA, hashB))
	if distinctStoredParents {
		// one header extends the longest chain, the other a stale branch
		pa, pb := false, false
		for i := range pre {
			pa = vh.Or(pa, vh.And(vh.HashEq(pre[i].Hash, srcA.PrevBlock), pre[i].State == hstore.L))
			pb = vh.Or(pb, vh.And(vh.HashEq(pre[i].Hash, srcB.PrevBlock), pre[i].State == hstore.S))
		}
		vh.Assume(vh.And(pa, pb))
	}
	if slice == 2 {
		pa, pb := false, false
		for i := range pre {
			pa = vh.Or(pa, vh.And(vh.HashEq(pre[i].Hash, srcA.PrevBlock), hstore.IsTip(pre, i)))
			pb = vh.Or(pb, vh.And(vh.HashEq(pre[i].Hash, srcB.PrevBlock), pre[i].State == hstore.L, !hstore.IsTip(pre, i)))
		}
		vh.Assume(vh.And(pa, pb))
	}
	vh.Assume(hstore.Acyclic(hashes, prevs))
	vh.Assume(vh.And(!vh.HashEq(hashA, pre[0].Prev), !vh.HashEq(hashB, pre[0].Prev)))

	repos := hstore.Repos(db)
	repos.Headers = yielding{repos.Headers, p}
	note := &countNotifier{}
	hasher := twoHasher{hashA, hashB, 1}
	cs := service.NewChainsService(repos, &chaincfg.Params{}, vh.Logger(), hasher, note)

	var errA, errB error
	vh.Interleave(
		func() { _, errA = cs.Add(srcA) },
		func() { _, errB = cs.Add(srcB) },
	)
	// the two sequential orders on copies of the same store
	seq := func(first, second domains.BlockHeaderSource) []hstore.H {
		d := hstore.Store(pre)
		c := service.NewChainsService(hstore.Repos(d), &chaincfg.Params{}, vh.Logger(), hasher, &countNotifier{})
		_, _ = c.Add(first)
		_, _ = c.Add(second)
		out, _ := hstore.Load(d)
		return out
	}
	postAB, postBA := seq(srcA, srcB), seq(srcB, srcA)
	vh.Observe("errA_nil", errA == nil)
	vh.Observe("errB_nil", errB == nil)

	post, ok := hstore.Load(db)
	vh.Assert("C15/rows-wellformed", ok)
	if !ok {
		return
	}
	vh.Observe("n_post", len(post))
	vh.Assert("C15/both-submissions-stored-once", vh.And(len(post) == k+2, errA == nil, errB == nil))
	if len(post) != k+2 {
		return
	}
	for i := 0; i < k; i++ {
		vh.Assert("C15/old-rows-keep-everything-but-state", hstore.SameButState(pre[i], post[i]))
	}
	for i := 0; i < len(post); i++ {
		for j := 0; j < i; j++ {
			vh.Assert("C15/one-longest-header-per-height", !vh.And(post[i].State == hstore.L, post[j].State == hstore.L, post[i].Height == post[j].Height))
		}
	}
	vh.Assert("C15/store-is-a-sequential-outcome", vh.Or(sameStore(post, postAB), sameStore(post, postBA)))
	vh.Assert("C15/one-event-per-stored-header", note.n == 2)
	vh.Reach("end")
}

// HarnessReaderDuringAdd: a reader asks for the tip at an arbitrary moment of an Add (between
// any two of its storage operations, before it or after it). What it gets is a stored
// longest-chain header, the highest one, and the longest-chain rows of that moment form one
// path from genesis with one header per height.
func HarnessReaderDuringAdd(k int) {
	pre := make([]hstore.H, k)
	for i := range pre {
		pre[i] = hstore.NondetH()
	}
	vh.Assume(hstore.Inv(pre, nil))
	vh.Assume(hstore.PositiveWork(pre))
	db := hstore.Store(pre)
	hashA := vh.NondetHash("hashA")
	srcA := source(vh.NondetHash("prevA"), 1)
	hashes, prevs := []chainhash.Hash{hashA}, []chainhash.Hash{srcA.PrevBlock}
	for i := range pre {
		hashes, prevs = append(hashes, pre[i].Hash), append(prevs, pre[i].Prev)
		vh.Assume(!vh.HashEq(pre[i].Hash, hashA))
	}
	vh.Assume(hstore.Acyclic(hashes, prevs))
	vh.Assume(!vh.HashEq(hashA, pre[0].Prev))
	repos := hstore.Repos(db)
	repos.Headers = yielding{repos.Headers, 3}
	cs := service.NewChainsService(repos, &chaincfg.Params{}, vh.Logger(), twoHasher{hashA, hashA, 1}, &countNotifier{})
	hsvc := service.NewHeaderService(repos, nil, vh.Logger())
	var tip *domains.BlockHeader
	var terr error
	var snap []hstore.H
	var snapOK bool
	vh.Interleave(
		func() { _, _ = cs.Add(srcA) },
		func() {
			// the tip as the API and the sync engines ask for it: through the header service, whose
			// storage calls are scheduling points like the submitter's (it may straddle them)
			tip = hsvc.GetTip()
			snap, snapOK = hstore.Load(db) // same moment as the reader's last storage call
		},
	)
	vh.Assert("C15/reader-gets-a-tip", vh.And(terr == nil, tip != nil, snapOK))
	if tip == nil || !snapOK {
		return
	}
	vh.Observe("n_snap", len(snap))
	found := false
	for t := range snap {
		isIt := vh.HashEq(snap[t].Hash, tip.Hash)
		found = vh.Or(found, isIt)
		vh.Assert("C15/observed-tip-is-the-highest-longest-chain-header", vh.Implies(isIt, hstore.IsTip(snap, t)))
	}
	vh.Assert("C15/observed-tip-is-stored", found)
	for i := 1; i < len(snap); i++ {
		lpar := false
		for j := range snap {
			if j != i {
				lpar = vh.Or(lpar, vh.And(vh.HashEq(snap[j].Hash, snap[i].Prev), snap[j].State == hstore.L, snap[i].Height == snap[j].Height+1))
			}
		}
		vh.Assert("C15/observed-longest-chain-is-one-path-from-genesis", vh.Implies(snap[i].State == hstore.L, lpar))
		for j := 0; j < i; j++ {
			vh.Assert("C15/observed-longest-chain-is-one-path-from-genesis", !vh.And(snap[i].State == hstore.L, snap[j].State == hstore.L, snap[i].Height == snap[j].Height))
		}
	}
	vh.Assert("C15/observed-longest-chain-is-one-path-from-genesis", vh.And(snap[0].State == hstore.L, snap[0].Height == 0))
	vh.Reach("end")
}

// sameStore: x and y hold the same rows (every column incl. the state), in any order.
func sameStore(x, y []hstore.H) bool {
	if len(x) != len(y) {
		return false
	}
	cs := []bool{}
	for i := range x {
		found := []bool{}
		for j := range y {
			found = append(found, vh.And(hstore.SameButState(x[i], y[j]), x[i].State == y[j].State))
		}
		cs = append(cs, vh.Or(found...))
	}
	return vh.And(cs...)
}

// ---- exported for harnesses that submit through other entry points (the experimental engine's peers)

// Yielding wraps a headers repository with a scheduling point in front of every method.
func Yielding(h repository.Headers, maxPreempt int) repository.Headers { return yielding{h, maxPreempt} }

// TwoHasher hashes a source with nonce 1 to a and any other source to b.
func TwoHasher(a, b chainhash.Hash) service.BlockHasher { return twoHasher{a, b, 1} }

// Source is an arbitrary new header on the given parent.
func Source(prev chainhash.Hash, nonce uint32) domains.BlockHeaderSource { return source(prev, nonce) }

// SameStore: the two tables hold the same rows (as sets).
func SameStore(x, y []hstore.H) bool { return sameStore(x, y) }

// CountNotifier counts events.
type CountNotifier = countNotifier

// Count is the number of events seen.
func (r *countNotifier) Count() int { return r.n }
