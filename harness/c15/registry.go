package c15

// Registry maps harness names to their native entry points (replay).
var Registry = map[string]func([]int64){
	"HarnessTwoSubmitters":   func(a []int64) { HarnessTwoSubmitters(int(a[0]), int(a[1])) },
	"HarnessForkBelowTip":    func(a []int64) { HarnessForkBelowTip(int(a[0]), int(a[1])) },
	"HarnessTwoBranches":     func(a []int64) { HarnessTwoBranches(int(a[0]), int(a[1])) },
	"HarnessReaderDuringAdd": func(a []int64) { HarnessReaderDuringAdd(int(a[0])) },
}
