package c16

// Registry lists the harness entry points of this package for native replay.
var Registry = map[string]func([]int64){
	"HarnessNo5xx":      func(a []int64) { HarnessNo5xx(int(a[0]), int(a[1])) },
	"HarnessRouteCount": func([]int64) { HarnessRouteCount() },
}
