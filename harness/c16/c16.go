// Package c16: no request crashes the API or earns a 5xx; client errors are structured 4xx.
package c16

import (
	"strconv"
	"strings"

	"github.com/bitcoin-sv/block-headers-service/config"
	"github.com/bitcoin-sv/block-headers-service/domains"
	"github.com/bitcoin-sv/block-headers-service/internal/zzverif/happ"
	"github.com/bitcoin-sv/block-headers-service/internal/zzverif/hstore"
	"github.com/bitcoin-sv/block-headers-service/internal/zzverif/vh"
	"github.com/bitcoin-sv/block-headers-service/internal/zzverif/vhdb"
	"github.com/bitcoin-sv/block-headers-service/internal/zzverif/vhgin"
	"github.com/bitcoin-sv/block-headers-service/repository/dto"
	"github.com/bitcoin-sv/block-headers-service/transports/http/endpoints/api/webhook"
)

const api = "/api/v1"

// anyText is an arbitrary string that may also be one of the stored hashes / roots / keys, so that
// "known", "unknown", numeric, non-numeric and empty inputs are all covered by one symbolic value.
func anyText(name string) string { return vh.NondetStr(name) }

// anyNumberish covers a numeric query value in three symbolic cases: any machine integer written
// as a numeral, any numeral outside the int64 range, any text that is not a numeral.
func anyNumberish(name string) string {
	switch vh.Choose(3) {
	case 0:
		return strconv.Itoa(vh.NondetInt(name))
	case 1:
		return vh.NondetHuge(name)
	}
	return vh.NondetText(name)
}

func optionalNum(q map[string]string, key string) {
	if vh.NondetBool("has-" + key) {
		q[key] = anyNumberish(key)
	}
}

func optional(q map[string]string, key string) {
	if vh.NondetBool("has-" + key) {
		q[key] = anyText(key)
	}
}

// request builds an arbitrary request for the route: path parameters, query values (present or
// absent) and a body of the bound type (or an unbindable one). Routes this table does not know
// (added later) still get arbitrary path parameters and an unbindable body.
func request(method, path string) vhgin.Req { return Request(method, path) }

// Request is request, exported for the harnesses of other properties.
func Request(method, path string) vhgin.Req {
	req := vhgin.Req{Params: map[string]string{}, Query: map[string]string{}, Headers: map[string]string{}}
	for _, seg := range strings.Split(path, "/") {
		if strings.HasPrefix(seg, ":") || strings.HasPrefix(seg, "*") {
			req.Params[seg[1:]] = anyText("param-" + seg[1:])
		}
	}
	switch method + " " + strings.TrimPrefix(path, api) {
	case "GET /chain/header/byHeight":
		optionalNum(req.Query, "height")
		optionalNum(req.Query, "count")
	case "GET /chain/merkleroot":
		optionalNum(req.Query, "batchSize")
		optional(req.Query, "lastEvaluatedKey")
	case "GET /webhook", "DELETE /webhook":
		optional(req.Query, "url")
	case "POST /chain/header/commonAncestor":
		if vh.NondetBool("bindable") {
			n := vh.Choose(3)
			body := make([]string, n)
			for i := range body {
				body[i] = anyText("hash")
			}
			req.Body = body
		} else {
			req.BindFails = true
		}
	case "POST /chain/merkleroot/verify":
		if vh.NondetBool("bindable") {
			n := vh.Choose(3)
			body := make([]domains.MerkleRootConfirmationRequestItem, n)
			for i := range body {
				body[i] = domains.MerkleRootConfirmationRequestItem{MerkleRoot: anyText("root"), BlockHeight: vh.NondetI32("qheight")}
			}
			req.Body = body
		} else {
			req.BindFails = true
		}
	case "POST /webhook":
		if vh.NondetBool("bindable") {
			req.Body = webhook.Request{URL: anyText("url"), RequiredAuth: webhook.RequiredAuth{Type: anyText("authtype"), Token: anyText("token"), Header: anyText("header")}}
		} else {
			req.BindFails = true
		}
	default:
		req.BindFails = true
	}
	return req
}

// HarnessNo5xx: one arbitrary request to one (arbitrary) registered API route, authentication
// off, over arbitrary headers / tokens / webhooks tables.
func HarnessNo5xx(k int, route int) {
	pre := make([]hstore.H, k)
	for i := range pre {
		pre[i] = hstore.NondetH()
	}
	vh.Assume(hstore.Inv(pre, nil))
	hashes, prevs := []hstore.Hash{}, []hstore.Hash{}
	for i := range pre {
		hashes, prevs = append(hashes, pre[i].Hash), append(prevs, pre[i].Prev)
	}
	vh.Assume(hstore.Acyclic(hashes, prevs))
	db := hstore.Store(pre)
	vhdb.InsertTokenRow(db, dto.DbToken{Token: vh.NondetAtom("stored-token"), CreatedAt: vh.NondetTime("created")})
	errs := vh.NondetInt("errors")
	vh.Assume(errs >= 0)
	vhdb.InsertWebhookRow(db, dto.DbWebhook{URL: vh.NondetStr("wh-url"), TokenHeader: vh.NondetStr("wh-header"), Token: vh.NondetStr("wh-token"),
		CreatedAt: vh.NondetTime("wh-created"), LastEmitStatus: vh.NondetStr("wh-status"), LastEmitTimestamp: vh.NondetTime("wh-last"), ErrorsCount: errs, Active: vh.NondetBool("wh-active")})
	app := happ.New(db, &config.HTTPConfig{UseAuth: false, AuthToken: "admin-token"}, 3, 6)
	var routes []vhgin.Route
	for _, r := range vhgin.Routes(app.Engine) {
		if strings.HasPrefix(r.Path, api+"/") {
			routes = append(routes, r)
		}
	}
	vh.Assert("C16/api-routes-registered", len(routes) >= 15)
	if route >= len(routes) {
		return // the route table is shorter than this index
	}
	r := routes[route]
	vh.Observe("route", r.Method+" "+r.Path)
	req := request(r.Method, r.Path)

	vh.Class("F1-get-access-with-auth-disabled-is-bodyless-400", r.Method == "GET" && r.Path == api+"/access")
	resp := vhgin.Serve(app.Engine, r.Method, r.Path, req)

	vh.Observe("status", resp.Status)
	vh.Assert("C16/no-crash", !resp.Panicked)
	vh.Assert("C16/no-5xx", resp.Status < 500)
	vh.Assert("C16/single-document", resp.Documents <= 1)
	vh.Assert("C16/client-error-is-structured", vh.Implies(vh.And(resp.Status >= 400, resp.Status < 500), vh.And(resp.Documents == 1, !vh.StrEq(resp.ErrCode, ""), !vh.StrEq(resp.ErrMsg, ""))))
	post, ok := hstore.Load(db)
	vh.Assert("C16/header-store-untouched", vh.And(ok, len(post) == k))
	if ok && len(post) == k {
		for i := range pre {
			vh.Assert("C16/header-store-untouched", vh.And(hstore.SameButState(pre[i], post[i]), pre[i].State == post[i].State))
		}
	}
	vh.Reach("end")
}

// NumRoutes reports how many API routes the working tree registers (used by the runner to cover all).
func HarnessRouteCount() {
	db := vhdb.NewDB()
	app := happ.New(db, &config.HTTPConfig{UseAuth: false, AuthToken: "admin-token"}, 3, 6)
	n := 0
	for _, r := range vhgin.Routes(app.Engine) {
		if strings.HasPrefix(r.Path, api+"/") {
			n++
		}
	}
	vh.Observe("routes", n)
	vh.Assert("C16/route-table-within-runner-range", n <= 24)
	vh.Reach("end")
}
