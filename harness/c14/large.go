package c14

import (
	"bytes"
	"net"

	"github.com/bitcoin-sv/block-headers-service/internal/chaincfg/chainhash"
	"github.com/bitcoin-sv/block-headers-service/internal/wire"
	"github.com/bitcoin-sv/block-headers-service/internal/zzverif/vh"
)

// idHash: a hash that identifies its index (concrete), so that lists of thousands of elements
// stay concrete; two elements (first and last) are arbitrary.
func idHash(i int) chainhash.Hash {
	var h chainhash.Hash
	h[0], h[1], h[2], h[3] = byte(i), byte(i>>8), byte(i>>16), 0xA5
	return h
}

// HarnessLargeLists: the list-carrying messages at realistic sizes. A message of count elements
// (first and last element arbitrary, the others distinct concrete values) is written and read
// back: up to the protocol limit of its kind the round trip is exact (same count, same first,
// middle and last element), without panic; one element more is refused when adding it.
//
//	kind 0 inv (50000), 1 getdata (50000), 2 notfound (50000), 3 headers (2000),
//	4 getheaders locator (500), 5 addr (1000)
func HarnessLargeLists(kind int, count int) {
	limits := []int{wire.MaxInvPerMsg, wire.MaxInvPerMsg, wire.MaxInvPerMsg, wire.MaxBlockHeadersPerMsg, wire.MaxBlockLocatorsPerMsg, wire.MaxAddrPerMsg}
	limit := limits[kind]
	first, last := vh.NondetHash("first"), vh.NondetHash("last")
	elem := func(i int) chainhash.Hash {
		if i == 0 {
			return first
		}
		if i == count-1 {
			return last
		}
		return idHash(i)
	}
	var msg wire.Message
	refused := false
	switch kind {
	case 0, 1, 2:
		add := func(iv *wire.InvVect) error { return nil }
		switch kind {
		case 0:
			m := wire.NewMsgInv()
			msg, add = m, m.AddInvVect
		case 1:
			m := wire.NewMsgGetData()
			msg, add = m, m.AddInvVect
		default:
			m := wire.NewMsgNotFound()
			msg, add = m, m.AddInvVect
		}
		for i := 0; i < count; i++ {
			h := elem(i)
			if add(wire.NewInvVect(wire.InvTypeBlock, &h)) != nil {
				refused = true
			}
		}
	case 3:
		m := wire.NewMsgHeaders()
		msg = m
		for i := 0; i < count; i++ {
			if m.AddBlockHeader(&wire.BlockHeader{Version: int32(i), PrevBlock: elem(i), Bits: uint32(i)}) != nil {
				refused = true
			}
		}
	case 4:
		m := wire.NewMsgGetHeaders()
		msg = m
		for i := 0; i < count; i++ {
			h := elem(i)
			if m.AddBlockLocatorHash(&h) != nil {
				refused = true
			}
		}
	case 5:
		m := wire.NewMsgAddr()
		msg = m
		for i := 0; i < count; i++ {
			if m.AddAddress(wire.NewNetAddressIPPort(net.IP{10, byte(i >> 16), byte(i >> 8), byte(i)}, uint16(i), wire.SFNodeNetwork)) != nil {
				refused = true
			}
		}
	}
	vh.Assert("C14/list-beyond-the-limit-is-refused-when-built", refused == (count > limit))
	if refused {
		vh.Reach("refused")
		return
	}
	var buf bytes.Buffer
	_, werr := wire.WriteMessageN(&buf, msg, wire.ProtocolVersion, wire.MainNet)
	vh.Assert("C14/large-list-encodes", werr == nil)
	if werr != nil {
		return
	}
	_, back, _, rerr := wire.ReadMessageN(bytes.NewReader(buf.Bytes()), wire.ProtocolVersion, wire.MainNet)
	vh.Assert("C14/large-list-decodes", rerr == nil && back != nil)
	if rerr != nil || back == nil {
		return
	}
	n := -1
	var f, mid, l chainhash.Hash
	switch b := back.(type) {
	case *wire.MsgInv:
		n = len(b.InvList)
		if n == count && n > 0 {
			f, mid, l = b.InvList[0].Hash, b.InvList[n/2].Hash, b.InvList[n-1].Hash
		}
	case *wire.MsgGetData:
		n = len(b.InvList)
		if n == count && n > 0 {
			f, mid, l = b.InvList[0].Hash, b.InvList[n/2].Hash, b.InvList[n-1].Hash
		}
	case *wire.MsgNotFound:
		n = len(b.InvList)
		if n == count && n > 0 {
			f, mid, l = b.InvList[0].Hash, b.InvList[n/2].Hash, b.InvList[n-1].Hash
		}
	case *wire.MsgHeaders:
		n = len(b.Headers)
		if n == count && n > 0 {
			f, mid, l = b.Headers[0].PrevBlock, b.Headers[n/2].PrevBlock, b.Headers[n-1].PrevBlock
		}
	case *wire.MsgGetHeaders:
		n = len(b.BlockLocatorHashes)
		if n == count && n > 0 {
			f, mid, l = *b.BlockLocatorHashes[0], *b.BlockLocatorHashes[n/2], *b.BlockLocatorHashes[n-1]
		}
	case *wire.MsgAddr:
		n = len(b.AddrList)
	}
	vh.Assert("C14/large-list-keeps-its-count", n == count)
	if n == count && n > 0 && kind != 5 {
		vh.Assert("C14/large-list-keeps-its-elements", vh.And(vh.HashEq(f, elem(0)), vh.HashEq(mid, elem(n/2)), vh.HashEq(l, elem(n-1))))
	}
	if n == count && n > 0 && kind == 5 {
		a := back.(*wire.MsgAddr).AddrList
		vh.Assert("C14/large-list-keeps-its-elements", a[0].Port == 0 && int(a[n-1].Port) == (n-1)&0xffff && int(a[n/2].Port) == (n/2)&0xffff)
	}
	vh.Reach("round-trip")
}
