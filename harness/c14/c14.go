// Package c14: wire codec round trips, framing checks, decoders on hostile payloads.
package c14

import (
	"bytes"
	"net"
	"time"

	"github.com/bitcoin-sv/block-headers-service/internal/chaincfg/chainhash"
	"github.com/bitcoin-sv/block-headers-service/internal/wire"
	"github.com/bitcoin-sv/block-headers-service/internal/zzverif/vh"
)

// Kinds: the message kinds the service sends or acts upon.
var Kinds = []string{wire.CmdVersion, wire.CmdVerAck, wire.CmdGetAddr, wire.CmdAddr, wire.CmdGetHeaders, wire.CmdGetBlocks, wire.CmdHeaders, wire.CmdInv,
	wire.CmdGetData, wire.CmdNotFound, wire.CmdPing, wire.CmdPong, wire.CmdReject, wire.CmdSendHeaders, wire.CmdFeeFilter, wire.CmdMemPool}

func text(name string, n int) string { return string(vh.Bytes(name, n)) }

func sec(name string) time.Time {
	// times at one-second precision within the uint32 epoch range, as the format carries
	return time.Unix(int64(vh.NondetU32(name)), 0)
}

func netAddr(form int) wire.NetAddress {
	var ip net.IP
	switch form {
	case 0:
		ip = net.IP(vh.Bytes("ip", 16))
	case 1:
		ip = net.IP(vh.Bytes("ip4", 4)) // Go's 4-byte form of an IPv4 address
	}
	return wire.NetAddress{Timestamp: sec("natime"), Services: wire.ServiceFlag(vh.NondetU64("services")), IP: ip, Port: uint16(vh.NondetU32("port"))}
}

func hashp(name string) *chainhash.Hash { h := vh.NondetHash(name); return &h }

func invList(n int) []*wire.InvVect {
	out := make([]*wire.InvVect, n)
	for i := range out {
		out[i] = wire.NewInvVect(wire.InvType(vh.NondetU32("invtype")), hashp("invhash"))
	}
	return out
}

// build returns an arbitrary message of the kind with list sizes / string lengths n.
func build(kind string, n int) wire.Message {
	switch kind {
	case wire.CmdVersion:
		return &wire.MsgVersion{ProtocolVersion: vh.NondetI32("pv"), Services: wire.ServiceFlag(vh.NondetU64("svc")), Timestamp: time.Unix(vh.NondetI64("ts"), 0),
			AddrYou: netAddr(n % 3), AddrMe: netAddr((n + 1) % 3), Nonce: vh.NondetU64("nonce"), UserAgent: text("ua", n), LastBlock: vh.NondetI32("last"), DisableRelayTx: vh.NondetBool("norelay")}
	case wire.CmdVerAck:
		return wire.NewMsgVerAck()
	case wire.CmdGetAddr:
		return wire.NewMsgGetAddr()
	case wire.CmdAddr:
		m := wire.NewMsgAddr()
		for i := 0; i < n; i++ {
			a := netAddr(i % 2)
			_ = m.AddAddress(&a)
		}
		return m
	case wire.CmdGetHeaders:
		m := wire.NewMsgGetHeaders()
		m.ProtocolVersion = vh.NondetU32("pv")
		m.HashStop = vh.NondetHash("stop")
		for i := 0; i < n; i++ {
			_ = m.AddBlockLocatorHash(hashp("loc"))
		}
		return m
	case wire.CmdGetBlocks:
		m := wire.NewMsgGetBlocks(hashp("stop"))
		m.ProtocolVersion = vh.NondetU32("pv")
		for i := 0; i < n; i++ {
			_ = m.AddBlockLocatorHash(hashp("loc"))
		}
		return m
	case wire.CmdHeaders:
		m := wire.NewMsgHeaders()
		for i := 0; i < n; i++ {
			_ = m.AddBlockHeader(&wire.BlockHeader{Version: vh.NondetI32("v"), PrevBlock: vh.NondetHash("prev"), MerkleRoot: vh.NondetHash("mr"), Timestamp: sec("t"), Bits: vh.NondetU32("bits"), Nonce: vh.NondetU32("nonce")})
		}
		return m
	case wire.CmdInv:
		return &wire.MsgInv{InvList: invList(n)}
	case wire.CmdGetData:
		return &wire.MsgGetData{InvList: invList(n)}
	case wire.CmdNotFound:
		return &wire.MsgNotFound{InvList: invList(n)}
	case wire.CmdPing:
		return wire.NewMsgPing(vh.NondetU64("nonce"))
	case wire.CmdPong:
		return wire.NewMsgPong(vh.NondetU64("nonce"))
	case wire.CmdReject:
		m := wire.NewMsgReject([]string{wire.CmdBlock, wire.CmdTx, wire.CmdVersion}[n%3], wire.RejectCode(vh.NondetU8("code")), text("reason", n))
		m.Hash = vh.NondetHash("hash")
		return m
	case wire.CmdSendHeaders:
		return wire.NewMsgSendHeaders()
	case wire.CmdFeeFilter:
		return wire.NewMsgFeeFilter(vh.NondetI64("fee"))
	case wire.CmdMemPool:
		return wire.NewMsgMemPool()
	}
	panic("unknown kind " + kind)
}

func ipEq(a, b net.IP) bool {
	if a == nil || b == nil {
		// a nil address is written as sixteen zero bytes
		z := net.IP(make([]byte, 16))
		if a == nil {
			a = z
		}
		if b == nil {
			b = z
		}
	}
	return a.Equal(b)
}

func naEq(a, b *wire.NetAddress, withTime bool) bool {
	return vh.And(a.Services == b.Services, a.Port == b.Port, ipEq(a.IP, b.IP), !withTime || a.Timestamp.Unix() == b.Timestamp.Unix())
}

func invEq(a, b []*wire.InvVect) bool {
	if len(a) != len(b) {
		return false
	}
	cs := []bool{}
	for i := range a {
		cs = append(cs, a[i].Type == b[i].Type, vh.HashEq(a[i].Hash, b[i].Hash))
	}
	return vh.And(cs...)
}

// equal compares the fields the wire format carries at protocol version pver.
func equal(a, b wire.Message, pver uint32) bool {
	switch x := a.(type) {
	case *wire.MsgVersion:
		y, ok := b.(*wire.MsgVersion)
		return ok && vh.And(x.ProtocolVersion == y.ProtocolVersion, x.Services == y.Services, x.Timestamp.Unix() == y.Timestamp.Unix(), naEq(&x.AddrYou, &y.AddrYou, false), naEq(&x.AddrMe, &y.AddrMe, false),
			x.Nonce == y.Nonce, vh.StrEq(x.UserAgent, y.UserAgent), x.LastBlock == y.LastBlock, pver < wire.BIP0037Version || x.DisableRelayTx == y.DisableRelayTx)
	case *wire.MsgAddr:
		y, ok := b.(*wire.MsgAddr)
		if !ok || len(x.AddrList) != len(y.AddrList) {
			return false
		}
		cs := []bool{}
		for i := range x.AddrList {
			cs = append(cs, naEq(x.AddrList[i], y.AddrList[i], pver >= wire.NetAddressTimeVersion))
		}
		return vh.And(cs...)
	case *wire.MsgGetHeaders:
		y, ok := b.(*wire.MsgGetHeaders)
		if !ok || len(x.BlockLocatorHashes) != len(y.BlockLocatorHashes) {
			return false
		}
		cs := []bool{x.ProtocolVersion == y.ProtocolVersion, vh.HashEq(x.HashStop, y.HashStop)}
		for i := range x.BlockLocatorHashes {
			cs = append(cs, vh.HashEq(*x.BlockLocatorHashes[i], *y.BlockLocatorHashes[i]))
		}
		return vh.And(cs...)
	case *wire.MsgGetBlocks:
		y, ok := b.(*wire.MsgGetBlocks)
		if !ok || len(x.BlockLocatorHashes) != len(y.BlockLocatorHashes) {
			return false
		}
		cs := []bool{x.ProtocolVersion == y.ProtocolVersion, vh.HashEq(x.HashStop, y.HashStop)}
		for i := range x.BlockLocatorHashes {
			cs = append(cs, vh.HashEq(*x.BlockLocatorHashes[i], *y.BlockLocatorHashes[i]))
		}
		return vh.And(cs...)
	case *wire.MsgHeaders:
		y, ok := b.(*wire.MsgHeaders)
		if !ok || len(x.Headers) != len(y.Headers) {
			return false
		}
		cs := []bool{}
		for i := range x.Headers {
			p, q := x.Headers[i], y.Headers[i]
			cs = append(cs, p.Version == q.Version, vh.HashEq(p.PrevBlock, q.PrevBlock), vh.HashEq(p.MerkleRoot, q.MerkleRoot), p.Timestamp.Unix() == q.Timestamp.Unix(), p.Bits == q.Bits, p.Nonce == q.Nonce)
		}
		return vh.And(cs...)
	case *wire.MsgInv:
		y, ok := b.(*wire.MsgInv)
		return ok && invEq(x.InvList, y.InvList)
	case *wire.MsgGetData:
		y, ok := b.(*wire.MsgGetData)
		return ok && invEq(x.InvList, y.InvList)
	case *wire.MsgNotFound:
		y, ok := b.(*wire.MsgNotFound)
		return ok && invEq(x.InvList, y.InvList)
	case *wire.MsgPing:
		y, ok := b.(*wire.MsgPing)
		return ok && (pver <= wire.BIP0031Version || x.Nonce == y.Nonce)
	case *wire.MsgPong:
		y, ok := b.(*wire.MsgPong)
		return ok && x.Nonce == y.Nonce
	case *wire.MsgReject:
		y, ok := b.(*wire.MsgReject)
		return ok && vh.And(vh.StrEq(x.Cmd, y.Cmd), x.Code == y.Code, vh.StrEq(x.Reason, y.Reason), (x.Cmd != wire.CmdBlock && x.Cmd != wire.CmdTx) || vh.HashEq(x.Hash, y.Hash))
	case *wire.MsgFeeFilter:
		y, ok := b.(*wire.MsgFeeFilter)
		return ok && x.MinFee == y.MinFee
	}
	return a.Command() == b.Command()
}

// Versions: the protocol versions the service can negotiate fall into these classes; one
// representative per class of the codec's version tests plus the boundaries.
var Versions = []uint32{wire.MultipleAddressVersion, wire.NetAddressTimeVersion - 1, wire.NetAddressTimeVersion, wire.BIP0031Version, wire.BIP0031Version + 1, wire.BIP0037Version,
	wire.SendHeadersVersion, wire.FeeFilterVersion}

// HarnessRoundTrip: decode(encode(m)) = m and re-encoding reproduces the bytes, for an arbitrary
// message of kind Kinds[kind] with list sizes / string lengths n, on the chosen protocol version.
func HarnessRoundTrip(kind int, n int) {
	pver := Versions[vh.Choose(len(Versions))]
	msg := build(Kinds[kind], n)
	var buf bytes.Buffer
	err := wire.WriteMessage(&buf, msg, pver, wire.MainNet)
	if err != nil {
		// a message that cannot be sent at this version (pong / feefilter / sendheaders before their version, reject before its version)
		vh.Reach("not-encodable-at-version")
		return
	}
	b1 := append([]byte{}, buf.Bytes()...)
	got, _, derr := wire.ReadMessage(bytes.NewReader(b1), pver, wire.MainNet)
	vh.Assert("C14/encoded-message-decodes", derr == nil && got != nil)
	if derr != nil || got == nil {
		return
	}
	vh.Assert("C14/decode-encode-is-identity-on-messages", equal(msg, got, pver))
	var buf2 bytes.Buffer
	err2 := wire.WriteMessage(&buf2, got, pver, wire.MainNet)
	vh.Assert("C14/reencoding-reproduces-the-bytes", err2 == nil && bytes.Equal(buf2.Bytes(), b1))
	vh.Reach("round-trip")
}
