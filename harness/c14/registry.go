package c14

// Registry lists the harness entry points of this package for native replay.
var Registry = map[string]func([]int64){
	"HarnessRoundTrip":  func(a []int64) { HarnessRoundTrip(int(a[0]), int(a[1])) },
	"HarnessLargeLists": func(a []int64) { HarnessLargeLists(int(a[0]), int(a[1])) },
}
