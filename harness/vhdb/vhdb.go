// Package vhdb is the database part of the harness API: a database with the working
// tree's schema whose rows the harness supplies. Symbolically the executor intercepts
// every function here (tables are bounded lists of symbolic rows, queries are evaluated by
// the SQL model); natively they run against a real SQLite file built from the migrations.
package vhdb

import (
	"context"
	"database/sql"
	"database/sql/driver"
	"encoding/json"
	"errors"
	"fmt"
	"os"
	"path/filepath"
	"sort"
	"strconv"
	"strings"
	"sync"

	"github.com/bitcoin-sv/block-headers-service/internal/zzverif/vh"
	"github.com/bitcoin-sv/block-headers-service/repository/dto"
	"github.com/jmoiron/sqlx"
	sqlite3 "github.com/mattn/go-sqlite3"
)

func repoDir() string {
	if d := os.Getenv("VH_REPO"); d != "" {
		return d
	}
	return "/repo"
}

// NewDB returns an empty database with the schema of the working tree's migrations.
func NewDB() *sqlx.DB {
	f, err := os.CreateTemp("", "vhdb-*.sqlite")
	if err != nil {
		panic(vh.Diverged{Why: err.Error()})
	}
	name := f.Name()
	f.Close()
	db := open(name)
	vh.Cleanup(func() { os.Remove(name) })
	files, _ := filepath.Glob(filepath.Join(repoDir(), "database/migrations", "*.up.sql"))
	sort.Slice(files, func(i, j int) bool {
		a, _ := strconv.Atoi(strings.SplitN(filepath.Base(files[i]), "_", 2)[0])
		b, _ := strconv.Atoi(strings.SplitN(filepath.Base(files[j]), "_", 2)[0])
		return a < b
	})
	if len(files) == 0 {
		panic(vh.Diverged{Why: "no migrations found under " + repoDir()})
	}
	for _, mf := range files {
		b, err := os.ReadFile(mf)
		if err != nil {
			panic(vh.Diverged{Why: err.Error()})
		}
		setup(func() {
			if _, err := db.Exec(string(b)); err != nil {
				panic(vh.Diverged{Why: fmt.Sprintf("migration %s: %v", mf, err)})
			}
		})
	}
	return db
}

const insHeader = `INSERT INTO headers(hash, height, version, merkleroot, nonce, bits, header_state, chainwork, previous_block, timestamp, cumulated_work)
VALUES(:hash, :height, :version, :merkleroot, :nonce, :bits, :header_state, :chainwork, :previous_block, :timestamp, :cumulated_work)`

// InsertHeaderRow stores r as the next row (rowid order = call order). The primary key must be fresh.
func InsertHeaderRow(db *sqlx.DB, r dto.DbBlockHeader) {
	setup(func() {
		if _, err := db.NamedExec(insHeader, r); err != nil {
			panic(vh.Diverged{Why: "pre-state row rejected by SQLite: " + err.Error()})
		}
	})
}

// HeaderRows returns all stored headers in rowid order.
func HeaderRows(db *sqlx.DB) []dto.DbBlockHeader {
	var out []dto.DbBlockHeader
	err := db.Select(&out, `SELECT hash, height, version, merkleroot, nonce, bits, chainwork, previous_block, timestamp, header_state, cumulated_work FROM headers ORDER BY rowid`)
	if err != nil {
		panic(vh.Diverged{Why: err.Error()})
	}
	return out
}

func InsertTokenRow(db *sqlx.DB, r dto.DbToken) {
	setup(func() {
		if _, err := db.NamedExec(`INSERT INTO tokens(token, created_at) VALUES(:token, :created_at)`, r); err != nil {
			panic(vh.Diverged{Why: "pre-state row rejected by SQLite: " + err.Error()})
		}
	})
}

func TokenRows(db *sqlx.DB) []dto.DbToken {
	var out []dto.DbToken
	if err := db.Select(&out, `SELECT token, created_at FROM tokens ORDER BY rowid`); err != nil {
		panic(vh.Diverged{Why: err.Error()})
	}
	return out
}

func InsertWebhookRow(db *sqlx.DB, r dto.DbWebhook) {
	var err error
	setup(func() {
		_, err = db.NamedExec(`INSERT INTO webhooks(url, token_header, token, created_at, last_emit_status, last_emit_timestamp, errors_count, is_active)
VALUES(:url, :token_header, :token, :created_at, :last_emit_status, :last_emit_timestamp, :errors_count, :is_active)`, r)
	})
	if err != nil {
		panic(vh.Diverged{Why: "pre-state row rejected by SQLite: " + err.Error()})
	}
}

func WebhookRows(db *sqlx.DB) []dto.DbWebhook {
	var out []dto.DbWebhook
	if err := db.Select(&out, `SELECT url, token_header, token, created_at, last_emit_status, last_emit_timestamp, errors_count, is_active FROM webhooks ORDER BY rowid`); err != nil {
		panic(vh.Diverged{Why: err.Error()})
	}
	return out
}

// ---- fault injection: a driver wrapper that counts committed write transactions per file

type faultState struct {
	commits int
	failAt  int
	killAt  int
	// failStmt: the fault is delivered at the first write statement inside the failAt-th write
	// transaction (the statement returns an error, the transaction is still open) instead of at its commit
	failStmt bool
	fired    bool
	// storage-operation boundaries: one per statement execution and per commit
	ops       int
	intrudeAt int
	intruder  func()
}

func (fs *faultState) op() {
	if fs == nil {
		return
	}
	fs.ops++
	if fs.intruder != nil && fs.ops == fs.intrudeAt {
		f := fs.intruder
		fs.intruder = nil
		f()
	}
}

var (
	faults   = map[string]*faultState{}
	fileOf   = map[*sqlx.DB]string{}
	regOnce  sync.Once
	errFault = errors.New("injected storage failure at commit")
)

// Killed is the panic that stands for the process being killed right after a commit.
type Killed struct{}

type wdriver struct{ sqlite3.SQLiteDriver }

func (d *wdriver) Open(dsn string) (driver.Conn, error) {
	c, err := d.SQLiteDriver.Open(dsn)
	if err != nil {
		return nil, err
	}
	name := strings.TrimPrefix(strings.SplitN(dsn, "?", 2)[0], "file:")
	return &wconn{SQLiteConn: c.(*sqlite3.SQLiteConn), fs: faults[name]}, nil
}

type wconn struct {
	*sqlite3.SQLiteConn
	fs   *faultState
	inTx bool
}

// quiet: the harness's own set-up writes (schema, pre-state rows) are not counted as writes of the code under test
var quiet bool

func setup(f func()) {
	old := quiet
	quiet = true
	defer func() { quiet = old }()
	f()
}

func isWrite(q string) bool {
	t := strings.ToLower(strings.TrimSpace(q))
	return strings.HasPrefix(t, "insert") || strings.HasPrefix(t, "update") || strings.HasPrefix(t, "delete")
}

// autocommit: a write statement executed outside a transaction is its own committed write
func (c *wconn) autocommit(query string, run func() (driver.Result, error)) (driver.Result, error) {
	c.fs.op()
	if c.fs != nil && c.inTx && !quiet && isWrite(query) && c.fs.failStmt && c.fs.failAt > 0 && c.fs.commits+1 == c.fs.failAt {
		c.fs.failAt, c.fs.fired = 0, true
		return nil, errFault
	}
	w := c.fs != nil && !c.inTx && !quiet && isWrite(query)
	if w {
		c.fs.commits++
		if c.fs.failAt > 0 && c.fs.commits == c.fs.failAt {
			c.fs.fired = true
			return nil, errFault
		}
	}
	res, err := run()
	if w && c.fs.killAt > 0 && c.fs.commits == c.fs.killAt {
		panic(Killed{})
	}
	return res, err
}

func (c *wconn) ExecContext(ctx context.Context, query string, args []driver.NamedValue) (driver.Result, error) {
	return c.autocommit(query, func() (driver.Result, error) { return c.SQLiteConn.ExecContext(ctx, query, args) })
}

func (c *wconn) QueryContext(ctx context.Context, query string, args []driver.NamedValue) (driver.Rows, error) {
	c.fs.op()
	return c.SQLiteConn.QueryContext(ctx, query, args)
}

func (c *wconn) Prepare(query string) (driver.Stmt, error) {
	return c.PrepareContext(context.Background(), query)
}

func (c *wconn) PrepareContext(ctx context.Context, query string) (driver.Stmt, error) {
	st, err := c.SQLiteConn.PrepareContext(ctx, query)
	if err != nil {
		return nil, err
	}
	return &wstmt{SQLiteStmt: st.(*sqlite3.SQLiteStmt), c: c, query: query}, nil
}

type wstmt struct {
	*sqlite3.SQLiteStmt
	c     *wconn
	query string
}

func (s *wstmt) ExecContext(ctx context.Context, args []driver.NamedValue) (driver.Result, error) {
	return s.c.autocommit(s.query, func() (driver.Result, error) { return s.SQLiteStmt.ExecContext(ctx, args) })
}

func (s *wstmt) QueryContext(ctx context.Context, args []driver.NamedValue) (driver.Rows, error) {
	s.c.fs.op()
	return s.SQLiteStmt.QueryContext(ctx, args)
}

func (c *wconn) Begin() (driver.Tx, error) {
	tx, err := c.SQLiteConn.Begin()
	if err != nil {
		return nil, err
	}
	c.inTx = true
	return &wtx{Tx: tx, fs: c.fs, c: c}, nil
}

func (c *wconn) BeginTx(ctx context.Context, opts driver.TxOptions) (driver.Tx, error) {
	tx, err := c.SQLiteConn.BeginTx(ctx, opts)
	if err != nil {
		return nil, err
	}
	c.inTx = true
	return &wtx{Tx: tx, fs: c.fs, c: c}, nil
}

type wtx struct {
	driver.Tx
	fs *faultState
	c  *wconn
}

func (t *wtx) Rollback() error {
	t.c.inTx = false
	return t.Tx.Rollback()
}

func (t *wtx) Commit() error {
	t.c.inTx = false
	if t.fs == nil {
		return t.Tx.Commit()
	}
	t.fs.op()
	t.fs.commits++
	if t.fs.failAt > 0 && t.fs.commits == t.fs.failAt {
		t.fs.fired = true
		_ = t.Tx.Rollback()
		return errFault
	}
	err := t.Tx.Commit()
	if t.fs.killAt > 0 && t.fs.commits == t.fs.killAt {
		panic(Killed{})
	}
	return err
}

func open(name string) *sqlx.DB {
	regOnce.Do(func() { sql.Register("sqlite3vh", &wdriver{}) })
	if faults[name] == nil {
		faults[name] = &faultState{}
	}
	raw, err := sql.Open("sqlite3vh", "file:"+name+"?_foreign_keys=true")
	if err != nil {
		panic(vh.Diverged{Why: err.Error()})
	}
	db := sqlx.NewDb(raw, "sqlite3")
	fileOf[db] = name
	vh.Cleanup(func() { db.Close(); delete(fileOf, db) })
	return db
}

// FailCommit makes the n-th write-transaction commit from now on this database fail (nothing is written).
func FailCommit(db *sqlx.DB, n int) {
	fs := faults[fileOf[db]]
	fs.failAt = fs.commits + n
}

// FailStatement makes the first write statement inside the n-th write transaction from now fail
// (the statement returns an error while the transaction is open; a write outside a transaction fails as a whole).
func FailStatement(db *sqlx.DB, n int) {
	fs := faults[fileOf[db]]
	fs.failAt, fs.failStmt, fs.fired = fs.commits+n, true, false
}

// FaultFired reports whether the injected failure was delivered.
func FaultFired(db *sqlx.DB) bool { return faults[fileOf[db]].fired }

// KillAfterCommit stops the process right after the n-th commit from now (see RunUntilKill).
func KillAfterCommit(db *sqlx.DB, n int) {
	fs := faults[fileOf[db]]
	fs.killAt = fs.commits + n
}

// RunUntilKill runs f; it reports whether f was cut short by the kill armed with KillAfterCommit.
func RunUntilKill(f func()) (killed bool) {
	defer func() {
		if r := recover(); r != nil {
			if _, ok := r.(Killed); ok {
				killed = true
				return
			}
			panic(r)
		}
	}()
	f()
	return false
}

// Reopen is the restart: a new connection to the same database file, all faults disarmed.
func Reopen(db *sqlx.DB) *sqlx.DB {
	name := fileOf[db]
	fs := faults[name]
	fs.failAt, fs.killAt, fs.failStmt = 0, 0, false
	return open(name)
}

// Intrude arms an intruder: right before the n-th storage operation (statement execution or commit)
// from now on this database, f runs once - another request being served in the meantime. f must
// only read.
func Intrude(db *sqlx.DB, n int, f func()) {
	fs := faults[fileOf[db]]
	fs.intrudeAt = fs.ops + n
	fs.intruder = f
}

// OpCount returns the number of storage operations so far.
func OpCount(db *sqlx.DB) int { return faults[fileOf[db]].ops }

// WriteCount returns how many write transactions were attempted to commit so far.
func WriteCount(db *sqlx.DB) int { return faults[fileOf[db]].commits }

type wsParam struct {
	Name string `json:"name"` // "" for positional
	Idx  int    `json:"idx"`
	Kind string `json:"kind"` // str int time bool
	List bool   `json:"list"`
}

type wsStmt struct {
	SQL    string    `json:"sql"`
	Params []wsParam `json:"params"`
}

func loadWS(table string) []wsStmt {
	dir := os.Getenv("VH_WORK")
	if dir == "" {
		dir = "/verif/work"
	}
	b, err := os.ReadFile(filepath.Join(dir, "writestmts-"+table+".json"))
	if err != nil {
		panic(vh.Diverged{Why: "write-statement list not available: " + err.Error()})
	}
	var out []wsStmt
	if err := json.Unmarshal(b, &out); err != nil {
		panic(vh.Diverged{Why: err.Error()})
	}
	return out
}

// NumWriteStatements returns how many SQL statements of the working tree write the given table
// (found by the executor among the statement constants of the database packages; natively the
// list is read from the file the executor wrote).
func NumWriteStatements(table string) int { return len(loadWS(table)) }

func wsValue(k string) any {
	switch k {
	case "str":
		return vh.NondetStr("arg")
	case "bool":
		return vh.NondetBool("arg")
	case "time":
		return vh.NondetTime("arg")
	}
	return vh.NondetI64("arg")
}

// ExecWriteStatement executes the i-th such statement with arbitrary arguments.
func ExecWriteStatement(db *sqlx.DB, table string, i int) {
	st := loadWS(table)[i]
	named := map[string]any{}
	var pos []any
	for _, p := range st.Params {
		var v any
		if p.List {
			v = []any{wsValue(p.Kind), wsValue(p.Kind)}
		} else {
			v = wsValue(p.Kind)
		}
		if p.Name != "" {
			named[p.Name] = v
		} else {
			pos = append(pos, v)
		}
	}
	var err error
	if len(named) > 0 {
		_, err = db.NamedExec(st.SQL, named)
	} else {
		q, args, ierr := sqlx.In(st.SQL, pos...)
		if ierr != nil {
			panic(vh.Diverged{Why: ierr.Error()})
		}
		_, err = db.Exec(db.Rebind(q), args...)
	}
	_ = err // a failing statement changes nothing
}

// TempPath returns the path of a fresh (not yet existing) SQLite file, removed at the end of the replay entry.
func TempPath() string {
	f, err := os.CreateTemp("", "vhdb-init-*.sqlite")
	if err != nil {
		panic(vh.Diverged{Why: err.Error()})
	}
	name := f.Name()
	f.Close()
	os.Remove(name)
	vh.Cleanup(func() { os.Remove(name) })
	return name
}

// MigrationsDir is the migrations directory of the working tree.
func MigrationsDir() string { return filepath.Join(repoDir(), "database/migrations") }

// TempRelPath returns a fresh file name relative to the working directory (the import resolves
// the prepared-database path against the working directory), removed at the end of the replay entry.
func TempRelPath(suffix string) string {
	relSeq++
	name := fmt.Sprintf("zz-vh-%d-%d%s", os.Getpid(), relSeq, suffix)
	vh.Cleanup(func() { os.Remove(name) })
	return name
}

var relSeq int
