package c01

// Registry lists the harness entry points of this package for native replay.
var Registry = map[string]func([]int64){
	"HarnessAddStep": func(a []int64) { HarnessAddStep(int(a[0]), int(a[1])) },
}
