// Package c01: one inductive step of chain ingestion over the real SQL-backed repository.
package c01

import (
	"math/big"

	"github.com/bitcoin-sv/block-headers-service/domains"
	"github.com/bitcoin-sv/block-headers-service/internal/chaincfg"
	"github.com/bitcoin-sv/block-headers-service/internal/chaincfg/chainhash"
	"github.com/bitcoin-sv/block-headers-service/internal/zzverif/hstore"
	"github.com/bitcoin-sv/block-headers-service/internal/zzverif/vh"
	"github.com/bitcoin-sv/block-headers-service/service"
)

// anyHasher returns an arbitrary hash for the submitted header: every relation between the
// new header's fields and its hash (incl. collisions with stored hashes) is covered.
type anyHasher struct{ h chainhash.Hash }

func (a anyHasher) BlockHash(*domains.BlockHeaderSource) domains.BlockHash { return domains.BlockHash(a.h) }

type recNotifier struct {
	n    int
	last any
}

func (r *recNotifier) Notify(e any) { r.n++; r.last = e }

// BitsMenu: difficulty encodings of the submitted header. The work of *stored* headers is an
// arbitrary non-negative integer, so every ordering between the new header's cumulative work
// and the stored ones is covered; the menu fixes only the new header's own work:
// zero target (work 0), negative target (work 0), the largest work (target 1), mainnet and
// regtest minimum difficulty, and a high-exponent encoding.
var BitsMenu = []uint32{0x00000000, 0x1d80ffff, 0x03000001, 0x1d00ffff, 0x207fffff, 0x1c00ffff}

func src() domains.BlockHeaderSource {
	return domains.BlockHeaderSource{Version: vh.NondetI32("sversion"), PrevBlock: vh.NondetHash("sprev"), MerkleRoot: vh.NondetHash("smerkle"),
		Timestamp: vh.NondetTime("sts"), Bits: BitsMenu[vh.Choose(len(BitsMenu))], Nonce: vh.NondetU32("snonce")}
}

// HarnessAddStep: from an arbitrary store of k headers satisfying INV-H, one Add of an
// arbitrary header preserves INV-H, changes nothing but state labels, answers as specified.
func HarnessAddStep(k int, nForbidden int) {
	pre := make([]hstore.H, k)
	for i := range pre {
		pre[i] = hstore.NondetH()
	}
	forbidden := make([]*chainhash.Hash, nForbidden)
	fvals := make([]chainhash.Hash, nForbidden)
	for i := range forbidden {
		fvals[i] = vh.NondetHash("forbidden")
		forbidden[i] = &fvals[i]
	}
	vh.Assume(hstore.Inv(pre, fvals))
	vh.Assume(hstore.PositiveWork(pre))
	db := hstore.Store(pre)
	params := &chaincfg.Params{HeadersToIgnore: forbidden}
	note := &recNotifier{}
	newHash := vh.NondetHash("newhash")
	cs := service.NewChainsService(hstore.Repos(db), params, vh.Logger(), anyHasher{newHash}, note)
	bs := src()
	hashes, prevs := []chainhash.Hash{newHash}, []chainhash.Hash{bs.PrevBlock}
	for i := range pre {
		hashes, prevs = append(hashes, pre[i].Hash), append(prevs, pre[i].Prev)
	}
	vh.Assume(hstore.Acyclic(hashes, prevs))
	if k > 0 {
		vh.Assume(!vh.HashEq(newHash, pre[0].Prev)) // no header hashes to genesis's previous-hash field
	}
	// finding F2: a zero-work header (non-positive target) whose parent is on the longest chain
	parentLongest := false
	for i := range pre {
		parentLongest = vh.Or(parentLongest, vh.And(vh.HashEq(pre[i].Hash, bs.PrevBlock), pre[i].State == hstore.L))
	}
	newWork := domains.CalculateWork(bs.Bits).BigInt()
	vh.Class("F2-zero-work-header-extends-longest-chain", vh.And(vh.BigEq(newWork, big.NewInt(0)), parentLongest))

	h, err := cs.Add(bs)

	post, ok := hstore.Load(db)
	vh.Assert("C01/rows-wellformed", ok)
	if !ok {
		return
	}
	// classification of the submission
	known := false
	for i := range pre {
		known = vh.Or(known, vh.HashEq(pre[i].Hash, newHash))
	}
	isForbidden := false
	for i := range fvals {
		isForbidden = vh.Or(isForbidden, vh.HashEq(fvals[i], newHash))
	}
	vh.Observe("n_post", len(post))
	vh.Observe("err_nil", err == nil)

	// (c) frame: every old row is still there, in place, unchanged except for its state
	vh.Assert("C01/no-row-lost", len(post) >= k)
	if len(post) < k {
		return
	}
	for i := 0; i < k; i++ {
		vh.Assert("C01/frame", hstore.SameButState(pre[i], post[i]))
	}
	// (d) outcome
	if len(post) == k {
		vh.Assert("C01/answered", err != nil)
		vh.Assert("C01/nothing-stored-only-when-known-or-forbidden", vh.Or(known, isForbidden))
		for i := 0; i < k; i++ {
			vh.Assert("C01/rejected-submission-changes-nothing", pre[i].State == post[i].State)
		}
		vh.Assert("C01/no-event-without-store", note.n == 0)
		vh.Reach("not-stored")
		return
	}
	vh.Assert("C01/one-row-appended", len(post) == k+1)
	if len(post) != k+1 {
		return
	}
	vh.Assert("C01/stored-means-acknowledged", vh.And(err == nil, h != nil))
	vh.Assert("C01/known-or-forbidden-never-stored", vh.Not(vh.Or(known, isForbidden)))
	nw := post[k]
	vh.Observe("new_state", nw.State)
	vh.Observe("new_height", nw.Height)
	vh.Assert("C01/new-row-fields", vh.And(vh.HashEq(nw.Hash, newHash), vh.HashEq(nw.Prev, bs.PrevBlock), vh.HashEq(nw.Merkle, bs.MerkleRoot),
		nw.Version == bs.Version, nw.Bits == bs.Bits, nw.Nonce == bs.Nonce, nw.Ts.Unix() == bs.Timestamp.Unix(),
		vh.BigEq(nw.W, newWork)))
	// (b) invariant preserved
	vh.Assert("C01/inv-preserved", hstore.Inv(post, fvals))
	// (e) reported tip is the invariant's tip
	tip, terr := hstore.Repos(db).Headers.GetTip()
	vh.Assert("C01/tip-reported", vh.And(terr == nil, tip != nil))
	if tip != nil {
		for t := range post {
			vh.Assert("C01/tip-is-greatest-work", vh.Implies(hstore.IsTip(post, t), vh.HashEq(tip.Hash, post[t].Hash)))
		}
	}
	vh.Assert("C11/one-event-per-stored", note.n == 1)
	vh.Reach("stored")
	_ = big.NewInt
}
