// Package vhcsv: CSV records as the harness sees them. Symbolically a csv.Writer / csv.Reader /
// *os.File is a list of records; natively real encoding/csv over buffers and temporary files.
package vhcsv

import (
	"bytes"
	"encoding/csv"
	"os"

	"github.com/bitcoin-sv/block-headers-service/internal/zzverif/vh"
)

var buffers = map[*csv.Writer]*bytes.Buffer{}

// NewWriter returns a csv.Writer whose output can be read back with Records.
func NewWriter() *csv.Writer {
	b := &bytes.Buffer{}
	w := csv.NewWriter(b)
	buffers[w] = b
	return w
}

// Records returns what was written to w so far.
func Records(w *csv.Writer) [][]string {
	w.Flush()
	recs, err := csv.NewReader(bytes.NewReader(buffers[w].Bytes())).ReadAll()
	if err != nil {
		panic(vh.Diverged{Why: err.Error()})
	}
	return recs
}

// NewReader returns a csv.Reader delivering the records.
func NewReader(records [][]string) *csv.Reader {
	b := &bytes.Buffer{}
	w := csv.NewWriter(b)
	_ = w.WriteAll(records)
	return csv.NewReader(bytes.NewReader(b.Bytes()))
}

// File returns an open file holding the records as CSV text.
func File(records [][]string) *os.File {
	f, err := os.CreateTemp("", "vhcsv-*.csv")
	if err != nil {
		panic(vh.Diverged{Why: err.Error()})
	}
	w := csv.NewWriter(f)
	_ = w.WriteAll(records)
	w.Flush()
	name := f.Name()
	vh.Cleanup(func() { f.Close(); os.Remove(name) })
	return f
}
