package c12

// Registry lists the harness entry points of this package for native replay.
var Registry = map[string]func([]int64){
	"HarnessNotifyStep": func(a []int64) { HarnessNotifyStep(int(a[0])) },
	"HarnessRegister":   func(a []int64) { HarnessRegister(int(a[0])) },
	"HarnessReport":     func(a []int64) { HarnessReport(int(a[0])) },
	"HarnessHistory":    func(a []int64) { HarnessHistory(int(a[0]), int(a[1])) },
}
