// Package c12: webhooks deactivate at max_tries consecutive failures and reset on success.
package c12

import (
	"errors"
	"io"
	"net/http"

	"github.com/bitcoin-sv/block-headers-service/config"
	"github.com/bitcoin-sv/block-headers-service/internal/zzverif/hstore"
	"github.com/bitcoin-sv/block-headers-service/internal/zzverif/vh"
	"github.com/bitcoin-sv/block-headers-service/internal/zzverif/vhdb"
	"github.com/bitcoin-sv/block-headers-service/notification"
	"github.com/bitcoin-sv/block-headers-service/repository/dto"
	"github.com/jmoiron/sqlx"
)

type call struct {
	headers map[string]string
	method  string
	url     string
}

// outcome of one delivery: 0 = 200, 1 = other status, 2 = transport error, 3 = unreadable body
type client struct {
	calls    []call
	outcomes []int
	statuses []int
	lazy     bool // outcomes are chosen (200 or transport error) when a delivery happens, and recorded
}

type body struct{ fail bool }

func (b *body) Read(p []byte) (int, error) {
	if b.fail {
		return 0, errors.New("unreadable body")
	}
	return 0, io.EOF
}
func (b *body) Close() error { return nil }

func (c *client) Call(headers map[string]string, method string, url string, _ any) (*http.Response, error) {
	i := len(c.calls)
	c.calls = append(c.calls, call{headers: headers, method: method, url: url})
	if i >= len(c.outcomes) && c.lazy {
		c.outcomes = append(c.outcomes, vh.Choose(2)*2)
		c.statuses = append(c.statuses, 500)
	}
	if i >= len(c.outcomes) {
		return nil, errors.New("unexpected delivery")
	}
	switch c.outcomes[i] {
	case 0:
		return &http.Response{StatusCode: 200, Body: &body{}}, nil
	case 1:
		return &http.Response{StatusCode: c.statuses[i], Body: &body{}}, nil
	case 2:
		return nil, errors.New("transport error")
	}
	return &http.Response{StatusCode: 200, Body: &body{fail: true}}, nil
}

type row struct {
	url, header, token string
	errors             int
	active             bool
}

func table(k int) (*sqlx.DB, []row) {
	db := vhdb.NewDB()
	rows := make([]row, k)
	for i := range rows {
		r := row{url: vh.NondetStr("url"), header: vh.NondetStr("header"), token: vh.NondetStr("token"), errors: vh.NondetInt("errors"), active: vh.NondetBool("active")}
		vh.Assume(vh.And(r.errors >= 0, r.errors < 1<<30, !vh.StrEq(r.url, "")))
		// the statement excludes nothing, but a custom header literally named Content-Type collides
		// with the body type the sender sets itself; stated exclusion
		vh.Assume(!vh.StrEq(r.header, "Content-Type"))
		for j := 0; j < i; j++ {
			vh.Assume(!vh.StrEq(r.url, rows[j].url))
		}
		rows[i] = r
		vhdb.InsertWebhookRow(db, dto.DbWebhook{URL: r.url, TokenHeader: r.header, Token: r.token, CreatedAt: vh.NondetTime("created"),
			LastEmitStatus: vh.NondetStr("laststatus"), LastEmitTimestamp: vh.NondetTime("lasttime"), ErrorsCount: r.errors, Active: r.active})
	}
	return db, rows
}

// HarnessNotifyStep: one event delivered to an arbitrary webhooks table with arbitrary per-call outcomes.
func HarnessNotifyStep(k int) {
	db, rows := table(k)
	maxTries := vh.NondetInt("maxTries")
	vh.Assume(vh.And(maxTries >= 1, maxTries < 1<<30))
	cl := &client{}
	for i := 0; i < k; i++ {
		cl.outcomes = append(cl.outcomes, vh.Choose(4))
		st := vh.NondetInt("status")
		vh.Assume(vh.And(st >= 100, st <= 599, st != 200))
		cl.statuses = append(cl.statuses, st)
	}
	svc := notification.NewWebhooksService(hstore.Repos(db).Webhooks, cl, vh.Logger(), &config.WebhookConfig{MaxTries: maxTries})

	svc.Notify("event")

	post := vhdb.WebhookRows(db)
	vh.Assert("C12/no-webhook-row-lost", len(post) == k)
	if len(post) != k {
		return
	}
	// deliveries happen in table order, one per active row
	n := 0
	for i := 0; i < k; i++ {
		r := rows[i]
		if !r.active {
			vh.Assert("C12/inactive-row-untouched", vh.And(post[i].ErrorsCount == r.errors, !post[i].Active))
			continue
		}
		vh.Assert("C12/one-POST-per-active-webhook", len(cl.calls) > n)
		if len(cl.calls) <= n {
			return
		}
		c := cl.calls[n]
		vh.Assert("C12/one-POST-per-active-webhook", vh.And(c.method == "POST", vh.StrEq(c.url, r.url)))
		// exactly the configured authorisation header (none when no header is configured)
		want := 1
		if r.header != "" {
			want = 2
			v, ok := c.headers[r.header]
			vh.Assert("C12/carries-exactly-its-authorisation-header", vh.And(ok, vh.StrEq(v, r.token)))
		}
		vh.Class("F3-no-auth-webhook-sends-empty-header-name", r.header == "")
		vh.Assert("C12/carries-exactly-its-authorisation-header", len(c.headers) == want)
		ok200 := cl.outcomes[n] == 0
		if ok200 {
			vh.Assert("C12/success-resets-count-and-keeps-active", vh.And(post[i].ErrorsCount == 0, post[i].Active))
		} else {
			vh.Class("F1-max-tries-not-restored-first-failure-deactivates", r.errors+1 < maxTries)
			vh.Assert("C12/failure-increments-count", post[i].ErrorsCount == r.errors+1)
			vh.Assert("C12/inactive-exactly-when-count-reaches-max-tries", post[i].Active == (r.errors+1 < maxTries))
		}
		n++
	}
	vh.Assert("C12/inactive-webhooks-are-not-called", len(cl.calls) == n)
	vh.Reach("end")
}

// HarnessRegister: registration, re-registration and deletion against an arbitrary table.
func HarnessRegister(k int) {
	db, rows := table(k)
	maxTries := vh.NondetInt("maxTries")
	vh.Assume(vh.And(maxTries >= 1, maxTries < 1<<30))
	svc := notification.NewWebhooksService(hstore.Repos(db).Webhooks, &client{}, vh.Logger(), &config.WebhookConfig{MaxTries: maxTries})
	url := vh.NondetStr("newurl")
	vh.Assume(!vh.StrEq(url, ""))
	token := vh.NondetStr("newtoken")
	header := vh.NondetStr("newheader")
	mode := vh.Choose(3) // 0 bearer, 1 custom header, 2 none
	authType, wantHeader, wantToken := "bearer", "Authorization", "Bearer "+token
	if mode == 1 {
		authType, wantHeader, wantToken = "custom_header", header, token
	} else if mode == 2 {
		authType, header, token, wantHeader, wantToken = "", "", "", "", ""
	}
	existing, existingActive := false, false
	for i := range rows {
		m := vh.StrEq(rows[i].url, url)
		existing = vh.Or(existing, m)
		existingActive = vh.Or(existingActive, vh.And(m, rows[i].active))
	}

	w, err := svc.CreateWebhook(authType, header, token, url)

	post := vhdb.WebhookRows(db)
	vh.Assert("C12/re-registering-an-active-url-is-refused", vh.Iff(err != nil, existingActive))
	if err != nil {
		vh.Assert("C12/refused-registration-changes-nothing", len(post) == k)
		return
	}
	vh.Assert("C12/registration-returns-active-webhook-with-zero-count", vh.And(w != nil, w.Active, w.ErrorsCount == 0, vh.StrEq(w.URL, url)))
	if existing {
		vh.Assert("C12/inactive-url-is-reactivated-with-zero-count", len(post) == k)
		for i := range post {
			if vh.StrEq(post[i].URL, url) {
				vh.Assert("C12/inactive-url-is-reactivated-with-zero-count", vh.And(post[i].Active, post[i].ErrorsCount == 0))
			}
		}
	} else {
		vh.Assert("C12/new-url-is-stored", len(post) == k+1)
		if len(post) == k+1 {
			nw := post[k]
			vh.Assert("C12/stored-authorisation-is-the-documented-header", vh.And(vh.StrEq(nw.URL, url), vh.StrEq(nw.TokenHeader, wantHeader), vh.StrEq(nw.Token, wantToken), nw.Active, nw.ErrorsCount == 0))
		}
	}
	// deletion removes exactly that row
	derr := svc.DeleteWebhook(url)
	after := vhdb.WebhookRows(db)
	vh.Assert("C12/delete-removes-exactly-that-webhook", vh.And(derr == nil, len(after) == len(post)-1))
	for i := range after {
		vh.Assert("C12/delete-removes-exactly-that-webhook", !vh.StrEq(after[i].URL, url))
	}
	vh.Reach("end")
}

// HarnessReport: the query endpoint's service call reports the stored state of a webhook.
func HarnessReport(k int) {
	db, rows := table(k)
	svc := notification.NewWebhooksService(hstore.Repos(db).Webhooks, &client{}, vh.Logger(), &config.WebhookConfig{MaxTries: 3})
	stored := vhdb.WebhookRows(db)
	i := vh.Choose(k)
	w, err := svc.GetWebhookByURL(rows[i].url)
	vh.Assert("C12/stored-webhook-is-found", vh.And(err == nil, w != nil))
	if w != nil {
		vh.Assert("C12/report-active-flag-and-error-count", vh.And(w.Active == stored[i].Active, w.ErrorsCount == stored[i].ErrorsCount, vh.StrEq(w.URL, stored[i].URL)))
		vh.Assert("C12/report-time-and-status-of-last-attempt", vh.And(vh.StrEq(w.LastEmitStatus, stored[i].LastEmitStatus), w.LastEmitTimestamp.Unix() == stored[i].LastEmitTimestamp.Unix()))
	}
	unknown := vh.NondetStr("unknown")
	for j := range rows {
		vh.Assume(!vh.StrEq(unknown, rows[j].url))
	}
	_, uerr := svc.GetWebhookByURL(unknown)
	vh.Assert("C12/unknown-webhook-is-an-error", uerr != nil)
	vh.Reach("end")
}

// HarnessHistory: the service keeps no state of its own between operations. After an arbitrary
// history of n operations (an event with arbitrary outcomes / registration or re-registration of a
// stored or new url / deletion of a stored url) on one long-lived service, one further event is
// delivered (a) by that service and (b) by a service freshly assembled over a copy of the store
// (a restart): the same targets receive the same requests and the stores end up equal. Together
// with the single-step harnesses (which start from an arbitrary store) this extends them to histories.
func HarnessHistory(k int, n int) {
	db, rows := table(k)
	maxTries := vh.NondetInt("maxTries")
	vh.Assume(vh.And(maxTries >= 1, maxTries < 1<<30))
	cfg := &config.WebhookConfig{MaxTries: maxTries}
	cl := &client{}
	svc := notification.NewWebhooksService(hstore.Repos(db).Webhooks, cl, vh.Logger(), cfg)
	fresh := vh.NondetStr("newurl")
	vh.Assume(!vh.StrEq(fresh, ""))
	for i := range rows {
		vh.Assume(!vh.StrEq(fresh, rows[i].url))
	}
	cl.lazy = true
	outcomes := func(int) { cl.calls, cl.outcomes, cl.statuses = nil, nil, nil }
	for step := 0; step < n; step++ {
		switch vh.Choose(3) {
		case 0:
			outcomes(k + 1)
			svc.Notify("event")
		case 1:
			url := fresh
			if c := vh.Choose(k + 1); c < k {
				url = rows[c].url
			}
			_, _ = svc.CreateWebhook("bearer", "", vh.NondetStr("token"), url)
		case 2:
			_ = svc.DeleteWebhook(rows[vh.Choose(k)].url)
		}
	}
	// the store as it is now, copied for the restarted service
	now := vhdb.WebhookRows(db)
	db2 := vhdb.NewDB()
	for _, r := range now {
		vhdb.InsertWebhookRow(db2, r)
	}
	outcomes(k + 1)
	svc2cl := &client{lazy: true}
	svc2 := notification.NewWebhooksService(hstore.Repos(db2).Webhooks, svc2cl, vh.Logger(), cfg)

	// the restarted service first (its deliveries choose the outcomes), then the long-lived one with the same outcomes
	svc2.Notify("final")
	cl2 := svc2cl
	cl.lazy, cl.outcomes, cl.statuses = false, cl2.outcomes, cl2.statuses
	svc.Notify("final")

	vh.Observe("deliveries", len(cl2.calls))
	vh.Assert("C12/history-leaves-no-state-outside-the-store", len(cl.calls) == len(cl2.calls))
	if len(cl.calls) != len(cl2.calls) {
		return
	}
	for i := range cl.calls {
		a, b := cl.calls[i], cl2.calls[i]
		same := vh.And(a.method == b.method, vh.StrEq(a.url, b.url), len(a.headers) == len(b.headers))
		for h, v := range b.headers {
			w, ok := a.headers[h]
			same = vh.And(same, ok, vh.StrEq(v, w))
		}
		vh.Assert("C12/history-leaves-no-state-outside-the-store", same)
	}
	p1, p2 := vhdb.WebhookRows(db), vhdb.WebhookRows(db2)
	vh.Assert("C12/history-leaves-no-state-outside-the-store", len(p1) == len(p2))
	if len(p1) == len(p2) {
		for i := range p1 {
			vh.Assert("C12/history-leaves-no-state-outside-the-store", vh.And(vh.StrEq(p1[i].URL, p2[i].URL), p1[i].Active == p2[i].Active, p1[i].ErrorsCount == p2[i].ErrorsCount,
				vh.StrEq(p1[i].LastEmitStatus, p2[i].LastEmitStatus), vh.StrEq(p1[i].TokenHeader, p2[i].TokenHeader), vh.StrEq(p1[i].Token, p2[i].Token)))
		}
	}
	vh.Reach("end")
}
