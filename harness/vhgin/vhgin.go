// Package vhgin is the HTTP part of the harness API: requests are served by the route table
// that the working tree registers. Symbolically the executor records routes (gin's own
// RouterGroup code runs from source, Engine.addRoute is intercepted) and runs handler chains
// over a modelled gin.Context; natively the same calls go through a real gin engine and net/http.
package vhgin

import (
	"bytes"
	"encoding/json"
	"io"
	"net/http"
	"net/http/httptest"
	"net/url"
	"reflect"
	"sort"
	"strings"

	"github.com/bitcoin-sv/block-headers-service/internal/zzverif/vh"
	"github.com/gin-gonic/gin"
)

// Route is one entry of the routing table.
type Route struct {
	Method string
	Path   string // full pattern, e.g. /api/v1/chain/header/:hash
}

// Req is a request to a route pattern.
type Req struct {
	Params    map[string]string // path parameters by name
	Query     map[string]string // query values that are present
	Headers   map[string]string
	Body      any  // value that the handler's Bind/BindJSON target receives (must be of its type); nil = no body
	BindFails bool // the body cannot be bound (malformed JSON / wrong JSON types)
}

// Resp is what was written.
type Resp struct {
	Status    int    // status line of the response
	Documents int    // number of JSON documents written to the body
	Aborted   bool   // the chain was aborted (symbolic only; natively unknown = false)
	Panicked  bool   // a handler panicked (gin.Recovery answers 500)
	ErrCode   string // "code" of the last document when it is an error object
	ErrMsg    string // "message" of the last document when it is an error object
	Opaque    bool   // the final handler is a wrapped net/http handler (swagger, pprof, metrics)
	Body      any    // what was written: natively the body text, symbolically the documents handed to c.JSON
}

// SameAnswer: two responses have the same status and the same body.
func SameAnswer(a, b Resp) bool {
	as, _ := a.Body.(string)
	bs, _ := b.Body.(string)
	return a.Status == b.Status && as == bs
}

// BodyIs: the response body is exactly one JSON document, the encoding of want (natively compared
// as JSON values; symbolically the value handed to c.JSON is compared with want).
func BodyIs(r Resp, want any) bool {
	text, _ := r.Body.(string)
	var got, exp any
	if err := json.Unmarshal([]byte(text), &got); err != nil {
		return false
	}
	b, err := json.Marshal(want)
	if err != nil {
		return false
	}
	if err := json.Unmarshal(b, &exp); err != nil {
		return false
	}
	return r.Documents == 1 && reflect.DeepEqual(got, exp)
}

// NewEngine returns an engine without routes.
func NewEngine() *gin.Engine {
	gin.SetMode(gin.ReleaseMode)
	e := gin.New()
	e.Use(gin.CustomRecoveryWithWriter(io.Discard, func(c *gin.Context, _ any) {
		c.Header("X-Vh-Panicked", "1")
		c.AbortWithStatus(http.StatusInternalServerError)
	}))
	return e
}

// Routes lists the routing table, sorted.
func Routes(e *gin.Engine) []Route {
	var out []Route
	for _, r := range e.Routes() {
		out = append(out, Route{Method: r.Method, Path: r.Path})
	}
	sort.Slice(out, func(i, j int) bool {
		if out[i].Path != out[j].Path {
			return out[i].Path < out[j].Path
		}
		return out[i].Method < out[j].Method
	})
	return out
}

// Serve sends req to the route (method, pattern).
func Serve(e *gin.Engine, method, pattern string, req Req) Resp {
	p := pattern
	for k, v := range req.Params {
		p = strings.ReplaceAll(p, ":"+k, url.PathEscape(v))
		p = strings.ReplaceAll(p, "*"+k, url.PathEscape(v))
	}
	for _, seg := range strings.Split(p, "/") {
		if strings.HasPrefix(seg, ":") || strings.HasPrefix(seg, "*") {
			panic(vh.Diverged{Why: "path parameter not supplied: " + seg})
		}
	}
	for _, v := range req.Params {
		if v == "" || strings.Contains(v, "/") {
			// an empty or slash-containing segment addresses a different route in a real router
			panic(vh.Diverged{Why: "path parameter does not address this route"})
		}
	}
	if len(req.Query) > 0 {
		q := url.Values{}
		for k, v := range req.Query {
			q.Set(k, v)
		}
		p += "?" + q.Encode()
	}
	var body io.Reader
	if req.BindFails {
		body = strings.NewReader("{\"unterminated")
	} else if req.Body != nil {
		b, err := json.Marshal(req.Body)
		if err != nil {
			panic(vh.Diverged{Why: err.Error()})
		}
		body = bytes.NewReader(b)
	}
	hr := httptest.NewRequest(method, p, body)
	if body != nil {
		hr.Header.Set("Content-Type", "application/json")
	}
	for k, v := range req.Headers {
		if v != "" {
			hr.Header.Set(k, v)
		}
	}
	w := httptest.NewRecorder()
	e.ServeHTTP(w, hr)
	resp := Resp{Status: w.Code, Panicked: w.Header().Get("X-Vh-Panicked") == "1", Body: w.Body.String()}
	dec := json.NewDecoder(bytes.NewReader(w.Body.Bytes()))
	for {
		var doc any
		if err := dec.Decode(&doc); err != nil {
			break
		}
		resp.Documents++
		resp.ErrCode, resp.ErrMsg = "", ""
		if m, ok := doc.(map[string]any); ok {
			if c, ok := m["code"].(string); ok {
				resp.ErrCode = c
			}
			if c, ok := m["message"].(string); ok {
				resp.ErrMsg = c
			}
		}
	}
	return resp
}
