// Package c11: exactly one ADD event per stored header on every notification channel.
package c11

import (
	"errors"

	"github.com/bitcoin-sv/block-headers-service/config"
	"github.com/bitcoin-sv/block-headers-service/domains"
	"github.com/bitcoin-sv/block-headers-service/internal/chaincfg"
	"github.com/bitcoin-sv/block-headers-service/internal/chaincfg/chainhash"
	"github.com/bitcoin-sv/block-headers-service/internal/zzverif/hstore"
	"github.com/bitcoin-sv/block-headers-service/internal/zzverif/vh"
	"github.com/bitcoin-sv/block-headers-service/internal/zzverif/vhdb"
	"github.com/bitcoin-sv/block-headers-service/notification"
	"github.com/bitcoin-sv/block-headers-service/service"
	"github.com/centrifugal/centrifuge"
)

type fixedHasher struct{ h chainhash.Hash }

func (a fixedHasher) BlockHash(*domains.BlockHeaderSource) domains.BlockHash { return domains.BlockHash(a.h) }

// recChannel records what it is asked to deliver; a blocking channel never returns from Notify.
type recChannel struct {
	entered int
	last    any
	block   chan struct{} // nil: returns at once; non-nil and empty: blocks forever
}

func (c *recChannel) Notify(e notification.Event) {
	c.entered++
	c.last = e
	if c.block != nil {
		<-c.block
	}
}

var BitsMenu = []uint32{0x1d00ffff, 0x207fffff}

// HarnessEvents: one Add from an arbitrary INV-H store - stored, duplicate, forbidden or failing to
// store (the j-th write fails) - with three channels of which the middle one blocks forever.
func HarnessEvents(k int) {
	pre := make([]hstore.H, k)
	for i := range pre {
		pre[i] = hstore.NondetH()
	}
	forbidden := vh.NondetHash("forbidden")
	vh.Assume(hstore.Inv(pre, []chainhash.Hash{forbidden}))
	vh.Assume(hstore.PositiveWork(pre))
	newHash := vh.NondetHash("newhash")
	bs := domains.BlockHeaderSource{Version: vh.NondetI32("sversion"), PrevBlock: vh.NondetHash("sprev"), MerkleRoot: vh.NondetHash("smerkle"),
		Timestamp: vh.NondetTime("sts"), Bits: BitsMenu[vh.Choose(len(BitsMenu))], Nonce: vh.NondetU32("snonce")}
	hashes, prevs := []chainhash.Hash{newHash}, []chainhash.Hash{bs.PrevBlock}
	for i := range pre {
		hashes, prevs = append(hashes, pre[i].Hash), append(prevs, pre[i].Prev)
	}
	vh.Assume(hstore.Acyclic(hashes, prevs))
	vh.Assume(!vh.HashEq(newHash, pre[0].Prev))
	db := hstore.Store(pre)
	a, b, c := &recChannel{}, &recChannel{block: make(chan struct{})}, &recChannel{}
	notifier := notification.NewNotifier()
	notifier.AddChannel(a)
	notifier.AddChannel(b)
	notifier.AddChannel(c)
	cs := service.NewChainsService(hstore.Repos(db), &chaincfg.Params{HeadersToIgnore: []*chainhash.Hash{&forbidden}}, vh.Logger(), fixedHasher{newHash}, notifier)
	if j := vh.Choose(4); j > 0 {
		vhdb.FailCommit(db, j) // the j-th write transaction fails
	}

	var h *domains.BlockHeader
	var err error
	vh.MustNotBlock("C11/slow-channel-does-not-block-ingestion", func() { h, err = cs.Add(bs) })
	vh.Settle()

	post, ok := hstore.Load(db)
	vh.Assume(ok)
	stored := len(post) == k+1
	vh.Observe("stored", stored)
	vh.Observe("err_nil", err == nil)
	vh.Assert("C11/reported-stored-iff-stored", (err == nil) == stored)
	want := 0
	if stored {
		want = 1
	}
	vh.Assert("C11/exactly-one-event-per-stored-header-on-every-channel", a.entered == want && b.entered == want && c.entered == want)
	if stored && a.entered == 1 && c.entered == 1 && h != nil {
		row := post[k]
		for _, ch := range []*recChannel{a, b, c} {
			ev, isEv := ch.last.(*domains.HeaderEvent)
			vh.Assert("C11/event-is-an-ADD-event", isEv && ev != nil && ev.Header != nil)
			if isEv && ev != nil && ev.Header != nil {
				d := ev.Header
				vh.Assert("C11/event-is-an-ADD-event", vh.StrEq(string(ev.Operation), "ADD"))
				vh.Assert("C11/event-fields-equal-stored-header", vh.And(vh.StrEq(d.Hash, row.Hash.String()), d.Height == row.Height, d.Version == row.Version,
					vh.StrEq(d.MerkleRoot, row.Merkle.String()), d.Timestamp.Unix() == row.Ts.Unix(), d.Nonce == row.Nonce,
					vh.StrEq(string(d.State), hstore.StateName(row.State)), vh.BigEq(d.CumulatedWork, row.CW), vh.StrEq(d.PreviousBlock, row.Prev.String())))
			}
		}
	}
	vh.Reach("end")
}

type recPublisher struct {
	calls   int
	channel string
	data    []byte
	fail    bool
}

func (p *recPublisher) Publish(channel string, data []byte, _ ...centrifuge.PublishOption) (centrifuge.PublishResult, error) {
	p.calls++
	p.channel, p.data = channel, data
	if p.fail {
		return centrifuge.PublishResult{}, errors.New("publish failed")
	}
	return centrifuge.PublishResult{}, nil
}

// HarnessWebsocketChannel: the websocket channel publishes every event exactly once, to channel
// "headers", as the JSON encoding of that event; a failing publish is swallowed.
func HarnessWebsocketChannel() {
	pub := &recPublisher{fail: vh.NondetBool("publishFails")}
	ch := notification.NewWebsocketChannel(vh.Logger(), pub, &config.WebsocketConfig{HistoryMax: vh.NondetInt("historyMax"), HistoryTTL: vh.NondetInt("historyTTL")})
	h := &domains.BlockHeader{Height: vh.NondetI32("height"), Hash: vh.NondetHash("hash"), Version: vh.NondetI32("version"), MerkleRoot: vh.NondetHash("merkle"),
		Timestamp: vh.NondetTime("ts"), Nonce: vh.NondetU32("nonce"), State: domains.LongestChain, CumulatedWork: vh.NondetBig("cw"), PreviousBlock: vh.NondetHash("prev")}
	ev := domains.HeaderAdded(h)
	ch.Notify(ev)
	vh.Assert("C11/websocket-publishes-once-to-headers", pub.calls == 1 && pub.channel == "headers")
	vh.Assert("C11/websocket-payload-is-the-event", vh.IsJSONOf(pub.data, ev))
	vh.Reach("end")
}
