package c11

// Registry lists the harness entry points of this package for native replay.
var Registry = map[string]func([]int64){
	"HarnessEvents":           func(a []int64) { HarnessEvents(int(a[0])) },
	"HarnessWebsocketChannel": func([]int64) { HarnessWebsocketChannel() },
}
