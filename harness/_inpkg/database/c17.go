package database

import (
	"math/big"

	"github.com/bitcoin-sv/block-headers-service/config"
	"github.com/bitcoin-sv/block-headers-service/internal/chaincfg"
	dbsql "github.com/bitcoin-sv/block-headers-service/database/sql"
	"github.com/bitcoin-sv/block-headers-service/domains"
	"github.com/bitcoin-sv/block-headers-service/internal/chaincfg/chainhash"
	"github.com/bitcoin-sv/block-headers-service/internal/zzverif/hstore"
	"github.com/bitcoin-sv/block-headers-service/internal/zzverif/vh"
	"github.com/bitcoin-sv/block-headers-service/internal/zzverif/vhcsv"
	"github.com/bitcoin-sv/block-headers-service/internal/zzverif/vhdb"
	"github.com/bitcoin-sv/block-headers-service/service"
)

var c17Bits = []uint32{0x1d00ffff, 0x207fffff}

// c17Store: an arbitrary store whose longest chain consists of real headers, built constructively
// (hashes are COMPUTED from the fields, so that natively they are real double-SHA-256 values):
// genesis with a zero previous hash, every further longest-chain row linked to the previous one,
// own work = work of its bits, cumulative work accumulated; stale and orphan rows are arbitrary
// (except for their difficulty bits, taken from the same menu) and sit at arbitrary positions. INV-H is then assumed of the whole table (it constrains the
// arbitrary rows and rules out hash collisions).
func c17Store(k int) []hstore.H {
	pre := make([]hstore.H, k)
	last := -1
	for i := range pre {
		pre[i] = hstore.NondetH()
		if i > 0 && !vh.NondetBool("onLongestChain") {
			vh.Assume(pre[i].State != hstore.L)
			// difficulty bits from the menu as well: should such a row ever reach the import, its
			// work is computed from them (an arbitrary symbolic value makes that a symbolic division)
			pre[i].Bits = c17Bits[vh.Choose(len(c17Bits))]
			// its parent: one of the earlier rows, or unknown
			if p := vh.Choose(i + 1); p < i {
				pre[i].Prev = pre[p].Hash
			} else {
				for j := 0; j < i; j++ {
					vh.Assume(!vh.HashEq(pre[i].Prev, pre[j].Hash))
				}
			}
			continue
		}
		h := &pre[i]
		h.State = hstore.L
		h.Bits = c17Bits[vh.Choose(len(c17Bits))]
		h.W = domains.CalculateWork(h.Bits).BigInt()
		if last < 0 {
			h.Prev, h.Height, h.CW = chainhash.Hash{}, 0, h.W
		} else {
			h.Prev, h.Height, h.CW = pre[last].Hash, pre[last].Height+1, new(big.Int).Add(pre[last].CW, h.W)
		}
		src := domains.BlockHeaderSource{Version: h.Version, PrevBlock: h.Prev, MerkleRoot: h.Merkle, Timestamp: h.Ts, Bits: h.Bits, Nonce: h.Nonce}
		h.Hash = chainhash.Hash(service.DefaultBlockHasher().BlockHash(&src))
		last = i
	}
	vh.Assume(hstore.Inv(pre, nil))
	return pre
}

// longestByHeight returns the longest-chain rows in ascending height (heights 0..n-1 by INV-H).
func longestAt(pre []hstore.H, h int32) (hstore.H, bool) {
	found := false
	var out hstore.H
	for i := range pre {
		if vh.Concretely(vh.And(pre[i].State == hstore.L, pre[i].Height == h)) {
			out, found = pre[i], true
		}
	}
	return out, found
}

func compareImported(pre []hstore.H, got []hstore.H) {
	n := 0
	for {
		want, ok := longestAt(pre, int32(n))
		if !ok {
			break
		}
		vh.Assert("C17/imported-chain-has-every-exported-height", len(got) > n)
		if len(got) <= n {
			return
		}
		g := got[n]
		vh.Assert("C17/same-hash-at-same-height", vh.And(g.Height == int32(n), vh.HashEq(g.Hash, want.Hash)))
		vh.Assert("C17/same-fields", vh.And(vh.HashEq(g.Prev, want.Prev), vh.HashEq(g.Merkle, want.Merkle), g.Version == want.Version, g.Bits == want.Bits,
			g.Nonce == want.Nonce, g.Ts.Unix() == want.Ts.Unix(), vh.BigEq(g.W, want.W)))
		vh.Assert("C17/same-cumulative-work", vh.BigEq(g.CW, want.CW))
		vh.Assert("C17/all-on-the-longest-chain", g.State == hstore.L)
		n++
	}
	vh.Assert("C17/stale-and-orphan-headers-left-out", len(got) == n)
}

func export(pre []hstore.H) [][]string {
	db := hstore.Store(pre)
	rows, err := queryDatabaseTable(db, vh.Logger())
	vh.Assert("C17/export-query-succeeds", err == nil)
	w := vhcsv.NewWriter()
	vh.Assert("C17/export-writes", writeColumnNamesToCsvFile(rows, w) == nil && writeRowsToCsvFile(rows, w) == nil)
	return vhcsv.Records(w)
}

// HarnessRoundTrip (C17): export of an arbitrary store, then the real SQLite import of the
// produced records into an empty database, reproduces the exported longest chain.
func HarnessRoundTrip(k int) {
	pre := c17Store(k)
	recs := export(pre)
	vh.Observe("records", len(recs))
	db2 := vhdb.NewDB()
	a := &sqLiteAdapter{db: db2}
	n, err := a.importHeaders(vhcsv.File(recs), vh.Logger())
	vh.Assert("C17/import-succeeds", err == nil)
	got, ok := hstore.Load(db2)
	vh.Assert("C17/imported-rows-wellformed", ok)
	if !ok {
		return
	}
	vh.Assert("C17/import-count-reported", n == len(got))
	compareImported(pre, got)
	vh.Reach("end")
}

// HarnessBatches (C17): the same records imported batch by batch (batch size 1) through
// insertHeaders, threading row index, previous hash and cumulative work the way importHeaders
// does, give the same table: batch boundaries are irrelevant.
func HarnessBatches(k int) {
	pre := c17Store(k)
	recs := export(pre)
	if len(recs) < 1 {
		return
	}
	db2 := vhdb.NewDB()
	a := &sqLiteAdapter{db: db2}
	repo := dbsql.NewHeadersDb(db2, vh.Logger())
	reader := vhcsv.NewReader(recs[1:]) // the column header line is skipped by importHeaders
	prevHash := chainhash.Hash{}.String()
	cum := ""
	rowIndex, guard := 0, 0
	for i := 0; i <= k+1; i++ {
		var err error
		rowIndex, prevHash, cum, err = a.insertHeaders(reader, repo, 1, prevHash, cum, rowIndex)
		vh.Assert("C17/batch-import-succeeds", err == nil)
		if guard == rowIndex {
			break
		}
		guard = rowIndex
	}
	got, ok := hstore.Load(db2)
	vh.Assert("C17/imported-rows-wellformed", ok)
	if !ok {
		return
	}
	compareImported(pre, got)
	_ = big.NewInt
	vh.Reach("end")
}

// HarnessRealBatches (C17): HarnessRoundTrip with the REAL batch loop of importHeaders crossing
// batch boundaries: the verification overlay turns the constant sqliteBatchSize (500) into a
// variable, set to b here, so that k rows span several batches.
func HarnessRealBatches(k int, b int) {
	if !setBatchSize(b) {
		vh.Assume(false) // the declaration was not found in the current source: nothing is claimed
		return
	}
	defer setBatchSize(500)
	pre := c17Store(k)
	recs := export(pre)
	db2 := vhdb.NewDB()
	a := &sqLiteAdapter{db: db2}
	n, err := a.importHeaders(vhcsv.File(recs), vh.Logger())
	vh.Assert("C17/import-succeeds", err == nil)
	got, ok := hstore.Load(db2)
	vh.Assert("C17/imported-rows-wellformed", ok)
	if !ok {
		return
	}
	vh.Assert("C17/import-count-reported", n == len(got))
	compareImported(pre, got)
	vh.Reach("end")
}

// HarnessSecondStart (C17): a start on a database that already holds headers never imports
// (nothing is overwritten) - and therefore accepts whatever a refused import left behind.
func HarnessSecondStart(k int) {
	pre := make([]hstore.H, k)
	for i := range pre {
		pre[i] = hstore.NondetH()
	}
	// arbitrary leftover rows: distinct hashes is all a table guarantees
	for i := range pre {
		vh.Assume(vh.And(pre[i].State <= hstore.O, vh.BigLe(big.NewInt(0), pre[i].W), vh.BigLe(big.NewInt(0), pre[i].CW)))
		for j := 0; j < i; j++ {
			vh.Assume(!vh.HashEq(pre[i].Hash, pre[j].Hash))
		}
	}
	db := hstore.Store(pre)
	// the newest checkpoint of the network: an arbitrary hash at a small height
	cpHash := vh.NondetHash("checkpoint")
	config.Checkpoints = []chaincfg.Checkpoint{{Height: int32(vh.Choose(k + 1)), Hash: &cpHash}}
	consistent := validateDbConsistency(k, dbsql.NewHeadersDb(db, vh.Logger()), db) == nil
	vh.Observe("consistent", consistent)
	err := importHeaders(&sqLiteAdapter{db: db}, nil, vh.Logger())
	post, ok := hstore.Load(db)
	vh.Assert("C17/existing-headers-never-overwritten", vh.And(ok, len(post) == k))
	if ok && len(post) == k {
		for i := range pre {
			vh.Assert("C17/existing-headers-never-overwritten", vh.And(hstore.SameButState(pre[i], post[i]), pre[i].State == post[i].State))
		}
	}
	vh.Class("F1-leftover-of-a-refused-import-is-accepted-by-the-next-start", !consistent)
	vh.Assert("C17/start-on-inconsistent-leftover-is-refused", vh.Implies(!consistent, err != nil))
	vh.Reach("end")
}

// HarnessRestart (C05): what every start does besides opening the file - inserting the genesis
// header - leaves a non-empty store exactly as it was (every row, every state), whatever an
// interrupted ingestion left behind; on an empty store it creates exactly the genesis row.
func HarnessRestart(k int) {
	cfg := &config.AppConfig{P2P: &config.P2PConfig{ChainNetType: config.MainNet}}
	g := createGenesisHeaderBlock(cfg.P2P.GetNetParams().GenesisBlock.Header)
	gh, gok := hstore.FromRow(g)
	vh.Assert("C05/genesis-row-wellformed", gok)
	if !gok {
		return
	}
	pre := make([]hstore.H, k)
	for i := range pre {
		if i == 0 {
			pre[i] = gh
		} else {
			pre[i] = hstore.NondetH()
		}
	}
	db := vhdb.NewDB()
	if k > 0 {
		// arbitrary rows after genesis: only what the table itself guarantees (distinct hashes)
		for i := range pre {
			for j := 0; j < i; j++ {
				vh.Assume(!vh.HashEq(pre[i].Hash, pre[j].Hash))
			}
			vh.Assume(vh.And(pre[i].State <= hstore.O, vh.BigLe(big.NewInt(0), pre[i].W), vh.BigLe(big.NewInt(0), pre[i].CW)))
			vhdb.InsertHeaderRow(db, pre[i].Row())
		}
	}
	err := insertGenesisBlock(&sqLiteAdapter{db: db}, cfg, vh.Logger())
	vh.Assert("C05/restart-succeeds", err == nil)
	post, ok := hstore.Load(db)
	vh.Assert("C05/rows-wellformed-after-restart", ok)
	if !ok {
		return
	}
	if k == 0 {
		vh.Assert("C05/empty-store-gets-exactly-genesis", len(post) == 1 && hstore.SameButState(post[0], gh) && post[0].State == hstore.L && post[0].Height == 0 && vh.BigEq(post[0].CW, post[0].W))
		vh.Reach("created")
		return
	}
	vh.Assert("C05/restart-changes-nothing", len(post) == k)
	if len(post) == k {
		for i := range pre {
			vh.Assert("C05/restart-changes-nothing", vh.And(hstore.SameButState(pre[i], post[i]), pre[i].State == post[i].State))
		}
	}
	vh.Reach("unchanged")
}

// HarnessInitRestart (C05): the whole start-up sequence of the service, database.Init, run on a
// database file that an earlier run (possibly interrupted in the middle of an ingestion) left
// behind: it succeeds and leaves every row as it was. Whatever a start does - today: connect,
// migrations, genesis insertion - is executed from the current source; only opening the file and
// the migration library are stubbed (the schema is in place).
func HarnessInitRestart(k int) {
	cfg := &config.AppConfig{
		Db:  &config.DbConfig{Engine: config.DBSQLite, SchemaPath: vhdb.MigrationsDir(), SQLite: config.SQLiteConfig{FilePath: vhdb.TempPath()}},
		P2P: &config.P2PConfig{ChainNetType: config.MainNet},
	}
	log := vh.Logger()
	// the first start
	db, err := Init(cfg, log)
	vh.Assert("C05/first-start-succeeds", err == nil && db != nil)
	if err != nil || db == nil {
		return
	}
	first, ok := hstore.Load(db)
	vh.Assert("C05/first-start-creates-exactly-genesis", ok && len(first) == 1 && first[0].Height == 0 && first[0].State == hstore.L)
	if !ok || len(first) != 1 {
		return
	}
	// what an ingestion history, possibly cut off in the middle of a reorganisation, left behind:
	// arbitrary further rows (the table guarantees distinct hashes, nothing else)
	pre := []hstore.H{first[0]}
	for i := 1; i < k; i++ {
		h := hstore.NondetH()
		for j := range pre {
			vh.Assume(!vh.HashEq(h.Hash, pre[j].Hash))
		}
		vh.Assume(vh.And(h.State <= hstore.O, h.Height >= 1, h.Height < hstore.MaxHeight, vh.BigLe(big.NewInt(0), h.W), vh.BigLe(big.NewInt(0), h.CW)))
		vhdb.InsertHeaderRow(db, h.Row())
		pre = append(pre, h)
	}
	_ = db.Close()

	// restart
	db2, err2 := Init(cfg, log)
	vh.Assert("C05/restart-succeeds", err2 == nil && db2 != nil)
	if err2 != nil || db2 == nil {
		return
	}
	post, ok2 := hstore.Load(db2)
	vh.Assert("C05/restart-changes-nothing", ok2 && len(post) == len(pre))
	if ok2 && len(post) == len(pre) {
		for i := range pre {
			vh.Assert("C05/restart-changes-nothing", vh.And(hstore.SameButState(pre[i], post[i]), pre[i].State == post[i].State))
		}
	}
	_ = db2.Close()
	vh.Reach("end")
}
