package database

import (
	"math/big"

	"github.com/bitcoin-sv/block-headers-service/config"
	"github.com/bitcoin-sv/block-headers-service/domains"
	"github.com/bitcoin-sv/block-headers-service/internal/chaincfg"
	"github.com/bitcoin-sv/block-headers-service/internal/chaincfg/chainhash"
	"github.com/bitcoin-sv/block-headers-service/internal/zzverif/hstore"
	"github.com/bitcoin-sv/block-headers-service/internal/zzverif/vh"
	"github.com/bitcoin-sv/block-headers-service/internal/zzverif/vhdb"
	"github.com/bitcoin-sv/block-headers-service/service"
)

var c17Bits = []uint32{0x1d00ffff, 0x207fffff}

// c17Store: an arbitrary store whose longest chain consists of real headers, built constructively
// (hashes are COMPUTED from the fields, so that natively they are real double-SHA-256 values):
// genesis with a zero previous hash, every further longest-chain row linked to the previous one,
// own work = work of its bits, cumulative work accumulated; stale and orphan rows are arbitrary
// (except for their difficulty bits, taken from the same menu) and sit at arbitrary positions. INV-H is then assumed of the whole table (it constrains the
// arbitrary rows and rules out hash collisions).
func c17Store(k int) []hstore.H {
	pre := make([]hstore.H, k)
	last := -1
	for i := range pre {
		pre[i] = hstore.NondetH()
		if i > 0 && !vh.NondetBool("onLongestChain") {
			vh.Assume(pre[i].State != hstore.L)
			// difficulty bits from the menu as well: should such a row ever reach the import, its
			// work is computed from them (an arbitrary symbolic value makes that a symbolic division)
			pre[i].Bits = c17Bits[vh.Choose(len(c17Bits))]
			// its parent: one of the earlier rows, or unknown
			if p := vh.Choose(i + 1); p < i {
				pre[i].Prev = pre[p].Hash
			} else {
				for j := 0; j < i; j++ {
					vh.Assume(!vh.HashEq(pre[i].Prev, pre[j].Hash))
				}
			}
			continue
		}
		h := &pre[i]
		h.State = hstore.L
		h.Bits = c17Bits[vh.Choose(len(c17Bits))]
		h.W = domains.CalculateWork(h.Bits).BigInt()
		if last < 0 {
			h.Prev, h.Height, h.CW = chainhash.Hash{}, 0, h.W
		} else {
			h.Prev, h.Height, h.CW = pre[last].Hash, pre[last].Height+1, new(big.Int).Add(pre[last].CW, h.W)
		}
		src := domains.BlockHeaderSource{Version: h.Version, PrevBlock: h.Prev, MerkleRoot: h.Merkle, Timestamp: h.Ts, Bits: h.Bits, Nonce: h.Nonce}
		h.Hash = chainhash.Hash(service.DefaultBlockHasher().BlockHash(&src))
		last = i
	}
	vh.Assume(hstore.Inv(pre, nil))
	return pre
}

// longestByHeight returns the longest-chain rows in ascending height (heights 0..n-1 by INV-H).
func longestAt(pre []hstore.H, h int32) (hstore.H, bool) {
	found := false
	var out hstore.H
	for i := range pre {
		if vh.Concretely(vh.And(pre[i].State == hstore.L, pre[i].Height == h)) {
			out, found = pre[i], true
		}
	}
	return out, found
}

func compareImported(pre []hstore.H, got []hstore.H) {
	n := 0
	for {
		want, ok := longestAt(pre, int32(n))
		if !ok {
			break
		}
		vh.Assert("C17/imported-chain-has-every-exported-height", len(got) > n)
		if len(got) <= n {
			return
		}
		g := got[n]
		vh.Assert("C17/same-hash-at-same-height", vh.And(g.Height == int32(n), vh.HashEq(g.Hash, want.Hash)))
		vh.Assert("C17/same-fields", vh.And(vh.HashEq(g.Prev, want.Prev), vh.HashEq(g.Merkle, want.Merkle), g.Version == want.Version, g.Bits == want.Bits,
			g.Nonce == want.Nonce, g.Ts.Unix() == want.Ts.Unix(), vh.BigEq(g.W, want.W)))
		vh.Assert("C17/same-cumulative-work", vh.BigEq(g.CW, want.CW))
		vh.Assert("C17/all-on-the-longest-chain", g.State == hstore.L)
		n++
	}
	vh.Assert("C17/stale-and-orphan-headers-left-out", len(got) == n)
}

// HarnessInitRestart (C05): the whole start-up sequence of the service, database.Init, run on a
// database file that an earlier run (possibly interrupted in the middle of an ingestion) left
// behind: it succeeds and leaves every row as it was. Whatever a start does - today: connect,
// migrations, genesis insertion - is executed from the current source; only opening the file and
// the migration library are stubbed (the schema is in place).
func HarnessInitRestart(k int) {
	cfg := &config.AppConfig{
		Db:  &config.DbConfig{Engine: config.DBSQLite, SchemaPath: vhdb.MigrationsDir(), SQLite: config.SQLiteConfig{FilePath: vhdb.TempPath()}},
		P2P: &config.P2PConfig{ChainNetType: config.MainNet},
	}
	log := vh.Logger()
	// the first start
	db, err := Init(cfg, log)
	vh.Assert("C05/first-start-succeeds", err == nil && db != nil)
	if err != nil || db == nil {
		return
	}
	first, ok := hstore.Load(db)
	vh.Assert("C05/first-start-creates-exactly-genesis", ok && len(first) == 1 && first[0].Height == 0 && first[0].State == hstore.L)
	if !ok || len(first) != 1 {
		return
	}
	// what an ingestion history, possibly cut off in the middle of a reorganisation, left behind:
	// arbitrary further rows (the table guarantees distinct hashes, nothing else)
	pre := []hstore.H{first[0]}
	for i := 1; i < k; i++ {
		h := hstore.NondetH()
		for j := range pre {
			vh.Assume(!vh.HashEq(h.Hash, pre[j].Hash))
		}
		vh.Assume(vh.And(h.State <= hstore.O, h.Height >= 1, h.Height < hstore.MaxHeight, vh.BigLe(big.NewInt(0), h.W), vh.BigLe(big.NewInt(0), h.CW)))
		vhdb.InsertHeaderRow(db, h.Row())
		pre = append(pre, h)
	}
	_ = db.Close()

	// restart
	db2, err2 := Init(cfg, log)
	vh.Assert("C05/restart-succeeds", err2 == nil && db2 != nil)
	if err2 != nil || db2 == nil {
		return
	}
	post, ok2 := hstore.Load(db2)
	vh.Assert("C05/restart-changes-nothing", ok2 && len(post) == len(pre))
	if ok2 && len(post) == len(pre) {
		for i := range pre {
			vh.Assert("C05/restart-changes-nothing", vh.And(hstore.SameButState(pre[i], post[i]), pre[i].State == post[i].State))
		}
	}
	_ = db2.Close()
	vh.Reach("end")
}

// HarnessFileRoundTrip (C17): the public entry points end to end. The real ExportHeaders writes
// the prepared-database file from a store, the real Init (prepared_db = true) of an empty
// database imports it: the imported table is exactly the exported longest chain. Everything
// between the two calls is the repository's own code in its current form (query, CSV writing,
// compression call, decompression call, batch loop, consistency validation); files are record
// lists in a model file system and gzip is the identity.
func HarnessFileRoundTrip(k int) {
	pre := c17Store(k)
	log := vh.Logger()
	file := vhdb.TempRelPath(".csv.gz")
	src := &config.AppConfig{
		Db:  &config.DbConfig{Engine: config.DBSQLite, SchemaPath: vhdb.MigrationsDir(), SQLite: config.SQLiteConfig{FilePath: vhdb.TempPath()}, PreparedDbFilePath: file},
		P2P: &config.P2PConfig{ChainNetType: config.MainNet},
	}
	a := &sqLiteAdapter{}
	vh.Assume(a.connect(src.Db) == nil && a.doMigrations(src.Db) == nil)
	for _, h := range pre {
		vhdb.InsertHeaderRow(a.db, h.Row())
	}
	_ = a.db.Close()

	vh.Assert("C17/export-succeeds", ExportHeaders(src, log) == nil)

	// the newest checkpoint the import validates against: the exported genesis
	saved := config.Checkpoints
	defer func() { config.Checkpoints = saved }()
	g := pre[0].Hash
	config.Checkpoints = []chaincfg.Checkpoint{{Height: 0, Hash: &g}}

	dst := &config.AppConfig{
		Db:  &config.DbConfig{Engine: config.DBSQLite, SchemaPath: vhdb.MigrationsDir(), SQLite: config.SQLiteConfig{FilePath: vhdb.TempPath()}, PreparedDb: true, PreparedDbFilePath: file},
		P2P: &config.P2PConfig{ChainNetType: config.MainNet},
	}
	db2, err := Init(dst, log)
	vh.Assert("C17/import-succeeds", err == nil && db2 != nil)
	if err != nil || db2 == nil {
		return
	}
	got, ok := hstore.Load(db2)
	vh.Assert("C17/imported-rows-wellformed", ok)
	if !ok {
		return
	}
	compareImported(pre, got)
	_ = db2.Close()
	vh.Reach("end")
}

// c17Chain: a store that is one real chain of k headers (all on the longest chain, fixed difficulty).
func c17Chain(k int) []hstore.H {
	pre := make([]hstore.H, k)
	for i := range pre {
		pre[i] = hstore.NondetH()
		h := &pre[i]
		h.State, h.Bits = hstore.L, c17Bits[0]
		h.W = domains.CalculateWork(h.Bits).BigInt()
		if i == 0 {
			h.Prev, h.Height, h.CW = chainhash.Hash{}, 0, h.W
		} else {
			h.Prev, h.Height, h.CW = pre[i-1].Hash, pre[i-1].Height+1, new(big.Int).Add(pre[i-1].CW, h.W)
		}
		src := domains.BlockHeaderSource{Version: h.Version, PrevBlock: h.Prev, MerkleRoot: h.Merkle, Timestamp: h.Ts, Bits: h.Bits, Nonce: h.Nonce}
		h.Hash = chainhash.Hash(service.DefaultBlockHasher().BlockHash(&src))
	}
	vh.Assume(hstore.Inv(pre, nil))
	return pre
}

func c17Export(rows []hstore.H, file string) error {
	cfg := &config.AppConfig{
		Db:  &config.DbConfig{Engine: config.DBSQLite, SchemaPath: vhdb.MigrationsDir(), SQLite: config.SQLiteConfig{FilePath: vhdb.TempPath()}, PreparedDbFilePath: file},
		P2P: &config.P2PConfig{ChainNetType: config.MainNet},
	}
	a := &sqLiteAdapter{}
	vh.Assume(a.connect(cfg.Db) == nil && a.doMigrations(cfg.Db) == nil)
	for _, h := range rows {
		vhdb.InsertHeaderRow(a.db, h.Row())
	}
	_ = a.db.Close()
	return ExportHeaders(cfg, vh.Logger())
}

// HarnessExportOverEarlierFile (C17): the export is a function of the store only, not of what the
// output path held before. A longer chain (k+1..k+2 headers) is exported to a path, then an
// arbitrary store of k rows is exported to the same path, then the file is imported into an empty
// database: exactly the second store's longest chain.
func HarnessExportOverEarlierFile(k int, extra int) {
	earlier := c17Chain(k + extra)
	pre := c17Store(k)
	file := vhdb.TempRelPath(".csv.gz")
	vh.Assert("C17/export-succeeds", c17Export(earlier, file) == nil)
	vh.Assert("C17/export-succeeds", c17Export(pre, file) == nil)

	saved := config.Checkpoints
	defer func() { config.Checkpoints = saved }()
	g := pre[0].Hash
	config.Checkpoints = []chaincfg.Checkpoint{{Height: 0, Hash: &g}}
	dst := &config.AppConfig{
		Db:  &config.DbConfig{Engine: config.DBSQLite, SchemaPath: vhdb.MigrationsDir(), SQLite: config.SQLiteConfig{FilePath: vhdb.TempPath()}, PreparedDb: true, PreparedDbFilePath: file},
		P2P: &config.P2PConfig{ChainNetType: config.MainNet},
	}
	db2, err := Init(dst, vh.Logger())
	vh.Assert("C17/import-succeeds", err == nil && db2 != nil)
	if err != nil || db2 == nil {
		return
	}
	got, ok := hstore.Load(db2)
	vh.Assert("C17/imported-rows-wellformed", ok)
	if !ok {
		return
	}
	compareImported(pre, got)
	_ = db2.Close()
	vh.Reach("end")
}

// HarnessCheckpointMismatch (C17): an import whose block at the newest checkpoint height has a
// different hash makes start-up fail. A chain of k headers is exported; the newest checkpoint
// sits at an arbitrary height of that chain (the tip included) with a hash that is not the
// chain's hash there; Init with the prepared file must return an error.
func HarnessCheckpointMismatch(k int) {
	pre := c17Chain(k)
	file := vhdb.TempRelPath(".csv.gz")
	vh.Assert("C17/export-succeeds", c17Export(pre, file) == nil)

	saved := config.Checkpoints
	defer func() { config.Checkpoints = saved }()
	c := vh.Choose(k)
	wrong := chainhash.Hash(vh.NondetHash("checkpointHash"))
	vh.Assume(!vh.HashEq(wrong, pre[c].Hash))
	older := chainhash.Hash(pre[0].Hash)
	config.Checkpoints = []chaincfg.Checkpoint{{Height: 0, Hash: &older}, {Height: int32(c), Hash: &wrong}}
	if c == 0 {
		config.Checkpoints = config.Checkpoints[1:]
	}
	dst := &config.AppConfig{
		Db:  &config.DbConfig{Engine: config.DBSQLite, SchemaPath: vhdb.MigrationsDir(), SQLite: config.SQLiteConfig{FilePath: vhdb.TempPath()}, PreparedDb: true, PreparedDbFilePath: file},
		P2P: &config.P2PConfig{ChainNetType: config.MainNet},
	}
	db2, err := Init(dst, vh.Logger())
	vh.Observe("refused", err != nil)
	vh.Assert("C17/checkpoint-mismatch-fails-the-start", err != nil)
	if db2 != nil {
		_ = db2.Close()
	}
	vh.Reach("end")
}
