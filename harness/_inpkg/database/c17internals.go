// This file drives unexported functions of the database package directly (export query, CSV
// helpers, insertHeaders, importHeaders of the adapter, genesis insertion). A refactor may change
// their signatures; the loader then drops this file (and only this file) and the harnesses of
// c17.go, which use the public entry points only, still run.
//
//vh:optional
package database

import (
	"math/big"

	"github.com/bitcoin-sv/block-headers-service/config"
	dbsql "github.com/bitcoin-sv/block-headers-service/database/sql"
	"github.com/bitcoin-sv/block-headers-service/internal/chaincfg"
	"github.com/bitcoin-sv/block-headers-service/internal/chaincfg/chainhash"
	"github.com/bitcoin-sv/block-headers-service/internal/zzverif/hstore"
	"github.com/bitcoin-sv/block-headers-service/internal/zzverif/vh"
	"github.com/bitcoin-sv/block-headers-service/internal/zzverif/vhcsv"
	"github.com/bitcoin-sv/block-headers-service/internal/zzverif/vhdb"
)

func init() {
	Registry["HarnessRoundTrip"] = func(a []int64) { HarnessRoundTrip(int(a[0])) }
	Registry["HarnessBatches"] = func(a []int64) { HarnessBatches(int(a[0])) }
	Registry["HarnessRealBatches"] = func(a []int64) { HarnessRealBatches(int(a[0]), int(a[1])) }
	Registry["HarnessSecondStart"] = func(a []int64) { HarnessSecondStart(int(a[0])) }
	Registry["HarnessRestart"] = func(a []int64) { HarnessRestart(int(a[0])) }
}

func export(pre []hstore.H) [][]string {
	db := hstore.Store(pre)
	rows, err := queryDatabaseTable(db, vh.Logger())
	vh.Assert("C17/export-query-succeeds", err == nil)
	w := vhcsv.NewWriter()
	vh.Assert("C17/export-writes", writeColumnNamesToCsvFile(rows, w) == nil && writeRowsToCsvFile(rows, w) == nil)
	return vhcsv.Records(w)
}

// HarnessRoundTrip (C17): export of an arbitrary store, then the real SQLite import of the
// produced records into an empty database, reproduces the exported longest chain.
func HarnessRoundTrip(k int) {
	pre := c17Store(k)
	recs := export(pre)
	vh.Observe("records", len(recs))
	db2 := vhdb.NewDB()
	a := &sqLiteAdapter{db: db2}
	n, err := a.importHeaders(vhcsv.File(recs), vh.Logger())
	vh.Assert("C17/import-succeeds", err == nil)
	got, ok := hstore.Load(db2)
	vh.Assert("C17/imported-rows-wellformed", ok)
	if !ok {
		return
	}
	vh.Assert("C17/import-count-reported", n == len(got))
	compareImported(pre, got)
	vh.Reach("end")
}

// HarnessBatches (C17): the same records imported batch by batch (batch size 1) through
// insertHeaders, threading row index, previous hash and cumulative work the way importHeaders
// does, give the same table: batch boundaries are irrelevant.
func HarnessBatches(k int) {
	pre := c17Store(k)
	recs := export(pre)
	if len(recs) < 1 {
		return
	}
	db2 := vhdb.NewDB()
	a := &sqLiteAdapter{db: db2}
	repo := dbsql.NewHeadersDb(db2, vh.Logger())
	reader := vhcsv.NewReader(recs[1:]) // the column header line is skipped by importHeaders
	prevHash := chainhash.Hash{}.String()
	cum := ""
	rowIndex, guard := 0, 0
	for i := 0; i <= k+1; i++ {
		var err error
		rowIndex, prevHash, cum, err = a.insertHeaders(reader, repo, 1, prevHash, cum, rowIndex)
		vh.Assert("C17/batch-import-succeeds", err == nil)
		if guard == rowIndex {
			break
		}
		guard = rowIndex
	}
	got, ok := hstore.Load(db2)
	vh.Assert("C17/imported-rows-wellformed", ok)
	if !ok {
		return
	}
	compareImported(pre, got)
	_ = big.NewInt
	vh.Reach("end")
}

// HarnessRealBatches (C17): HarnessRoundTrip with the REAL batch loop of importHeaders crossing
// batch boundaries: the verification overlay turns the constant sqliteBatchSize (500) into a
// variable, set to b here, so that k rows span several batches.
func HarnessRealBatches(k int, b int) {
	if !setBatchSize(b) {
		vh.Assume(false) // the declaration was not found in the current source: nothing is claimed
		return
	}
	defer setBatchSize(500)
	pre := c17Store(k)
	recs := export(pre)
	db2 := vhdb.NewDB()
	a := &sqLiteAdapter{db: db2}
	n, err := a.importHeaders(vhcsv.File(recs), vh.Logger())
	vh.Assert("C17/import-succeeds", err == nil)
	got, ok := hstore.Load(db2)
	vh.Assert("C17/imported-rows-wellformed", ok)
	if !ok {
		return
	}
	vh.Assert("C17/import-count-reported", n == len(got))
	compareImported(pre, got)
	vh.Reach("end")
}

// HarnessSecondStart (C17): a start on a database that already holds headers never imports
// (nothing is overwritten) - and therefore accepts whatever a refused import left behind.
func HarnessSecondStart(k int) {
	pre := make([]hstore.H, k)
	for i := range pre {
		pre[i] = hstore.NondetH()
	}
	// arbitrary leftover rows: distinct hashes is all a table guarantees
	for i := range pre {
		vh.Assume(vh.And(pre[i].State <= hstore.O, vh.BigLe(big.NewInt(0), pre[i].W), vh.BigLe(big.NewInt(0), pre[i].CW)))
		for j := 0; j < i; j++ {
			vh.Assume(!vh.HashEq(pre[i].Hash, pre[j].Hash))
		}
	}
	db := hstore.Store(pre)
	// the newest checkpoint of the network: an arbitrary hash at a small height
	cpHash := vh.NondetHash("checkpoint")
	config.Checkpoints = []chaincfg.Checkpoint{{Height: int32(vh.Choose(k + 1)), Hash: &cpHash}}
	consistent := validateDbConsistency(k, dbsql.NewHeadersDb(db, vh.Logger()), db) == nil
	vh.Observe("consistent", consistent)
	err := importHeaders(&sqLiteAdapter{db: db}, nil, vh.Logger())
	post, ok := hstore.Load(db)
	vh.Assert("C17/existing-headers-never-overwritten", vh.And(ok, len(post) == k))
	if ok && len(post) == k {
		for i := range pre {
			vh.Assert("C17/existing-headers-never-overwritten", vh.And(hstore.SameButState(pre[i], post[i]), pre[i].State == post[i].State))
		}
	}
	vh.Class("F1-leftover-of-a-refused-import-is-accepted-by-the-next-start", !consistent)
	vh.Assert("C17/start-on-inconsistent-leftover-is-refused", vh.Implies(!consistent, err != nil))
	vh.Reach("end")
}

// HarnessRestart (C05): what every start does besides opening the file - inserting the genesis
// header - leaves a non-empty store exactly as it was (every row, every state), whatever an
// interrupted ingestion left behind; on an empty store it creates exactly the genesis row.
func HarnessRestart(k int) {
	cfg := &config.AppConfig{P2P: &config.P2PConfig{ChainNetType: config.MainNet}}
	g := createGenesisHeaderBlock(cfg.P2P.GetNetParams().GenesisBlock.Header)
	gh, gok := hstore.FromRow(g)
	vh.Assert("C05/genesis-row-wellformed", gok)
	if !gok {
		return
	}
	pre := make([]hstore.H, k)
	for i := range pre {
		if i == 0 {
			pre[i] = gh
		} else {
			pre[i] = hstore.NondetH()
		}
	}
	db := vhdb.NewDB()
	if k > 0 {
		// arbitrary rows after genesis: only what the table itself guarantees (distinct hashes)
		for i := range pre {
			for j := 0; j < i; j++ {
				vh.Assume(!vh.HashEq(pre[i].Hash, pre[j].Hash))
			}
			vh.Assume(vh.And(pre[i].State <= hstore.O, vh.BigLe(big.NewInt(0), pre[i].W), vh.BigLe(big.NewInt(0), pre[i].CW)))
			vhdb.InsertHeaderRow(db, pre[i].Row())
		}
	}
	err := insertGenesisBlock(&sqLiteAdapter{db: db}, cfg, vh.Logger())
	vh.Assert("C05/restart-succeeds", err == nil)
	post, ok := hstore.Load(db)
	vh.Assert("C05/rows-wellformed-after-restart", ok)
	if !ok {
		return
	}
	if k == 0 {
		vh.Assert("C05/empty-store-gets-exactly-genesis", len(post) == 1 && hstore.SameButState(post[0], gh) && post[0].State == hstore.L && post[0].Height == 0 && vh.BigEq(post[0].CW, post[0].W))
		vh.Reach("created")
		return
	}
	vh.Assert("C05/restart-changes-nothing", len(post) == k)
	if len(post) == k {
		for i := range pre {
			vh.Assert("C05/restart-changes-nothing", vh.And(hstore.SameButState(pre[i], post[i]), pre[i].State == post[i].State))
		}
	}
	vh.Reach("unchanged")
}
