package database

// Registry lists the harness entry points of this package for native replay.
var Registry = map[string]func([]int64){
	"HarnessRoundTrip":   func(a []int64) { HarnessRoundTrip(int(a[0])) },
	"HarnessBatches":     func(a []int64) { HarnessBatches(int(a[0])) },
	"HarnessRealBatches": func(a []int64) { HarnessRealBatches(int(a[0]), int(a[1])) },
	"HarnessInitRestart": func(a []int64) { HarnessInitRestart(int(a[0])) },
	"HarnessRestart":     func(a []int64) { HarnessRestart(int(a[0])) },
	"HarnessSecondStart": func(a []int64) { HarnessSecondStart(int(a[0])) },
}
