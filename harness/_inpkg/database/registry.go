package database

// Registry lists the harness entry points of this package for native replay (c17internals.go adds its own).
var Registry = map[string]func([]int64){
	"HarnessFileRoundTrip":         func(a []int64) { HarnessFileRoundTrip(int(a[0])) },
	"HarnessInitRestart":           func(a []int64) { HarnessInitRestart(int(a[0])) },
	"HarnessCheckpointMismatch":    func(a []int64) { HarnessCheckpointMismatch(int(a[0])) },
	"HarnessExportOverEarlierFile": func(a []int64) { HarnessExportOverEarlierFile(int(a[0]), int(a[1])) },
}
