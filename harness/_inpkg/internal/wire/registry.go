package wire

// Registry lists the harness entry points of this package for native replay.
var Registry = map[string]func([]int64){
	"HarnessDecode":       func(a []int64) { HarnessDecode(int(a[0]), int(a[1])) },
	"HarnessVarInt":       func([]int64) { HarnessVarInt() },
	"HarnessFraming":      func(a []int64) { HarnessFraming(int(a[0])) },
	"HarnessCommandField": func([]int64) { HarnessCommandField() },
}
