package wire

import (
	"bytes"

	"github.com/bitcoin-sv/block-headers-service/internal/zzverif/vh"
)

// harnessCommands: every command of makeEmptyMessage (the table of ReadMessage).
var harnessCommands = []string{CmdVersion, CmdVerAck, CmdGetAddr, CmdAddr, CmdGetBlocks, CmdBlock, CmdInv, CmdGetData, CmdNotFound, CmdTx, CmdPing, CmdPong,
	CmdGetHeaders, CmdHeaders, CmdMemPool, CmdFilterAdd, CmdFilterClear, CmdFilterLoad, CmdMerkleBlock, CmdReject, CmdSendHeaders, CmdFeeFilter,
	CmdGetCFilters, CmdGetCFHeaders, CmdGetCFCheckpt, CmdCFilter, CmdCFHeaders, CmdCFCheckpt, CmdProtoconf, CmdAuthch}

var harnessVersions = []uint32{MultipleAddressVersion, NetAddressTimeVersion, BIP0031Version + 1, ProtocolVersion}

// HarnessDecode (C14): the decoder of command #cmd on an arbitrary payload of n bytes returns an
// error or a message; it does not panic, its loops end, and no single allocation exceeds what the
// message's payload limit allows.
func HarnessDecode(cmd int, n int) {
	vh.SetUnwind(200)
	vh.SetAllocView(n + 8)
	pver := harnessVersions[vh.Choose(len(harnessVersions))]
	msg, err := makeEmptyMessage(harnessCommands[cmd])
	vh.Assert("C14/command-table-complete", err == nil && msg != nil)
	if msg == nil {
		return
	}
	payload := vh.Bytes("payload", n)
	derr := msg.Bsvdecode(bytes.NewBuffer(payload), pver, BaseEncoding)
	vh.Observe("decoded", derr == nil)
	limit := int64(msg.MaxPayloadLength(pver))
	// the in-memory form of an element may be a few times its wire form
	vh.Assert("C14/decoder-allocations-bounded-by-payload-limit", vh.AllocatedBytes() <= 8*limit+(1<<20))
	vh.Reach("end")
}

// HarnessVarInt (C14): ReadVarInt(WriteVarInt(v)) = v for every 64-bit v; any nine bytes either
// fail to decode or decode to a value whose canonical encoding is exactly the bytes consumed.
func HarnessVarInt() {
	v := vh.NondetU64("v")
	var buf bytes.Buffer
	vh.Assert("C14/varint-writes", WriteVarInt(&buf, 0, v) == nil)
	enc := append([]byte{}, buf.Bytes()...)
	vh.Assert("C14/varint-size", len(enc) == VarIntSerializeSize(v))
	got, err := ReadVarInt(bytes.NewReader(enc), 0)
	vh.Assert("C14/varint-round-trip", err == nil && got == v)

	raw := vh.Bytes("raw", 9)
	r := bytes.NewReader(raw)
	val, rerr := ReadVarInt(r, 0)
	if rerr == nil {
		used := 9 - r.Len()
		var b2 bytes.Buffer
		_ = WriteVarInt(&b2, 0, val)
		vh.Assert("C14/only-canonical-varints-accepted", b2.Len() == used && bytes.Equal(b2.Bytes(), raw[:used]))
	}
	vh.Reach("end")
}

// HarnessFraming (C14): an arbitrary 24-byte frame header (magic, length, checksum arbitrary;
// command = ping, an unknown command, or headers) followed by n arbitrary payload bytes.
func HarnessFraming(n int) {
	vh.SetAllocView(n + 8)
	cmds := []string{CmdPing, "bogus", CmdHeaders, CmdVerAck} // verack: a message with an empty payload
	cmd := cmds[vh.Choose(len(cmds))]
	magic := vh.NondetU32("magic")
	length := vh.NondetU32("length")
	// lengths between the bytes supplied and the global maximum make discardInput loop length/10240
	// times over a dead reader: a long but finite loop, left out of the exploration (stated bound)
	vh.Assume(length <= uint32(n+4) || length > maxMessagePayload())
	sum := vh.Bytes("checksum", 4)
	payload := vh.Bytes("payload", n)
	if int(length) <= n {
		// either the right checksum (computed, so that it is the real one natively) or any wrong one
		f := vh.Sha256(payload[:length])
		real := vh.Sha256(f[:])
		if vh.NondetBool("rightChecksum") {
			sum = real[:4]
		} else {
			vh.Assume(!bytes.Equal(sum, real[:4]))
		}
	}
	var frame bytes.Buffer
	var command [CommandSize]byte
	copy(command[:], cmd)
	_ = writeElements(&frame, magic, command, length, [4]byte{sum[0], sum[1], sum[2], sum[3]})
	frame.Write(payload)
	_, msg, _, err := ReadMessageWithEncodingN(bytes.NewReader(frame.Bytes()), ProtocolVersion, MainNet, BaseEncoding)
	vh.Observe("accepted", err == nil)
	if err == nil {
		first := vh.Sha256(payload[:length])
		second := vh.Sha256(first[:])
		vh.Assert("C14/accepted-frame-has-our-magic", magic == uint32(MainNet))
		vh.Assert("C14/accepted-frame-has-known-command", cmd != "bogus" && msg != nil && msg.Command() == cmd)
		vh.Assert("C14/accepted-frame-length-within-limits", length <= msg.MaxPayloadLength(ProtocolVersion) && int(length) <= n)
		vh.Assert("C14/accepted-frame-checksum-matches", bytes.Equal(sum, second[:4]))
	}
	vh.Assert("C14/wrong-magic-rejected", magic == uint32(MainNet) || err != nil)
	vh.Assert("C14/unknown-command-rejected", cmd != "bogus" || err != nil)
	vh.Assert("C14/oversize-length-rejected", length <= maxMessagePayload() || err != nil)
	vh.Assert("C14/frame-allocations-bounded", vh.AllocatedBytes() <= int64(MaxBlockHeaderPayload*MaxBlockHeadersPerMsg)+(1<<20))
	vh.Reach("end")
}

// HarnessCommandField (C14): the 12 command bytes of a frame are arbitrary (our magic, empty
// payload, the right checksum of the empty payload). The frame is accepted only if those bytes
// are exactly a known command name followed by NUL padding - in particular not a known name,
// a NUL, and anything else after it.
func HarnessCommandField() {
	command := vh.Bytes("command", CommandSize)
	for _, b := range command {
		vh.Assume(b < 0x80) // ASCII: the real code's UTF-8 validity test stays on its fast path (stated bound)
	}
	for _, c := range []string{CmdGetCFilters, CmdGetCFHeaders, CmdGetCFCheckpt, CmdCFilter, CmdCFHeaders, CmdCFCheckpt} {
		// the compact-filter decoders go through reflection (outside the model, as in HarnessDecode)
		var excl [CommandSize]byte
		copy(excl[:], c)
		vh.Assume(!bytes.Equal(command, excl[:]))
	}
	f := vh.Sha256(nil)
	sum := vh.Sha256(f[:])
	var frame bytes.Buffer
	var cmd [CommandSize]byte
	copy(cmd[:], command)
	_ = writeElements(&frame, uint32(MainNet), cmd, uint32(0), [4]byte{sum[0], sum[1], sum[2], sum[3]})
	_, msg, _, err := ReadMessageWithEncodingN(bytes.NewReader(frame.Bytes()), ProtocolVersion, MainNet, BaseEncoding)
	vh.Observe("accepted", err == nil)
	if err == nil {
		known := false
		for _, c := range harnessCommands {
			var want [CommandSize]byte
			copy(want[:], c)
			known = vh.Or(known, bytes.Equal(command, want[:]))
		}
		vh.Assert("C14/accepted-command-field-is-a-known-name-with-nul-padding", known)
		vh.Assert("C14/accepted-frame-has-known-command", msg != nil)
		vh.Reach("accepted")
		return
	}
	vh.Reach("rejected")
}
