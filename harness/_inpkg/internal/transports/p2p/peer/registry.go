package peer

// Registry lists the harness entry points of this package for native replay.
var Registry = map[string]func([]int64){
	"HarnessCheckpointCursor": func(a []int64) { HarnessCheckpointCursor(int(a[0])) },
	"HarnessExpInv":           func([]int64) { HarnessExpInv() },
	"HarnessExpHeadersBatch":  func(a []int64) { HarnessExpHeadersBatch(int(a[0]), int(a[1])) },
}
