package peer

import (
	"errors"
	"net"
	"time"

	"github.com/bitcoin-sv/block-headers-service/config"
	"github.com/bitcoin-sv/block-headers-service/domains"
	"github.com/bitcoin-sv/block-headers-service/internal/chaincfg"
	"github.com/bitcoin-sv/block-headers-service/internal/chaincfg/chainhash"
	"github.com/bitcoin-sv/block-headers-service/internal/wire"
	"github.com/bitcoin-sv/block-headers-service/internal/zzverif/vh"
	"github.com/bitcoin-sv/block-headers-service/service"
)

// a connection that only records that it was closed
type expConn struct{ closed bool }

func (c *expConn) Read([]byte) (int, error)         { return 0, errors.New("no data") }
func (c *expConn) Write(b []byte) (int, error)      { return len(b), nil }
func (c *expConn) Close() error                     { c.closed = true; return nil }
func (c *expConn) LocalAddr() net.Addr              { return &net.TCPAddr{} }
func (c *expConn) RemoteAddr() net.Addr             { return &net.TCPAddr{} }
func (c *expConn) SetDeadline(time.Time) error      { return nil }
func (c *expConn) SetReadDeadline(time.Time) error  { return nil }
func (c *expConn) SetWriteDeadline(time.Time) error { return nil }

// outcome kinds of one submitted header
const (
	xStoredLongest = iota
	xStoredOther
	xKnown
	xRejected
	xSaveFail
	xOutcomes
)

type expChains struct {
	kinds   []int
	headers []*domains.BlockHeader
	calls   int
}

func (c *expChains) Add(domains.BlockHeaderSource) (*domains.BlockHeader, error) {
	i := c.calls
	c.calls++
	switch c.kinds[i] {
	case xKnown:
		return nil, errors.New(service.HeaderAlreadyExists.String())
	case xRejected:
		return domains.NewRejectedBlockHeader(domains.BlockHash(c.headers[i].Hash)), errors.New(service.BlockRejected.String())
	case xSaveFail:
		return nil, errors.New(service.HeaderSaveFail.String() + ": disk full")
	}
	return c.headers[i], nil
}

type expHeaders struct {
	service.Headers
	tipHeight int32
	tipHash   chainhash.Hash
	older     chainhash.Hash
}

func (h *expHeaders) GetTipHeight() int32 { return h.tipHeight }
func (h *expHeaders) LatestHeaderLocator() domains.BlockLocator {
	t, o := h.tipHash, h.older
	return domains.BlockLocator{&t, &o}
}

// HarnessExpHeadersBatch (C06/C07, experimental engine): the real Peer.handleHeadersMsg on a batch
// of m headers with an arbitrary outcome per header, n arbitrary ascending checkpoints and an
// arbitrary tip. A forbidden header, or a longest-chain header that contradicts or skips the
// checkpoint the cursor stands at, disconnects the peer, no later header of the batch is
// submitted and nothing is requested; otherwise, when the batch made progress and the peer is
// still ahead, exactly one getheaders follows, carrying the service's locator and the next
// checkpoint (or zero after the last) as stop hash.
func HarnessExpHeadersBatch(m int, n int) {
	cps := make([]chaincfg.Checkpoint, n)
	for i := range cps {
		h := vh.NondetHash("cphash")
		cps[i] = chaincfg.Checkpoint{Height: vh.NondetI32("cpheight"), Hash: &h}
		vh.Assume(cps[i].Height >= 1)
		vh.Assume(!vh.HashEq(h, chainhash.Hash{}))
		if i > 0 {
			vh.Assume(cps[i].Height > cps[i-1].Height)
		}
	}
	hs := &expHeaders{tipHeight: vh.NondetI32("tipHeight"), tipHash: vh.NondetHash("tipHash"), older: vh.NondetHash("olderHash")}
	vh.Assume(hs.tipHeight >= 0 && hs.tipHeight < 1<<30)
	cs := &expChains{}
	conn := &expConn{}
	log := vh.Logger()
	p := &Peer{conn: conn, addr: &net.TCPAddr{}, cfg: &config.P2PConfig{}, chainParams: &chaincfg.Params{Checkpoints: cps}, headersService: hs, chainService: cs,
		log: log, protocolVersion: wire.ProtocolVersion, msgChan: make(chan wire.Message, 16), quit: make(chan struct{})}
	p.checkpoint = newCheckpoint(cps, hs.tipHeight, log)
	// the peer is known to be ahead of us (so that a batch with progress must be followed up)
	p.latestHeight = vh.NondetI32("peerHeight")
	vh.Assume(p.latestHeight > hs.tipHeight+int32(m))

	// the cursor's checkpoint before the batch
	cur := -1
	for i := n - 1; i >= 0; i-- {
		if cps[i].Height > hs.tipHeight {
			cur = i
		}
	}
	msg := wire.NewMsgHeaders()
	offence := -1     // index of the first header that must get the peer disconnected
	progress := false // a longest-chain header was accepted before any offence
	height := hs.tipHeight
	for i := 0; i < m; i++ {
		_ = msg.AddBlockHeader(&wire.BlockHeader{})
		k := vh.Choose(xOutcomes)
		h := &domains.BlockHeader{Hash: vh.NondetHash("hdrhash"), State: domains.LongestChain}
		switch k {
		case xStoredLongest:
			height++
			h.Height = height
		case xStoredOther:
			h.State = domains.Stale
			h.Height = vh.NondetI32("otherHeight")
		}
		cs.kinds, cs.headers = append(cs.kinds, k), append(cs.headers, h)
		if offence >= 0 {
			continue
		}
		switch k {
		case xRejected:
			offence = i
		case xStoredLongest:
			if cur >= 0 && h.Height == cps[cur].Height {
				if vh.Concretely(vh.HashEq(h.Hash, *cps[cur].Hash)) {
					cur++
					if cur >= n {
						cur = -1
					}
					progress = true
				} else {
					offence = i
				}
			} else if cur >= 0 && h.Height > cps[cur].Height {
				offence = i // skipped the checkpoint
			} else {
				progress = true
			}
		}
	}

	p.handleHeadersMsg(msg)

	var sent []wire.Message
	for len(p.msgChan) > 0 {
		sent = append(sent, <-p.msgChan)
	}
	if offence >= 0 {
		vh.Assert("C07x/offending-peer-is-disconnected", conn.closed && p.quitting)
		vh.Assert("C07x/nothing-submitted-after-the-offending-header", cs.calls == offence+1)
		vh.Assert("C07x/nothing-requested-from-the-offending-peer", len(sent) == 0)
		vh.Reach("offence")
		return
	}
	vh.Assert("C07x/honest-batch-keeps-the-peer", !conn.closed && !p.quitting)
	vh.Assert("C07x/every-header-of-an-honest-batch-is-submitted", cs.calls == m)
	if !progress {
		vh.Assert("C06x/no-progress-no-request", len(sent) == 0)
		vh.Reach("no-progress")
		return
	}
	vh.Assert("C06x/progress-is-followed-by-exactly-one-request", len(sent) == 1)
	if len(sent) == 1 {
		gh, ok := sent[0].(*wire.MsgGetHeaders)
		stop := chainhash.Hash{}
		if cur >= 0 {
			stop = *cps[cur].Hash
		}
		vh.Assert("C06x/follow-up-carries-the-locator-and-the-next-checkpoint", ok && len(gh.BlockLocatorHashes) == 2 &&
			vh.HashEq(*gh.BlockLocatorHashes[0], hs.tipHash) && vh.HashEq(*gh.BlockLocatorHashes[1], hs.older) && vh.HashEq(gh.HashStop, stop))
	}
	vh.Reach("progress")
}

func (h *expHeaders) GetHeightByHash(x *chainhash.Hash) (int32, error) {
	if x.IsEqual(&h.tipHash) || x.IsEqual(&h.older) {
		return h.tipHeight, nil
	}
	return 0, errors.New("block is not in the main chain")
}

// HarnessExpInv (C06, experimental engine): once the checkpoints are synced, an inv that announces
// a block we do not know is followed by exactly one getheaders carrying the service's locator and
// that block as stop; an inv for a known block, or one without a block, requests nothing; before
// the checkpoints are synced invs are ignored.
func HarnessExpInv() {
	hs := &expHeaders{tipHeight: vh.NondetI32("tipHeight"), tipHash: vh.NondetHash("tipHash"), older: vh.NondetHash("olderHash")}
	vh.Assume(hs.tipHeight >= 0)
	log := vh.Logger()
	p := &Peer{conn: &expConn{}, addr: &net.TCPAddr{}, cfg: &config.P2PConfig{}, chainParams: &chaincfg.Params{}, headersService: hs, chainService: &expChains{},
		log: log, protocolVersion: wire.ProtocolVersion, msgChan: make(chan wire.Message, 16), quit: make(chan struct{})}
	p.syncedCheckpoints = vh.NondetBool("syncedCheckpoints")
	blk := vh.NondetHash("announced")
	isBlock := vh.NondetBool("isBlock")
	inv := wire.NewMsgInv()
	typ := wire.InvTypeTx
	if isBlock {
		typ = wire.InvTypeBlock
	}
	_ = inv.AddInvVect(wire.NewInvVect(typ, &blk))
	p.handleInvMsg(inv)
	var sent []wire.Message
	for len(p.msgChan) > 0 {
		sent = append(sent, <-p.msgChan)
	}
	known := vh.Or(vh.HashEq(blk, hs.tipHash), vh.HashEq(blk, hs.older))
	if vh.Concretely(vh.And(p.syncedCheckpoints, isBlock, !known)) {
		vh.Assert("C06x/announced-unknown-block-is-requested", len(sent) == 1)
		if len(sent) == 1 {
			gh, ok := sent[0].(*wire.MsgGetHeaders)
			vh.Assert("C06x/announced-unknown-block-is-requested", ok && len(gh.BlockLocatorHashes) == 2 && vh.HashEq(*gh.BlockLocatorHashes[0], hs.tipHash) &&
				vh.HashEq(*gh.BlockLocatorHashes[1], hs.older) && vh.HashEq(gh.HashStop, blk))
		}
		vh.Reach("requested")
		return
	}
	vh.Assert("C06x/nothing-requested-otherwise", len(sent) == 0)
	vh.Reach("ignored")
}
