//vh:optional
package peer

import (
	"net"

	"github.com/bitcoin-sv/block-headers-service/config"
	"github.com/bitcoin-sv/block-headers-service/domains"
	"github.com/bitcoin-sv/block-headers-service/internal/chaincfg"
	"github.com/bitcoin-sv/block-headers-service/internal/chaincfg/chainhash"
	"github.com/bitcoin-sv/block-headers-service/internal/wire"
	"github.com/bitcoin-sv/block-headers-service/internal/zzverif/c15"
	"github.com/bitcoin-sv/block-headers-service/internal/zzverif/hstore"
	"github.com/bitcoin-sv/block-headers-service/internal/zzverif/vh"
	"github.com/bitcoin-sv/block-headers-service/service"
)

// HarnessTwoPeers (C15, experimental engine): two peers, built by NewPeer around ONE chain service
// the way the server builds them, each receive a headers message with one new header at the same
// time; the two handlers are interleaved at repository-method granularity with at most p
// preemptions. The store afterwards has one longest-chain header per height and is what one of
// the two sequential orders of the two submissions produces. (HarnessTwoSubmitters interleaves
// two calls on one service object; this one also covers how the peers share that object.)
func HarnessTwoPeers(k int, p int) {
	pre := make([]hstore.H, k)
	for i := range pre {
		pre[i] = hstore.NondetH()
	}
	vh.Assume(hstore.Inv(pre, nil))
	vh.Assume(hstore.PositiveWork(pre))
	db := hstore.Store(pre)
	hashA, hashB := vh.NondetHash("hashA"), vh.NondetHash("hashB")
	srcA, srcB := c15.Source(vh.NondetHash("prevA"), 1), c15.Source(vh.NondetHash("prevB"), 2)
	hashes, prevs := []chainhash.Hash{hashA, hashB}, []chainhash.Hash{srcA.PrevBlock, srcB.PrevBlock}
	for i := range pre {
		hashes, prevs = append(hashes, pre[i].Hash), append(prevs, pre[i].Prev)
		vh.Assume(vh.And(!vh.HashEq(pre[i].Hash, hashA), !vh.HashEq(pre[i].Hash, hashB)))
	}
	vh.Assume(!vh.HashEq(hashA, hashB))
	vh.Assume(hstore.Acyclic(hashes, prevs))
	vh.Assume(vh.And(!vh.HashEq(hashA, pre[0].Prev), !vh.HashEq(hashB, pre[0].Prev)))

	repos := hstore.Repos(db)
	repos.Headers = c15.Yielding(repos.Headers, p)
	note := &c15.CountNotifier{}
	hasher := c15.TwoHasher(hashA, hashB)
	log := vh.Logger()
	cs := service.NewChainsService(repos, &chaincfg.Params{}, log, hasher, note)
	hs := &expHeaders{tipHeight: 1 << 20, tipHash: vh.NondetHash("tipHash"), older: vh.NondetHash("olderHash")}
	mk := func() *Peer {
		peer, err := NewPeer(&expConn{}, false, &config.P2PConfig{}, &chaincfg.Params{}, hs, cs, log)
		vh.Assume(err == nil && peer != nil)
		peer.addr = &net.TCPAddr{}
		peer.protocolVersion = wire.ProtocolVersion
		peer.checkpoint = newCheckpoint(nil, hs.tipHeight, log)
		peer.sendHeadersMode = true // nothing is requested after the batch
		return peer
	}
	pa, pb := mk(), mk()
	msg := func(s domains.BlockHeaderSource) *wire.MsgHeaders {
		m := wire.NewMsgHeaders()
		h := wire.BlockHeader(s)
		_ = m.AddBlockHeader(&h)
		return m
	}
	ma, mb := msg(srcA), msg(srcB)

	vh.Interleave(
		func() { pa.handleHeadersMsg(ma) },
		func() { pb.handleHeadersMsg(mb) },
	)

	seq := func(first, second domains.BlockHeaderSource) []hstore.H {
		d := hstore.Store(pre)
		c := service.NewChainsService(hstore.Repos(d), &chaincfg.Params{}, log, hasher, &c15.CountNotifier{})
		_, _ = c.Add(first)
		_, _ = c.Add(second)
		out, _ := hstore.Load(d)
		return out
	}
	postAB, postBA := seq(srcA, srcB), seq(srcB, srcA)
	post, ok := hstore.Load(db)
	vh.Assert("C15/rows-wellformed", ok)
	if !ok {
		return
	}
	vh.Observe("n_post", len(post))
	vh.Assert("C15/both-submissions-stored-once", len(post) == k+2)
	if len(post) != k+2 {
		return
	}
	for i := 0; i < len(post); i++ {
		for j := 0; j < i; j++ {
			vh.Assert("C15/one-longest-header-per-height", !vh.And(post[i].State == hstore.L, post[j].State == hstore.L, post[i].Height == post[j].Height))
		}
	}
	vh.Assert("C15/store-is-a-sequential-outcome", vh.Or(c15.SameStore(post, postAB), c15.SameStore(post, postBA)))
	vh.Assert("C15/one-event-per-stored-header", note.Count() == 2)
	vh.Reach("end")
}

func init() {
	Registry["HarnessTwoPeers"] = func(a []int64) { HarnessTwoPeers(int(a[0]), int(a[1])) }
}
