package peer

import (
	"github.com/bitcoin-sv/block-headers-service/domains"
	"github.com/bitcoin-sv/block-headers-service/internal/chaincfg"
	"github.com/bitcoin-sv/block-headers-service/internal/zzverif/vh"
)

// HarnessCheckpointCursor (C07, experimental engine): cursor creation and one verification step
// for every list of n ascending checkpoints, every tip height and every header.
func HarnessCheckpointCursor(n int) {
	cps := make([]chaincfg.Checkpoint, n)
	for i := range cps {
		h := vh.NondetHash("cphash")
		cps[i] = chaincfg.Checkpoint{Height: vh.NondetI32("cpheight"), Hash: &h}
		vh.Assume(cps[i].Height >= 1)
		if i > 0 {
			vh.Assume(cps[i].Height > cps[i-1].Height)
		}
	}
	tip := vh.NondetI32("tip")
	vh.Assume(tip >= 0)
	ch := newCheckpoint(cps, tip, vh.Logger())
	first := -1
	for i := n - 1; i >= 0; i-- {
		if cps[i].Height > tip {
			first = i
		}
	}
	if first < 0 {
		vh.Assert("C07x/no-checkpoint-left-means-unbounded", ch.LastReached() && ch.Hash() == nil)
		return
	}
	vh.Assert("C07x/cursor-starts-at-first-checkpoint-above-tip", ch.currentCheckpoint == &cps[first] && !ch.LastReached())
	hdr := &domains.BlockHeader{Height: vh.NondetI32("height"), Hash: vh.NondetHash("hash")}
	err := ch.VerifyAndAdvance(hdr)
	cp := cps[first]
	switch {
	case hdr.Height < cp.Height:
		vh.Assert("C07x/below-checkpoint-accepted-cursor-unchanged", err == nil && ch.currentCheckpoint == &cps[first])
	case hdr.Height == cp.Height && vh.HashEq(hdr.Hash, *cp.Hash):
		vh.Assert("C07x/matching-header-accepted", err == nil)
		if first+1 < n {
			vh.Assert("C07x/matching-header-advances-to-exactly-the-next-checkpoint", ch.currentCheckpoint == &cps[first+1])
		} else {
			vh.Assert("C07x/after-the-last-checkpoint-unbounded", ch.LastReached() && ch.Hash() == nil)
		}
	default:
		vh.Assert("C07x/contradicting-or-skipping-header-refused", err != nil && ch.currentCheckpoint == &cps[first])
	}
	vh.Reach("end")
}
