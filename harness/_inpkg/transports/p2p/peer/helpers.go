package peer

import (
	"net"
	"time"

	"github.com/bitcoin-sv/block-headers-service/internal/wire"
	"github.com/rs/zerolog"
)

// harness helpers: a connected peer without a socket, and observers for what was queued to it.

type harnessConn struct{ closed bool }

type harnessAddr struct{}

func (harnessAddr) Network() string { return "tcp" }
func (harnessAddr) String() string  { return "10.0.0.1:8333" }

func (c *harnessConn) Read([]byte) (int, error)         { return 0, net.ErrClosed }
func (c *harnessConn) Write(b []byte) (int, error)      { return len(b), nil }
func (c *harnessConn) Close() error                     { c.closed = true; return nil }
func (c *harnessConn) LocalAddr() net.Addr              { return harnessAddr{} }
func (c *harnessConn) RemoteAddr() net.Addr             { return harnessAddr{} }
func (c *harnessConn) SetDeadline(time.Time) error      { return nil }
func (c *harnessConn) SetReadDeadline(time.Time) error  { return nil }
func (c *harnessConn) SetWriteDeadline(time.Time) error { return nil }

// HarnessPeer returns an inbound peer that counts as connected; nothing is started.
func HarnessPeer(log *zerolog.Logger, lastBlock int32) *Peer {
	p := NewInboundPeer(&Config{Log: log})
	p.conn = &harnessConn{}
	p.addr = "10.0.0.1:8333"
	p.connected = 1
	p.lastBlock = lastBlock
	p.startingHeight = lastBlock
	return p
}

// HarnessSent drains and returns the messages queued to the peer so far.
func HarnessSent(p *Peer) []wire.Message {
	var out []wire.Message
	for {
		select {
		case m := <-p.outputQueue:
			out = append(out, m.msg)
		default:
			return out
		}
	}
}

// HarnessDisconnected reports whether Disconnect was called on the peer.
func HarnessDisconnected(p *Peer) bool { return p.disconnect != 0 }

// HarnessPeerWith returns a connected peer of the given direction and address whose version is known
// (the server learns about a peer from its OnVersion callback).
func HarnessPeerWith(log *zerolog.Logger, inbound bool, addr string, id int32) *Peer {
	p := newPeerBase(&Config{Log: log}, inbound)
	p.conn = &harnessConn{}
	p.addr = addr
	p.connected = 1
	p.versionKnown = true
	p.id = id
	p.na = &wire.NetAddress{}
	return p
}

// HarnessSyncCandidate returns a connected full-node peer whose version is known and whose best
// height is lastBlock.
func HarnessSyncCandidate(log *zerolog.Logger, id int32, lastBlock int32) *Peer {
	p := HarnessPeerWith(log, false, "10.0.0.2:8333", id)
	p.services = wire.SFNodeNetwork
	p.lastBlock = lastBlock
	p.startingHeight = lastBlock
	return p
}

// HarnessOutstandingGetHeaders: a getheaders request to this peer has been sent and not yet answered
// (the duplicate-request filter remembers it).
func HarnessOutstandingGetHeaders(p *Peer) bool {
	p.prevGetHdrsMtx.Lock()
	defer p.prevGetHdrsMtx.Unlock()
	return p.prevGetHdrsBegin != nil
}
