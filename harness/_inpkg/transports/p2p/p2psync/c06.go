package p2psync

import (
	"errors"
	"time"

	"github.com/bitcoin-sv/block-headers-service/domains"
	"github.com/bitcoin-sv/block-headers-service/internal/chaincfg"
	"github.com/bitcoin-sv/block-headers-service/internal/chaincfg/chainhash"
	"github.com/bitcoin-sv/block-headers-service/internal/wire"
	"github.com/bitcoin-sv/block-headers-service/internal/zzverif/vh"
	"github.com/bitcoin-sv/block-headers-service/service"
	peerpkg "github.com/bitcoin-sv/block-headers-service/transports/p2p/peer"
)

// syncHeaders is the Headers service as the sync manager sees it: an arbitrary tip.
type syncHeaders struct {
	service.Headers
	tipHeight int32
	tipHash   chainhash.Hash
	older     chainhash.Hash // second locator entry (an ancestor of the tip)
	current   bool
	known     map[chainhash.Hash]int32
}

func (h *syncHeaders) GetTipHeight() int32 { return h.tipHeight }
func (h *syncHeaders) GetTip() *domains.BlockHeader {
	return &domains.BlockHeader{Height: h.tipHeight, Hash: h.tipHash}
}
func (h *syncHeaders) LatestHeaderLocator() domains.BlockLocator {
	// copies, as the real service returns (the peer keeps the pointer for its duplicate filter):
	// the tip first, then an older header - a request must carry the whole locator, not just the tip
	t, o := h.tipHash, h.older
	return domains.BlockLocator{&t, &o}
}

// fullLocator: the request carries exactly the service's locator for the given tip.
func fullLocator(gh *wire.MsgGetHeaders, tip, older chainhash.Hash) bool {
	return len(gh.BlockLocatorHashes) == 2 && vh.HashEq(*gh.BlockLocatorHashes[0], tip) && vh.HashEq(*gh.BlockLocatorHashes[1], older)
}
func (h *syncHeaders) CountHeaders() int { return int(h.tipHeight) + 1 }
func (h *syncHeaders) IsCurrent() bool   { return h.current }
func (h *syncHeaders) GetHeightByHash(x *chainhash.Hash) (int32, error) {
	if x.IsEqual(&h.tipHash) {
		return h.tipHeight, nil
	}
	return 0, errors.New("block is not in the main chain")
}

// c06Manager builds a manager through the real constructor for an arbitrary configuration:
// checkpoints enabled with n ascending arbitrary checkpoints, or disabled; arbitrary tip.
func c06Manager(n int, disable bool) (*SyncManager, *syncHeaders, *chainsStub, []chaincfg.Checkpoint) {
	cps := checkpoints(n)
	hs := &syncHeaders{tipHeight: vh.NondetI32("tipHeight"), tipHash: vh.NondetHash("tipHash"), older: vh.NondetHash("olderHash"), current: vh.NondetBool("current")}
	vh.Assume(hs.tipHeight >= 0)
	for i := range cps {
		// the zero hash is the "no stop" value of getheaders, not a block
		vh.Assume(!vh.HashEq(*cps[i].Hash, chainhash.Hash{}))
	}
	cs := &chainsStub{}
	sm, err := New(&Config{Logger: vh.Logger(), PeerNotifier: &banRec{}, ChainParams: &chaincfg.MainNetParams, DisableCheckpoints: disable, MaxPeers: 8,
		Services: &service.Services{Chains: cs, Headers: hs}, Checkpoints: cps}, map[*peerpkg.Peer]*peerpkg.SyncState{})
	vh.Assert("C06/manager-created", err == nil && sm != nil)
	return sm, hs, cs, cps
}

// expectedStop: the stop hash a request must carry: the next checkpoint above the tip when
// checkpoints are enabled and one is left, zero otherwise.
func expectedStop(cps []chaincfg.Checkpoint, disable bool, height int32) chainhash.Hash {
	if !disable {
		for i := range cps {
			if cps[i].Height > height {
				return *cps[i].Hash
			}
		}
	}
	return chainhash.Hash{}
}

// HarnessStartSync (C06, step P1+P2): m candidate peers with arbitrary best heights connect one
// after the other; a peer at or above our height is chosen (a higher one if there is one) and
// receives exactly one getheaders (locator from our tip, stop = next checkpoint or zero). When it
// answers with a header that is stored on the longest chain it is kept and asked for more.
func HarnessStartSync(m int, n int, disabled int) {
	disable := disabled == 1
	sm, hs, cs, cps := c06Manager(n, disable)
	peers := make([]*peerpkg.Peer, m)
	for i := range peers {
		peers[i] = peerpkg.HarnessSyncCandidate(vh.Logger(), int32(i+1), vh.NondetI32("peerHeight"))
		vh.Assume(peers[i].LastBlock() >= 0)
		sm.handleNewPeerMsg(peers[i])
	}
	anyAtOrAbove := false
	for _, p := range peers {
		if p.LastBlock() >= hs.tipHeight {
			anyAtOrAbove = true
		}
	}
	if !anyAtOrAbove {
		vh.Assert("C06/no-sync-peer-when-all-peers-are-behind", sm.syncPeer == nil)
		vh.Reach("all-behind")
		return
	}
	vh.Assert("C06/a-peer-at-or-above-our-height-is-chosen", sm.syncPeer != nil && sm.syncPeer.LastBlock() >= hs.tipHeight)
	if sm.syncPeer == nil {
		return
	}
	sp := sm.syncPeer
	stop := expectedStop(cps, disable, hs.tipHeight)
	for _, p := range peers {
		sent := peerpkg.HarnessSent(p)
		if p != sp {
			vh.Assert("C06/only-the-sync-peer-is-asked", len(sent) == 0)
			continue
		}
		vh.Assert("C06/exactly-one-initial-request", len(sent) == 1)
		if len(sent) == 1 {
			gh, ok := sent[0].(*wire.MsgGetHeaders)
			vh.Assert("C06/initial-request-from-our-tip-to-next-checkpoint", ok && fullLocator(gh, hs.tipHash, hs.older) && vh.HashEq(gh.HashStop, stop))
		}
	}
	// the sync peer answers with one header that extends our longest chain (not at a checkpoint height)
	nh := &domains.BlockHeader{Height: hs.tipHeight + 1, Hash: vh.NondetHash("newhash"), State: domains.LongestChain}
	for i := range cps {
		vh.Assume(cps[i].Height != nh.Height)
	}
	vh.Assume(!vh.HashEq(nh.Hash, hs.tipHash))
	vh.Assume(hs.tipHeight < 1<<30)
	cs.kinds, cs.headers = []int{oStoredLongest}, []*domains.BlockHeader{nh}
	hs.tipHeight, hs.tipHash = nh.Height, nh.Hash
	msg := wire.NewMsgHeaders()
	_ = msg.AddBlockHeader(&wire.BlockHeader{})
	vh.Class("F1-checkpoints-disabled-answering-peer-is-disconnected", disable)
	sm.handleHeadersMsg(&headersMsg{headers: msg, peer: sp})
	vh.Assert("C06/answering-sync-peer-is-kept", !peerpkg.HarnessDisconnected(sp))
	sent := peerpkg.HarnessSent(sp)
	vh.Assert("C06/answer-with-progress-is-followed-by-one-request", len(sent) == 1)
	if len(sent) == 1 {
		gh, ok := sent[0].(*wire.MsgGetHeaders)
		vh.Assert("C06/follow-up-request-from-new-tip-to-next-checkpoint", ok && fullLocator(gh, nh.Hash, hs.older) &&
			vh.HashEq(gh.HashStop, expectedStop(cps, disable, nh.Height)))
	}
	vh.Reach("synced-one-step")
}

// HarnessInvAfterSync (C06, step P4): after the sync peer's last answer brought nothing new, a
// block that we do not know, announced by inv - by the sync peer or by any other connected
// peer - leads to a getheaders that really reaches the announcing peer.
func HarnessInvAfterSync(n int, disabled int) {
	disable := disabled == 1
	sm, hs, _, _ := c06Manager(n, disable)
	hs.current = true
	sp := peerpkg.HarnessSyncCandidate(vh.Logger(), 1, hs.tipHeight)
	sm.handleNewPeerMsg(sp)
	vh.Assume(sm.syncPeer == sp)
	first := peerpkg.HarnessSent(sp)
	vh.Assume(len(first) == 1)
	// another peer is connected as well (at our height: it does not become the sync peer)
	other := peerpkg.HarnessSyncCandidate(vh.Logger(), 2, hs.tipHeight)
	sm.handleNewPeerMsg(other)
	vh.Assert("C06/sync-peer-kept-when-another-connects", sm.syncPeer == sp && len(peerpkg.HarnessSent(other)) == 0)
	// the answer: nothing new
	sm.handleHeadersMsg(&headersMsg{headers: wire.NewMsgHeaders(), peer: sp})
	vh.Assert("C06/empty-answer-sends-nothing", len(peerpkg.HarnessSent(sp)) == 0 && !peerpkg.HarnessDisconnected(sp))
	// a new block is announced by inv
	blk := vh.NondetHash("announced")
	vh.Assume(!vh.HashEq(blk, hs.tipHash))
	inv := wire.NewMsgInv()
	_ = inv.AddInvVect(wire.NewInvVect(wire.InvTypeBlock, &blk))
	announcer := sp
	if vh.NondetBool("announcedByAnotherPeer") {
		announcer = other
	}
	vh.Class("F2-inv-after-sync-filtered-as-duplicate-getheaders", expectedStopIsZero(sm))
	sm.handleInvMsg(&invMsg{inv: inv, peer: announcer})
	sent := peerpkg.HarnessSent(announcer)
	vh.Assert("C06/announced-unknown-block-is-requested", len(sent) == 1)
	if len(sent) == 1 {
		gh, ok := sent[0].(*wire.MsgGetHeaders)
		vh.Assert("C06/announced-unknown-block-is-requested", ok && fullLocator(gh, hs.tipHash, hs.older))
	}
	vh.Reach("end")
}

func expectedStopIsZero(sm *SyncManager) bool { return sm.nextCheckpoint == nil }

// HarnessSyncPeerLost (C06, step P5): the sync peer disconnects while another candidate at or
// above our height is connected: that one takes over and is asked.
func HarnessSyncPeerLost(n int, disabled int) {
	disable := disabled == 1
	sm, hs, _, cps := c06Manager(n, disable)
	a := peerpkg.HarnessSyncCandidate(vh.Logger(), 1, vh.NondetI32("heightA"))
	b := peerpkg.HarnessSyncCandidate(vh.Logger(), 2, vh.NondetI32("heightB"))
	vh.Assume(a.LastBlock() >= hs.tipHeight && b.LastBlock() >= hs.tipHeight)
	sm.handleNewPeerMsg(a)
	sm.handleNewPeerMsg(b)
	vh.Assume(sm.syncPeer != nil)
	lost, other := a, b
	if sm.syncPeer == b {
		lost, other = b, a
	}
	_ = peerpkg.HarnessSent(lost)
	_ = peerpkg.HarnessSent(other)
	sm.handleDonePeerMsg(lost)
	vh.Assert("C06/another-candidate-takes-over", sm.syncPeer == other)
	sent := peerpkg.HarnessSent(other)
	vh.Assert("C06/new-sync-peer-is-asked", len(sent) == 1)
	if len(sent) == 1 {
		gh, ok := sent[0].(*wire.MsgGetHeaders)
		vh.Assert("C06/new-sync-peer-is-asked", ok && vh.HashEq(gh.HashStop, expectedStop(cps, disable, hs.tipHeight)))
	}
	vh.Reach("end")
}

// HarnessStalledSyncPeer (C06, step P6): the periodic check. A sync peer that delivered nothing
// for longer than the stall limit while we are still below its height is disconnected and
// another candidate is asked; one that is within the limit, or whose height we have reached,
// is kept.
func HarnessStalledSyncPeer(n int, disabled int) {
	disable := disabled == 1
	sm, hs, _, cps := c06Manager(n, disable)
	a := peerpkg.HarnessSyncCandidate(vh.Logger(), 1, vh.NondetI32("heightA"))
	b := peerpkg.HarnessSyncCandidate(vh.Logger(), 2, vh.NondetI32("heightB"))
	vh.Assume(a.LastBlock() >= hs.tipHeight && b.LastBlock() >= hs.tipHeight)
	sm.handleNewPeerMsg(a)
	sm.handleNewPeerMsg(b)
	vh.Assume(sm.syncPeer != nil)
	cur, other := a, b
	if sm.syncPeer == b {
		cur, other = b, a
	}
	_ = peerpkg.HarnessSent(cur)
	_ = peerpkg.HarnessSent(other)
	// the last progress was `idle` seconds ago
	idle := vh.NondetI64("idleSeconds")
	vh.Assume(idle >= 0 && idle < 1<<20 && (idle <= 170 || idle >= 190)) // away from the limit: the replay runs on the real clock
	t0 := vh.Now()
	sm.syncPeerState.lastBlockTime = t0.Add(-time.Duration(idle) * time.Second)
	caughtUp := cur.LastBlock() == hs.tipHeight

	sm.handleCheckSyncPeer()

	vh.Assume(vh.Now().Unix()-t0.Unix() <= 1) // the step itself takes no noticeable time

	stalled := idle >= 190
	if stalled && !caughtUp {
		vh.Assert("C06/stalled-sync-peer-is-disconnected", peerpkg.HarnessDisconnected(cur))
		vh.Assert("C06/a-sync-peer-is-chosen-after-a-stall", sm.syncPeer != nil)
		if sm.syncPeer == other {
			sent := peerpkg.HarnessSent(other)
			vh.Assert("C06/new-sync-peer-is-asked", len(sent) == 1)
			if len(sent) == 1 {
				gh, ok := sent[0].(*wire.MsgGetHeaders)
				vh.Assert("C06/new-sync-peer-is-asked", ok && vh.HashEq(gh.HashStop, expectedStop(cps, disable, hs.tipHeight)))
			}
		}
		vh.Reach("replaced")
		return
	}
	vh.Assert("C06/sync-peer-within-the-stall-limit-or-caught-up-is-kept", sm.syncPeer == cur && !peerpkg.HarnessDisconnected(cur) && len(peerpkg.HarnessSent(other)) == 0)
	vh.Reach("kept")
}

// syncInv: what every event of the sync manager must preserve for the node to keep going:
// a sync peer is a registered peer with its bookkeeping in place and headers are then expected;
// whenever a registered candidate is strictly ahead of our tip there is a sync peer; and while a
// request of ours to any registered peer is unanswered, headers are expected.
func syncInv(sm *SyncManager, tip int32) bool {
	cs := []bool{}
	for p := range sm.peerStates {
		// whoever we have asked for headers may answer: headers are then expected
		cs = append(cs, !peerpkg.HarnessOutstandingGetHeaders(p) || sm.headersFirstMode)
	}
	if sm.syncPeer != nil {
		_, registered := sm.peerStates[sm.syncPeer]
		cs = append(cs, registered, sm.syncPeerState != nil, sm.headersFirstMode)
	} else {
		for p, st := range sm.peerStates {
			cs = append(cs, !vh.And(st.SyncCandidate, p.LastBlock() > tip))
		}
	}
	return vh.And(cs...)
}

// HarnessSyncInvariantStep (C06): the invariant above is inductive - from every manager state
// of m registered peers (arbitrary heights and candidate flags, any of them or none the sync
// peer) that satisfies it, one arbitrary event (a peer connects, a peer leaves, headers arrive
// from any peer with any outcome, an inv arrives from any peer, the periodic check fires with
// any idle time) leaves it satisfied. Scripted event orders are replaced by induction.
func HarnessSyncInvariantStep(m int, n int, disabled int) {
	disable := disabled == 1
	sm, hs, cs, _ := c06Manager(n, disable)
	vh.Assume(hs.tipHeight < 1<<30)
	peers := make([]*peerpkg.Peer, m)
	for i := range peers {
		peers[i] = peerpkg.HarnessSyncCandidate(vh.Logger(), int32(i+1), vh.NondetI32("peerHeight"))
		vh.Assume(peers[i].LastBlock() >= 0)
		sm.peerStates[peers[i]] = &peerpkg.SyncState{SyncCandidate: vh.NondetBool("candidate")}
		if vh.NondetBool("askedBefore") {
			// an earlier request to this peer is still unanswered
			h := vh.NondetHash("askedFrom")
			_ = peers[i].PushGetHeadersMsg(domains.BlockLocator{&h}, &zeroHash)
			_ = peerpkg.HarnessSent(peers[i])
		}
	}
	if c := vh.Choose(m + 1); c < m {
		sm.syncPeer = peers[c]
		peers[c].SetSyncPeer(true)
		// last progress: just now, within the stall limit, or beyond it (every idle time is covered by HarnessStalledSyncPeer)
		idle := []int64{0, 170, 190, 100000}[vh.Choose(4)]
		sm.syncPeerState = &syncPeerState{lastBlockTime: vh.Now().Add(-time.Duration(idle) * time.Second)}
		sm.headersFirstMode = true
	} else if vh.NondetBool("headersSeenBefore") {
		sm.headersFirstMode = true
	}
	vh.Assume(syncInv(sm, hs.tipHeight))

	t0 := vh.Now()
	switch vh.Choose(5) {
	case 0:
		fresh := peerpkg.HarnessSyncCandidate(vh.Logger(), 100, vh.NondetI32("newPeerHeight"))
		vh.Assume(fresh.LastBlock() >= 0)
		sm.handleNewPeerMsg(fresh)
	case 1:
		if m > 0 {
			sm.handleDonePeerMsg(peers[vh.Choose(m)])
		}
	case 2:
		if m > 0 {
			from := peers[vh.Choose(m)]
			msg := wire.NewMsgHeaders()
			switch vh.Choose(4) {
			case 0: // nothing new
			case 1: // one header stored on the longest chain: the tip advances
				nh := &domains.BlockHeader{Height: hs.tipHeight + 1, Hash: vh.NondetHash("newhash"), State: domains.LongestChain}
				vh.Assume(!vh.HashEq(nh.Hash, hs.tipHash))
				cs.kinds, cs.headers = []int{oStoredLongest}, []*domains.BlockHeader{nh}
				hs.tipHeight, hs.tipHash = nh.Height, nh.Hash
				_ = msg.AddBlockHeader(&wire.BlockHeader{})
			case 2: // only known headers
				cs.kinds, cs.headers = []int{oKnown}, []*domains.BlockHeader{nil}
				_ = msg.AddBlockHeader(&wire.BlockHeader{})
			case 3: // a forbidden header
				cs.kinds, cs.headers = []int{oRejected}, []*domains.BlockHeader{{Hash: vh.NondetHash("forbidden")}}
				_ = msg.AddBlockHeader(&wire.BlockHeader{})
			}
			sm.handleHeadersMsg(&headersMsg{headers: msg, peer: from})
		}
	case 3:
		if m > 0 {
			from := peers[vh.Choose(m)]
			blk := vh.NondetHash("announced") // known (our tip) or unknown
			inv := wire.NewMsgInv()
			_ = inv.AddInvVect(wire.NewInvVect(wire.InvTypeBlock, &blk))
			sm.handleInvMsg(&invMsg{inv: inv, peer: from})
		}
	case 4:
		sm.handleCheckSyncPeer()
	}
	vh.Assume(vh.Now().Unix()-t0.Unix() <= 1)
	vh.Assert("C06/sync-invariant-preserved-by-every-event", syncInv(sm, hs.tipHeight))
	vh.Reach("end")
}

// HarnessInvWithoutSyncPeer (C06, step P7): no sync peer was ever chosen (every connected peer is
// behind our tip) and the node considers itself current. A peer that has caught up announces a
// block we do not know: it is asked for headers, and when it answers with the new header the
// answer is processed - the peer is kept and asked for more - not dropped as "unrequested".
func HarnessInvWithoutSyncPeer(n int, disabled int) {
	disable := disabled == 1
	sm, hs, cs, cps := c06Manager(n, disable)
	hs.current = true
	vh.Assume(hs.tipHeight >= 1 && hs.tipHeight < 1<<30)
	p := peerpkg.HarnessSyncCandidate(vh.Logger(), 1, vh.NondetI32("peerHeight"))
	vh.Assume(p.LastBlock() >= 0 && p.LastBlock() < hs.tipHeight) // behind us when it connected
	sm.handleNewPeerMsg(p)
	vh.Assert("C06/no-sync-peer-when-all-peers-are-behind", sm.syncPeer == nil && len(peerpkg.HarnessSent(p)) == 0)

	blk := vh.NondetHash("announced")
	vh.Assume(!vh.HashEq(blk, hs.tipHash))
	inv := wire.NewMsgInv()
	_ = inv.AddInvVect(wire.NewInvVect(wire.InvTypeBlock, &blk))
	sm.handleInvMsg(&invMsg{inv: inv, peer: p})
	vh.Assert("C06/announced-unknown-block-is-requested", len(peerpkg.HarnessSent(p)) == 1)

	// the peer answers with the announced header, which extends our longest chain
	nh := &domains.BlockHeader{Height: hs.tipHeight + 1, Hash: blk, State: domains.LongestChain}
	for i := range cps {
		vh.Assume(cps[i].Height != nh.Height) // not at a checkpoint height (that case is C07)
	}
	cs.kinds, cs.headers = []int{oStoredLongest}, []*domains.BlockHeader{nh}
	hs.tipHeight, hs.tipHash = nh.Height, nh.Hash
	msg := wire.NewMsgHeaders()
	_ = msg.AddBlockHeader(&wire.BlockHeader{})
	vh.Class("F3-answer-to-an-inv-triggered-request-dropped-as-unrequested-when-no-sync-peer-was-ever-chosen", true)
	sm.handleHeadersMsg(&headersMsg{headers: msg, peer: p})
	vh.Assert("C06/answer-to-our-own-request-is-processed", !peerpkg.HarnessDisconnected(p) && cs.calls == 1)
	vh.Reach("end")
}
