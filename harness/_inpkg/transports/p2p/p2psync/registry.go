package p2psync

// Registry lists the harness entry points of this package for native replay.
var Registry = map[string]func([]int64){
	"HarnessNextCheckpoint":     func(a []int64) { HarnessNextCheckpoint(int(a[0])) },
	"HarnessHeadersBatch":       func(a []int64) { HarnessHeadersBatch(int(a[0]), int(a[1])) },
	"HarnessStartSync":          func(a []int64) { HarnessStartSync(int(a[0]), int(a[1]), int(a[2])) },
	"HarnessInvAfterSync":       func(a []int64) { HarnessInvAfterSync(int(a[0]), int(a[1])) },
	"HarnessSyncPeerLost":       func(a []int64) { HarnessSyncPeerLost(int(a[0]), int(a[1])) },
	"HarnessSyncInvariantStep":  func(a []int64) { HarnessSyncInvariantStep(int(a[0]), int(a[1]), int(a[2])) },
	"HarnessInvWithoutSyncPeer": func(a []int64) { HarnessInvWithoutSyncPeer(int(a[0]), int(a[1])) },
	"HarnessStalledSyncPeer":    func(a []int64) { HarnessStalledSyncPeer(int(a[0]), int(a[1])) },
}
