package p2psync

import (
	"errors"

	"github.com/bitcoin-sv/block-headers-service/domains"
	"github.com/bitcoin-sv/block-headers-service/internal/chaincfg"
	"github.com/bitcoin-sv/block-headers-service/internal/chaincfg/chainhash"
	"github.com/bitcoin-sv/block-headers-service/internal/wire"
	"github.com/bitcoin-sv/block-headers-service/internal/zzverif/vh"
	"github.com/bitcoin-sv/block-headers-service/service"
	peerpkg "github.com/bitcoin-sv/block-headers-service/transports/p2p/peer"
)

// checkpoints returns n checkpoints with strictly ascending arbitrary heights and arbitrary hashes.
func checkpoints(n int) []chaincfg.Checkpoint {
	cps := make([]chaincfg.Checkpoint, n)
	for i := range cps {
		h := vh.NondetHash("cphash")
		cps[i] = chaincfg.Checkpoint{Height: vh.NondetI32("cpheight"), Hash: &h}
		vh.Assume(cps[i].Height >= 1)
		if i > 0 {
			vh.Assume(cps[i].Height > cps[i-1].Height)
		}
	}
	return cps
}

// HarnessNextCheckpoint (C07): the next checkpoint after a height is the first list element above
// it, nil after the last - for every list of n ascending checkpoints and every height.
func HarnessNextCheckpoint(n int) {
	cps := checkpoints(n)
	sm := &SyncManager{checkpoints: cps, log: vh.Logger()}
	height := vh.NondetI32("height")
	got := sm.findNextHeaderCheckpoint(height)
	want := -1
	for i := n - 1; i >= 0; i-- {
		if cps[i].Height > height {
			want = i
		}
	}
	if want < 0 {
		vh.Assert("C07/no-checkpoint-after-the-last", got == nil)
	} else {
		vh.Assert("C07/next-checkpoint-is-the-first-one-above", got == &cps[want])
	}
	vh.Reach("end")
}

type banRec struct{ banned []*peerpkg.Peer }

func (b *banRec) UpdatePeerHeights(*chainhash.Hash, int32, *peerpkg.Peer) {}
func (b *banRec) RelayInventory(*wire.InvVect, interface{})               {}
func (b *banRec) BanPeer(p *peerpkg.Peer)                                 { b.banned = append(b.banned, p) }

// outcome kinds of one submitted header
const (
	oStoredLongest = iota
	oStoredOther
	oKnown
	oRejected
	oSaveFail
	nOutcomes
)

type chainsStub struct {
	kinds   []int
	headers []*domains.BlockHeader
	calls   int
}

func (c *chainsStub) Add(domains.BlockHeaderSource) (*domains.BlockHeader, error) {
	i := c.calls
	c.calls++
	switch c.kinds[i] {
	case oKnown:
		return nil, errors.New(service.HeaderAlreadyExists.String())
	case oRejected:
		return domains.NewRejectedBlockHeader(domains.BlockHash(c.headers[i].Hash)), errors.New(service.BlockRejected.String())
	case oSaveFail:
		return nil, errors.New(service.HeaderSaveFail.String() + ": disk full")
	}
	return c.headers[i], nil
}

type headersStub struct {
	service.Headers
	locator domains.BlockLocator
}

func (h *headersStub) LatestHeaderLocator() domains.BlockLocator { return h.locator }
func (h *headersStub) CountHeaders() int                         { return 1 }

// HarnessHeadersBatch (C07): a batch of m headers with arbitrary per-header outcomes, a checkpoint
// list of n entries and an arbitrary cursor.
func HarnessHeadersBatch(m int, n int) {
	cps := checkpoints(n)
	peer := peerpkg.HarnessPeer(vh.Logger(), 0)
	ban := &banRec{}
	cs := &chainsStub{}
	msg := wire.NewMsgHeaders()
	for i := 0; i < m; i++ {
		k := vh.Choose(nOutcomes)
		st := domains.LongestChain
		if k == oStoredOther {
			st = domains.Stale
		}
		cs.kinds = append(cs.kinds, k)
		cs.headers = append(cs.headers, &domains.BlockHeader{Height: vh.NondetI32("height"), Hash: vh.NondetHash("hash"), State: st})
		_ = msg.AddBlockHeader(&wire.BlockHeader{})
	}
	tipHash := vh.NondetHash("tiphash")
	hs := &headersStub{locator: domains.BlockLocator{&tipHash}}
	sm := &SyncManager{log: vh.Logger(), peerNotifier: ban, checkpoints: cps, headersFirstMode: true,
		peerStates: map[*peerpkg.Peer]*peerpkg.SyncState{peer: {}}, Services: &service.Services{Chains: cs, Headers: hs}}
	cursor := vh.Choose(n + 1) // index of the next checkpoint, n = none left
	if cursor < n {
		sm.nextCheckpoint = &cps[cursor]
	}

	sm.handleHeadersMsg(&headersMsg{headers: msg, peer: peer})

	sent := peerpkg.HarnessSent(peer)
	// what should have happened, header by header
	stop := -1 // index at which processing must stop (rejected / checkpoint mismatch)
	rejected, mismatch, reached, anyLongest := false, false, false, false
	for i := 0; i < m && stop < 0; i++ {
		switch cs.kinds[i] {
		case oRejected:
			rejected, stop = true, i
		case oStoredLongest, oStoredOther:
			h := cs.headers[i]
			if cursor < n && h.Height == cps[cursor].Height {
				if vh.HashEq(h.Hash, *cps[cursor].Hash) {
					reached = true
				} else {
					mismatch, stop = true, i
				}
			}
			if stop < 0 && cs.kinds[i] == oStoredLongest {
				anyLongest = true
			}
		}
	}
	if stop >= 0 {
		vh.Assert("C07/nothing-submitted-after-a-forbidden-or-checkpoint-violating-header", cs.calls == stop+1)
		vh.Assert("C07/offending-peer-is-disconnected", peerpkg.HarnessDisconnected(peer))
		vh.Assert("C07/nothing-further-requested-from-offending-peer", len(sent) == 0)
		if rejected {
			vh.Assert("C07/forbidden-header-bans-the-peer-once", len(ban.banned) == 1 && ban.banned[0] == peer)
		}
		_ = mismatch
		vh.Reach("contained")
		return
	}
	vh.Assert("C07/honest-batch-is-fully-submitted", cs.calls == m)
	vh.Assert("C07/honest-peer-is-kept", !peerpkg.HarnessDisconnected(peer) && len(ban.banned) == 0)
	if !anyLongest {
		vh.Assert("C07/no-request-without-progress", len(sent) == 0)
		vh.Reach("no-progress")
		return
	}
	vh.Assert("C07/exactly-one-follow-up-request", len(sent) == 1)
	if len(sent) != 1 {
		return
	}
	gh, ok := sent[0].(*wire.MsgGetHeaders)
	vh.Assert("C07/exactly-one-follow-up-request", ok)
	if !ok {
		return
	}
	next := cursor // checkpoint the request should stop at
	if reached {
		next = cursor + 1
	}
	if next < n {
		vh.Assert("C07/request-stops-at-the-next-checkpoint", vh.HashEq(gh.HashStop, *cps[next].Hash))
	} else {
		vh.Assert("C07/after-the-last-checkpoint-requests-are-unbounded", vh.HashEq(gh.HashStop, chainhash.Hash{}))
	}
	if reached && next < n {
		vh.Assert("C07/matching-checkpoint-advances-sync-from-it", len(gh.BlockLocatorHashes) == 1 && vh.HashEq(*gh.BlockLocatorHashes[0], *cps[cursor].Hash))
	}
	vh.Reach("advanced")
}
