package p2p

import (
	"time"

	"github.com/bitcoin-sv/block-headers-service/config"
	"github.com/bitcoin-sv/block-headers-service/internal/zzverif/vh"
	"github.com/bitcoin-sv/block-headers-service/transports/p2p/addrmgr"
	peerpkg "github.com/bitcoin-sv/block-headers-service/transports/p2p/peer"
)

const c18Host = "10.1.2.3"

// c18State builds an arbitrary peerState around one host: the three peer maps have arbitrary
// sizes around the total limit, the host's connection counter, the group counter and the ban
// entry (present or not, any expiry) are arbitrary.
func c18State(filler *serverPeer, group string, t0 time.Time) (*peerState, int, int, bool, int64) {
	st := &peerState{inboundPeers: map[int32]*serverPeer{}, outboundPeers: map[int32]*serverPeer{}, persistentPeers: map[int32]*serverPeer{},
		banned: map[string]time.Time{}, outboundGroups: map[string]int{}, connectionCount: map[string]int{}}
	totals := []int{0, 1, config.MaxPeers - 1, config.MaxPeers, config.MaxPeers + 1}
	total := totals[vh.Choose(len(totals))]
	for i := 0; i < total; i++ {
		// ids of the fillers never collide with the peer under test (id 1_000_000)
		switch i % 3 {
		case 0:
			st.inboundPeers[int32(i)] = filler
		case 1:
			st.outboundPeers[int32(i)] = filler
		default:
			st.persistentPeers[int32(i)] = filler
		}
	}
	cnt := vh.NondetInt("hostCount")
	vh.Assume(cnt >= 0 && cnt < 1<<20)
	st.connectionCount[c18Host] = cnt
	grp := vh.NondetInt("groupCount")
	vh.Assume(grp >= 0 && grp < 1<<20)
	st.outboundGroups[group] = grp
	banned := vh.NondetBool("banned")
	// the ban ends delta seconds from now; the instants within one second of now are left out so that
	// the native replay (real clock) cannot land on the other side of the boundary
	delta := vh.NondetI64("banEndsInSeconds")
	vh.Assume(delta >= -100000 && delta <= 100000 && (delta <= -2 || delta >= 2))
	if banned {
		st.banned[c18Host] = t0.Add(time.Duration(delta) * time.Second)
	}
	return st, cnt, grp, banned, delta
}

// HarnessAdmission (C18): one add / done / ban step from an arbitrary peer state.
func HarnessAdmission() {
	log := vh.Logger()
	s := &server{log: log, p2pConfig: &config.P2PConfig{BanDuration: time.Duration(vh.Choose(3)) * time.Hour}}
	shutting := vh.NondetBool("shuttingDown")
	if shutting {
		s.shutdown = 1
	}
	inbound := vh.NondetBool("inbound")
	persistent := !inbound && vh.NondetBool("persistent")
	sp := &serverPeer{Peer: peerpkg.HarnessPeerWith(log, inbound, c18Host+":8333", 1_000_000), persistent: persistent, server: s, log: log}
	filler := &serverPeer{Peer: peerpkg.HarnessPeerWith(log, true, "10.9.9.9:8333", 7), log: log}
	group := addrmgr.GroupKey(sp.NA())
	t0 := vh.Now()
	st, cnt, grp, banned, delta := c18State(filler, group, t0)
	total := st.Count()

	admitted := s.handleAddPeerMsg(st, sp)

	t1 := vh.Now()
	vh.Assume(t1.Unix()-t0.Unix() <= 1) // the step itself takes no noticeable time
	banActive := banned && delta >= 2
	want := !shutting && !banActive && cnt < config.MaxPeersPerIP && total < config.MaxPeers
	vh.Observe("admitted", admitted)
	vh.Assert("C18/admitted-iff-not-banned-and-below-both-limits", admitted == want)
	if !admitted {
		vh.Assert("C18/refused-peer-is-disconnected", peerpkg.HarnessDisconnected(sp.Peer))
		vh.Assert("C18/refusal-changes-no-counter", st.Count() == total && st.connectionCount[c18Host] == cnt && st.outboundGroups[group] == grp)
		if banned && !shutting {
			_, still := st.banned[c18Host]
			vh.Assert("C18/ban-kept-until-expiry-then-dropped", still == banActive)
		}
		// the refused peer was disconnected, so its done event follows: it was never counted
		s.handleDonePeerMsg(st, sp)
		vh.Assert("C18/refused-peer-leaving-changes-no-counter", st.Count() == total && st.connectionCount[c18Host] == cnt && st.outboundGroups[group] == grp)
		vh.Reach("refused")
		return
	}
	vh.Assert("C18/never-above-total-limit", st.Count() == total+1 && st.Count() <= config.MaxPeers)
	wantCnt, wantGrp := cnt, grp
	if !persistent {
		wantCnt = cnt + 1
	}
	if !inbound {
		wantGrp = grp + 1
	}
	vh.Assert("C18/admission-counts-host-and-group", st.connectionCount[c18Host] == wantCnt && st.outboundGroups[group] == wantGrp)
	vh.Assert("C18/never-above-per-host-limit", persistent || st.connectionCount[c18Host] <= config.MaxPeersPerIP)
	_, stillBanned := st.banned[c18Host]
	vh.Assert("C18/expired-ban-is-dropped-on-admission", !stillBanned)

	// the peer leaves again: every counter returns to where it was
	s.handleDonePeerMsg(st, sp)
	vh.Assert("C18/counters-return-when-peer-leaves", st.Count() == total && st.connectionCount[c18Host] == cnt && st.outboundGroups[group] == grp)

	// a ban starts now and lasts exactly the configured duration
	b0 := vh.Now()
	s.handleBanPeerMsg(st, sp.Peer)
	b1 := vh.Now()
	end, isBanned := st.banned[c18Host]
	dur := int64(s.p2pConfig.BanDuration / time.Second)
	vh.Assert("C18/ban-lasts-the-configured-duration", isBanned && end.Unix() >= b0.Unix()+dur && end.Unix() <= b1.Unix()+dur)
	vh.Reach("admitted")
}

// HarnessBan (C18): a ban step from an arbitrary peer state - the host may already have a ban
// entry, expired or still running (a second misbehaving peer of the same host). Afterwards the
// host is banned from now for exactly the configured duration, and a connection from it inside
// that time is refused.
func HarnessBan() {
	log := vh.Logger()
	s := &server{log: log, p2pConfig: &config.P2PConfig{BanDuration: time.Duration(1+vh.Choose(2)) * time.Hour}}
	sp := &serverPeer{Peer: peerpkg.HarnessPeerWith(log, vh.NondetBool("inbound"), c18Host+":8333", 1_000_000), server: s, log: log}
	filler := &serverPeer{Peer: peerpkg.HarnessPeerWith(log, true, "10.9.9.9:8333", 7), log: log}
	group := addrmgr.GroupKey(sp.NA())
	t0 := vh.Now()
	st, cnt, grp, _, _ := c18State(filler, group, t0)
	total := st.Count()

	b0 := vh.Now()
	s.handleBanPeerMsg(st, sp.Peer)
	b1 := vh.Now()
	vh.Assume(b1.Unix()-t0.Unix() <= 1)
	end, isBanned := st.banned[c18Host]
	dur := int64(s.p2pConfig.BanDuration / time.Second)
	vh.Assert("C18/ban-runs-from-the-latest-ban", isBanned && end.Unix() >= b0.Unix()+dur && end.Unix() <= b1.Unix()+dur)
	vh.Assert("C18/ban-changes-no-counter", st.Count() == total && st.connectionCount[c18Host] == cnt && st.outboundGroups[group] == grp)

	// another peer of that host tries to connect while the ban runs
	sp2 := &serverPeer{Peer: peerpkg.HarnessPeerWith(log, true, c18Host+":18333", 1_000_001), server: s, log: log}
	admitted := s.handleAddPeerMsg(st, sp2)
	t2 := vh.Now()
	vh.Assume(t2.Unix()-b1.Unix() <= 1)
	vh.Assert("C18/banned-host-is-refused-while-the-ban-runs", !admitted && peerpkg.HarnessDisconnected(sp2.Peer))
	vh.Reach("end")
}

// HarnessBanOtherHost (C18): a ban of one host leaves the running bans of other hosts alone.
// Host B has a running ban (ending two minutes or a day from now); host A is banned (A may have an entry
// of its own, expired or running); afterwards B's entry is unchanged and B is still refused.
func HarnessBanOtherHost() {
	log := vh.Logger()
	s := &server{log: log, p2pConfig: &config.P2PConfig{BanDuration: time.Hour}}
	st := &peerState{inboundPeers: map[int32]*serverPeer{}, outboundPeers: map[int32]*serverPeer{}, persistentPeers: map[int32]*serverPeer{},
		banned: map[string]time.Time{}, outboundGroups: map[string]int{}, connectionCount: map[string]int{}}
	const other = "10.7.7.7"
	t0 := vh.Now()
	otherEnd := t0.Add(time.Duration([]int64{120, 86400}[vh.Choose(2)]) * time.Second)
	st.banned[other] = otherEnd
	switch vh.Choose(3) { // host A's own entry: none, expired, running
	case 1:
		st.banned[c18Host] = t0.Add(-5 * time.Second)
	case 2:
		st.banned[c18Host] = t0.Add(500 * time.Second)
	}
	sp := &serverPeer{Peer: peerpkg.HarnessPeerWith(log, vh.NondetBool("inbound"), c18Host+":8333", 1_000_000), server: s, log: log}

	s.handleBanPeerMsg(st, sp.Peer)

	t1 := vh.Now()
	vh.Assume(t1.Unix()-t0.Unix() <= 1)
	e, ok := st.banned[other]
	vh.Assert("C18/ban-of-one-host-leaves-running-bans-of-others", ok && e.Unix() == otherEnd.Unix())
	sp3 := &serverPeer{Peer: peerpkg.HarnessPeerWith(log, true, other+":8333", 1_000_002), server: s, log: log}
	admitted := s.handleAddPeerMsg(st, sp3)
	t2 := vh.Now()
	vh.Assume(t2.Unix()-t1.Unix() <= 1)
	vh.Assert("C18/banned-host-is-refused-while-the-ban-runs", !admitted && peerpkg.HarnessDisconnected(sp3.Peer))
	vh.Reach("end")
}

var c18Hosts = []string{"10.1.2.3", "10.2.3.4"}

// c18Consistent: the per-host counters count exactly the listed non-persistent peers of each
// host, the group counter counts exactly the listed outbound (incl. persistent) peers, and no
// counter is negative - the bookkeeping invariant every admission decision relies on.
func c18Consistent(st *peerState, group string) bool {
	cs := []bool{}
	for _, h := range c18Hosts {
		n := 0
		for _, sp := range st.inboundPeers {
			if sp.Addr() == h+":8333" {
				n++
			}
		}
		for _, sp := range st.outboundPeers {
			if sp.Addr() == h+":8333" {
				n++
			}
		}
		cs = append(cs, st.connectionCount[h] == n)
	}
	cs = append(cs, st.outboundGroups[group] == len(st.outboundPeers)+len(st.persistentPeers))
	return vh.And(cs...)
}

// HarnessPeerStateStep (C18): the bookkeeping invariant is inductive. From every consistent
// state of k listed peers (each inbound / outbound / persistent, on one of two hosts) one
// arbitrary event - a new peer of any kind asking for admission, a listed peer leaving, a peer
// that was never admitted leaving, a ban - leaves the counters consistent with the lists.
// Since the pre-state is arbitrary, histories of any length follow by induction.
func HarnessPeerStateStep(k int) {
	log := vh.Logger()
	s := &server{log: log, p2pConfig: &config.P2PConfig{BanDuration: time.Hour}}
	st := &peerState{inboundPeers: map[int32]*serverPeer{}, outboundPeers: map[int32]*serverPeer{}, persistentPeers: map[int32]*serverPeer{},
		banned: map[string]time.Time{}, outboundGroups: map[string]int{}, connectionCount: map[string]int{}}
	mk := func(id int32) *serverPeer {
		kind := vh.Choose(3) // 0 inbound, 1 outbound, 2 persistent outbound
		host := c18Hosts[vh.Choose(len(c18Hosts))]
		return &serverPeer{Peer: peerpkg.HarnessPeerWith(log, kind == 0, host+":8333", id), persistent: kind == 2, server: s, log: log}
	}
	var group string
	listed := make([]*serverPeer, k)
	for i := range listed {
		sp := mk(int32(i + 1))
		listed[i] = sp
		group = addrmgr.GroupKey(sp.NA())
		host := sp.Addr()[:len(sp.Addr())-len(":8333")]
		switch {
		case sp.Inbound():
			st.inboundPeers[sp.ID()] = sp
			st.connectionCount[host]++
		case sp.persistent:
			st.persistentPeers[sp.ID()] = sp
			st.outboundGroups[group]++
		default:
			st.outboundPeers[sp.ID()] = sp
			st.connectionCount[host]++
			st.outboundGroups[group]++
		}
	}
	fresh := mk(1000)
	group = addrmgr.GroupKey(fresh.NA())
	vh.Assume(c18Consistent(st, group))
	switch vh.Choose(4) {
	case 0:
		admitted := s.handleAddPeerMsg(st, fresh)
		vh.Observe("admitted", admitted)
		if !admitted {
			s.handleDonePeerMsg(st, fresh) // a refused peer is disconnected: its done event follows
		}
	case 1:
		if k > 0 {
			s.handleDonePeerMsg(st, listed[vh.Choose(k)])
		}
	case 2:
		s.handleDonePeerMsg(st, fresh) // never admitted
	case 3:
		s.handleBanPeerMsg(st, fresh.Peer)
	}
	vh.Assert("C18/counters-always-match-the-peer-lists", c18Consistent(st, group))
	vh.Assert("C18/never-above-per-host-limit", st.connectionCount[c18Hosts[0]] <= config.MaxPeersPerIP && st.connectionCount[c18Hosts[1]] <= config.MaxPeersPerIP)
	vh.Reach("end")
}
