package p2p

// Registry lists the harness entry points of this package for native replay.
var Registry = map[string]func([]int64){
	"HarnessAdmission":     func([]int64) { HarnessAdmission() },
	"HarnessBan":           func([]int64) { HarnessBan() },
	"HarnessBanOtherHost":  func([]int64) { HarnessBanOtherHost() },
	"HarnessPeerStateStep": func(a []int64) { HarnessPeerStateStep(int(a[0])) },
}
