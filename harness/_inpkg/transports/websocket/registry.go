package websocket

// Registry lists the harness entry points of this package for native replay.
var Registry = map[string]func([]int64){
	"HarnessConnect":                func(a []int64) { HarnessConnect(int(a[0]), int(a[1])) },
	"HarnessConnectAfterRevocation": func(a []int64) { HarnessConnectAfterRevocation(int(a[0])) },
}
