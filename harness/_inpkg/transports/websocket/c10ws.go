package websocket

import (
	"github.com/bitcoin-sv/block-headers-service/internal/zzverif/c10"
	"github.com/bitcoin-sv/block-headers-service/internal/zzverif/hstore"
	"github.com/bitcoin-sv/block-headers-service/internal/zzverif/vh"
	"github.com/bitcoin-sv/block-headers-service/internal/zzverif/vhws"
	"github.com/bitcoin-sv/block-headers-service/service"
)

// HarnessConnect (C10): the websocket connect handshake accepts a token iff authentication is off,
// or it is the admin token or a stored token - the same set the HTTP API accepts.
func HarnessConnect(k int, authOn int) {
	admin := vh.NondetStr("admin")
	vh.Assume(!vh.StrEq(admin, ""))
	db, toks := c10.Table(k, admin)
	svc := service.NewTokenService(hstore.Repos(db), admin)
	s := &server{node: vhws.NewNode(), isAuthRequired: authOn == 1, tokens: svc, log: vh.Logger()}
	s.setupNode()
	tok := vh.NondetStr("token")
	accepted := vhws.Connecting(s.node, tok)
	known := vh.StrEq(tok, admin)
	for i := range toks {
		known = vh.Or(known, vh.StrEq(tok, toks[i]))
	}
	vh.Observe("accepted", accepted)
	if authOn == 1 {
		vh.Assert("C10/websocket-handshake-accepts-iff-token-valid", vh.Iff(accepted, known))
	} else {
		vh.Assert("C10/websocket-handshake-open-when-auth-off", accepted)
	}
	vh.Reach("end")
}

// HarnessConnectAfterRevocation (C10): the handshake decides afresh on every connect. A stored
// token connects (accepted), is revoked through the token service (what DELETE /access/:token
// calls), and is presented on a new connect: refused; the other stored tokens still connect.
func HarnessConnectAfterRevocation(k int) {
	admin := vh.NondetStr("admin")
	vh.Assume(!vh.StrEq(admin, ""))
	db, toks := c10.Table(k, admin)
	svc := service.NewTokenService(hstore.Repos(db), admin)
	s := &server{node: vhws.NewNode(), isAuthRequired: true, tokens: svc, log: vh.Logger()}
	s.setupNode()
	victim := toks[vh.Choose(k)]
	vh.Assert("C10/websocket-handshake-accepts-iff-token-valid", vhws.Connecting(s.node, victim))
	vh.Assert("C10/revoke-succeeds", svc.DeleteToken(victim) == nil)
	again := vhws.Connecting(s.node, victim)
	vh.Observe("accepted_after_revocation", again)
	vh.Assert("C10/revoked-token-never-authenticates-afterwards", !again)
	for i := range toks {
		if toks[i] != victim {
			vh.Assert("C10/other-tokens-unaffected-by-revocation", vhws.Connecting(s.node, toks[i]))
		}
	}
	vh.Reach("end")
}
