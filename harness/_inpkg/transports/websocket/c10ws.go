package websocket

import (
	"github.com/bitcoin-sv/block-headers-service/internal/zzverif/c10"
	"github.com/bitcoin-sv/block-headers-service/internal/zzverif/hstore"
	"github.com/bitcoin-sv/block-headers-service/internal/zzverif/vh"
	"github.com/bitcoin-sv/block-headers-service/internal/zzverif/vhws"
	"github.com/bitcoin-sv/block-headers-service/service"
)

// HarnessConnect (C10): the websocket connect handshake accepts a token iff authentication is off,
// or it is the admin token or a stored token - the same set the HTTP API accepts.
func HarnessConnect(k int, authOn int) {
	admin := vh.NondetStr("admin")
	vh.Assume(!vh.StrEq(admin, ""))
	db, toks := c10.Table(k, admin)
	svc := service.NewTokenService(hstore.Repos(db), admin)
	s := &server{node: vhws.NewNode(), isAuthRequired: authOn == 1, tokens: svc, log: vh.Logger()}
	s.setupNode()
	tok := vh.NondetStr("token")
	accepted := vhws.Connecting(s.node, tok)
	known := vh.StrEq(tok, admin)
	for i := range toks {
		known = vh.Or(known, vh.StrEq(tok, toks[i]))
	}
	vh.Observe("accepted", accepted)
	if authOn == 1 {
		vh.Assert("C10/websocket-handshake-accepts-iff-token-valid", vh.Iff(accepted, known))
	} else {
		vh.Assert("C10/websocket-handshake-open-when-auth-off", accepted)
	}
	vh.Reach("end")
}
