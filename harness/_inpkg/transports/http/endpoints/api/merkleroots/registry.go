package merkleroots

// Registry lists the harness entry points of this package for native replay.
var Registry = map[string]func([]int64){
	"HarnessVerify": func(a []int64) { HarnessVerify(int(a[0]), int(a[1])) },
}
