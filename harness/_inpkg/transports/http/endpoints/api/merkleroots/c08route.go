//vh:optional
package merkleroots

import (
	"strconv"

	"github.com/bitcoin-sv/block-headers-service/config"
	"github.com/bitcoin-sv/block-headers-service/internal/zzverif/hstore"
	"github.com/bitcoin-sv/block-headers-service/internal/zzverif/vh"
	"github.com/bitcoin-sv/block-headers-service/internal/zzverif/vhgin"
	"github.com/bitcoin-sv/block-headers-service/service"
)

// HarnessListRoute (C08): the listing endpoint is the listing service call on the request's
// numbers. The service half (which blocks a page holds) is the C08 step / walk harnesses; this is
// the other half: for an arbitrary store, a page size from a menu of numerals (one and two digits,
// sorting before and after the default "2000" as text; absent = the default) and a key that is
// absent or one of the stored merkle roots, GET merkleroot answers with exactly the page the
// service returns for (page size, key), or with an error when the service refuses the key.
// slice 1: every row on the longest chain, no key, the one-digit page sizes that are smaller than
// k but sort after the default as text (a store of k = 4..5 rows is needed to tell a page of 3
// from a page of 2000).
func HarnessListRoute(k int, slice int) {
	pre := make([]hstore.H, k)
	for i := range pre {
		pre[i] = hstore.NondetH()
		if slice == 1 {
			vh.Assume(pre[i].State == hstore.L)
		}
	}
	vh.Assume(hstore.Inv(pre, nil))
	db := hstore.Store(pre)
	svc := service.NewMerklerootsService(hstore.Repos(db), &config.MerkleRootConfig{MaxBlockHeightExcess: 6}, vh.Logger())
	h := &handler{service: svc, log: vh.Logger()}
	e := vhgin.NewEngine()
	e.GET("/merkleroot", h.merkleroots)

	sizes := []string{"", "1", "2", "3", "9", "21", "100"}
	if slice == 1 {
		sizes = []string{"3"}
	}
	size := sizes[vh.Choose(len(sizes))]
	n := 2000
	q := map[string]string{}
	if size != "" {
		q["batchSize"] = size
		n, _ = strconv.Atoi(size)
	}
	key := ""
	if c := vh.Choose(k + 1); c < k && slice != 1 {
		key = pre[c].Merkle.String()
		q["lastEvaluatedKey"] = key
	}
	want, err := svc.GetMerkleRoots(n, key)

	resp := vhgin.Serve(e, "GET", "/merkleroot", vhgin.Req{Query: q})

	vh.Observe("status", resp.Status)
	if err == nil {
		vh.Assert("C08/listing-route-answers-with-the-requested-page", resp.Status == 200 && vhgin.BodyIs(resp, want))
	} else {
		vh.Assert("C08/listing-route-answers-with-the-requested-page", resp.Status >= 400 && resp.Status < 500)
	}
	vh.Reach("end")
}

func init() {
	Registry["HarnessListRoute"] = func(a []int64) { HarnessListRoute(int(a[0]), int(a[1])) }
}
