package merkleroots

import (
	"github.com/bitcoin-sv/block-headers-service/config"
	"github.com/bitcoin-sv/block-headers-service/domains"
	"github.com/bitcoin-sv/block-headers-service/internal/zzverif/hstore"
	"github.com/bitcoin-sv/block-headers-service/internal/zzverif/vh"
	"github.com/bitcoin-sv/block-headers-service/service"
)

// HarnessVerify (C02): on an arbitrary INV-H store, for an arbitrary request list of n items
// and an arbitrary configured excess, the verdicts are exactly the specified ones, in
// request order, the overall verdict is the worst one, and the store is untouched.
func HarnessVerify(k int, n int) {
	pre := make([]hstore.H, k)
	for i := range pre {
		pre[i] = hstore.NondetH()
	}
	vh.Assume(hstore.Inv(pre, nil))
	db := hstore.Store(pre)
	excess := vh.NondetInt("excess")
	svc := service.NewMerklerootsService(hstore.Repos(db), &config.MerkleRootConfig{MaxBlockHeightExcess: excess}, vh.Logger())
	req := make([]domains.MerkleRootConfirmationRequestItem, n)
	for i := range req {
		req[i] = domains.MerkleRootConfirmationRequestItem{MerkleRoot: vh.NondetStr("root"), BlockHeight: vh.NondetI32("qheight")}
	}

	out, err := svc.GetMerkleRootsConfirmations(req)

	vh.Assert("C02/answered", err == nil)
	if err != nil {
		return
	}
	vh.Assert("C02/one-verdict-per-item", len(out) == n)
	if len(out) != n {
		return
	}
	resp := mapToMerkleRootsConfirmationsResponses(out)
	vh.Assert("C02/one-verdict-per-item", len(resp.Confirmations) == n)
	if len(resp.Confirmations) != n {
		return
	}
	// tip height of the longest chain
	tipH := int32(0)
	for i := range pre {
		tipH = vh.IteI32(vh.And(pre[i].State == hstore.L, pre[i].Height > tipH), pre[i].Height, tipH)
	}
	anyInvalid, anyUnable := false, false
	for i := 0; i < n; i++ {
		conf := false
		hash := ""
		for j := range pre {
			m := vh.And(pre[j].State == hstore.L, pre[j].Height == req[i].BlockHeight, vh.StrEq(pre[j].Merkle.String(), req[i].MerkleRoot))
			conf = vh.Or(conf, m)
			hash = vh.IteStr(m, pre[j].Hash.String(), hash)
		}
		// distance above the tip in unbounded arithmetic (64-bit holds any int32 difference)
		above := int64(req[i].BlockHeight) - int64(tipH)
		unable := vh.And(!conf, above > 0, above <= int64(excess))
		want := vh.IteStr(conf, "CONFIRMED", vh.IteStr(unable, "UNABLE_TO_VERIFY", "INVALID"))
		got := resp.Confirmations[i]
		vh.Observe("verdict", string(got.Confirmation))
		vh.Assert("C02/verdict", vh.StrEq(string(got.Confirmation), want))
		vh.Assert("C02/echo-in-order", vh.And(vh.StrEq(got.MerkleRoot, req[i].MerkleRoot), got.BlockHeight == req[i].BlockHeight))
		vh.Assert("C02/block-hash", vh.StrEq(got.Hash, hash))
		anyInvalid = vh.Or(anyInvalid, vh.And(!conf, !unable))
		anyUnable = vh.Or(anyUnable, unable)
	}
	overall := vh.IteStr(anyInvalid, "INVALID", vh.IteStr(anyUnable, "UNABLE_TO_VERIFY", "CONFIRMED"))
	vh.Assert("C02/overall-is-worst", vh.StrEq(string(resp.ConfirmationState), overall))
	post, ok := hstore.Load(db)
	vh.Assert("C02/store-untouched", vh.And(ok, len(post) == k))
	if ok && len(post) == k {
		for i := range pre {
			vh.Assert("C02/store-untouched", vh.And(hstore.SameButState(pre[i], post[i]), pre[i].State == post[i].State))
		}
	}
	vh.Reach("end")
}
