package tips

// Registry lists the harness entry points of this package for native replay.
var Registry = map[string]func([]int64){
	"HarnessMapTip": func(a []int64) { HarnessMapTip(int(a[0])) },
}
