package tips

import (
	"math/big"

	"github.com/bitcoin-sv/block-headers-service/domains"
	"github.com/bitcoin-sv/block-headers-service/internal/zzverif/vh"
)

func anyHeader() *domains.BlockHeader {
	states := []domains.HeaderState{domains.LongestChain, domains.Stale, domains.Orphan}
	w, cw := vh.NondetBig("work"), vh.NondetBig("cumulated")
	vh.Assume(vh.And(vh.BigLe(big.NewInt(0), w), vh.BigLe(big.NewInt(0), cw)))
	return &domains.BlockHeader{Height: vh.NondetI32("height"), Hash: vh.NondetHash("hash"), Version: vh.NondetI32("version"),
		MerkleRoot: vh.NondetHash("merkle"), Timestamp: vh.NondetTime("ts"), Bits: vh.NondetU32("bits"), Nonce: vh.NondetU32("nonce"),
		State: states[vh.Choose(3)], Chainwork: w, CumulatedWork: cw, PreviousBlock: vh.NondetHash("prev")}
}

func sameTip(r TipStateResponse, h *domains.BlockHeader) bool {
	return vh.And(vh.StrEq(r.Header.Hash, h.Hash.String()), r.Header.Version == h.Version, vh.StrEq(r.Header.PreviousBlock, h.PreviousBlock.String()),
		vh.StrEq(r.Header.MerkleRoot, h.MerkleRoot.String()), int64(r.Header.Timestamp) == h.Timestamp.Unix(), r.Header.DifficultyTarget == h.Bits,
		r.Header.Nonce == h.Nonce, vh.BigEq(r.Header.Work, h.Chainwork), vh.StrEq(r.State, string(h.State)), vh.BigEq(r.ChainWork, h.CumulatedWork), r.Height == h.Height)
}

// HarnessMapTip (C04): what the tips endpoints put into their JSON documents is the stored
// header, field by field, list order and length kept.
func HarnessMapTip(n int) {
	hs := make([]*domains.BlockHeader, n)
	for i := range hs {
		hs[i] = anyHeader()
		vh.Assume(hs[i].Timestamp.Unix() >= 0 && hs[i].Timestamp.Unix() < 1<<32)
	}
	vh.Assert("C04/tip-response-carries-the-stored-fields", sameTip(newTipStateResponse(hs[0]), hs[0]))
	list := mapToTipStateResponse(hs)
	vh.Assert("C04/tips-response-keeps-length-and-order", len(list) == n)
	if len(list) == n {
		for i := range list {
			vh.Assert("C04/tips-response-keeps-length-and-order", sameTip(list[i], hs[i]))
		}
	}
	vh.Reach("end")
}
