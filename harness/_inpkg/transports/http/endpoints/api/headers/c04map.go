package headers

import (
	"math/big"

	"github.com/bitcoin-sv/block-headers-service/domains"
	"github.com/bitcoin-sv/block-headers-service/internal/zzverif/vh"
)

func anyHeader() *domains.BlockHeader {
	states := []domains.HeaderState{domains.LongestChain, domains.Stale, domains.Orphan}
	w, cw := vh.NondetBig("work"), vh.NondetBig("cumulated")
	vh.Assume(vh.And(vh.BigLe(big.NewInt(0), w), vh.BigLe(big.NewInt(0), cw)))
	return &domains.BlockHeader{Height: vh.NondetI32("height"), Hash: vh.NondetHash("hash"), Version: vh.NondetI32("version"),
		MerkleRoot: vh.NondetHash("merkle"), Timestamp: vh.NondetTime("ts"), Bits: vh.NondetU32("bits"), Nonce: vh.NondetU32("nonce"),
		State: states[vh.Choose(3)], Chainwork: w, CumulatedWork: cw, PreviousBlock: vh.NondetHash("prev")}
}

func sameResponse(r BlockHeaderResponse, h *domains.BlockHeader) bool {
	return vh.And(vh.StrEq(r.Hash, h.Hash.String()), r.Version == h.Version, vh.StrEq(r.PreviousBlock, h.PreviousBlock.String()),
		vh.StrEq(r.MerkleRoot, h.MerkleRoot.String()), int64(r.Timestamp) == h.Timestamp.Unix(), r.DifficultyTarget == h.Bits, r.Nonce == h.Nonce,
		vh.StrEq(r.Work, h.Chainwork.String()))
}

// HarnessMapHeader (C04): what the header endpoints put into their JSON documents is the stored
// header, field by field - for every header (timestamps within uint32 seconds).
func HarnessMapHeader(n int) {
	hs := make([]*domains.BlockHeader, n)
	for i := range hs {
		hs[i] = anyHeader()
		vh.Assume(hs[i].Timestamp.Unix() >= 0 && hs[i].Timestamp.Unix() < 1<<32)
	}
	one := newBlockHeaderResponse(hs[0])
	vh.Assert("C04/header-response-carries-the-stored-fields", sameResponse(one, hs[0]))
	st := newBlockHeaderStateResponse(hs[0])
	vh.Assert("C04/state-response-carries-the-stored-fields", vh.And(sameResponse(st.Header, hs[0]), vh.StrEq(st.State, string(hs[0].State)),
		vh.StrEq(st.ChainWork, hs[0].CumulatedWork.String()), st.Height == hs[0].Height))
	list := mapToBlockHeadersResponses(hs)
	vh.Assert("C04/list-response-keeps-length-and-order", len(list) == n)
	if len(list) == n {
		for i := range list {
			vh.Assert("C04/list-response-keeps-length-and-order", sameResponse(list[i], hs[i]))
		}
	}
	vh.Reach("end")
}
