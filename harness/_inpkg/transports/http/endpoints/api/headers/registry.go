package headers

// Registry lists the harness entry points of this package for native replay.
var Registry = map[string]func([]int64){
	"HarnessMapHeader": func(a []int64) { HarnessMapHeader(int(a[0])) },
}
