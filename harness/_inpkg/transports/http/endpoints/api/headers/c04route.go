//vh:optional
package headers

import (
	"strconv"

	"github.com/bitcoin-sv/block-headers-service/internal/zzverif/hstore"
	"github.com/bitcoin-sv/block-headers-service/internal/zzverif/vh"
	"github.com/bitcoin-sv/block-headers-service/internal/zzverif/vhgin"
	"github.com/bitcoin-sv/block-headers-service/service"
)

// HarnessByHeightRoute (C04): the by-height endpoint is the by-height service call on the
// request's numbers. The service half (which headers lie in the window) is HarnessByHeight; this
// is the other half: for an arbitrary store and height / count taken from small menus (count may
// be absent: one header), GET byHeight answers 200 with exactly the documents of the headers the
// service returns for (height, count) - height 0 (genesis) included.
func HarnessByHeightRoute(k int) {
	pre := make([]hstore.H, k)
	for i := range pre {
		pre[i] = hstore.NondetH()
	}
	vh.Assume(hstore.Inv(pre, nil))
	db := hstore.Store(pre)
	hs := service.NewHeaderService(hstore.Repos(db), nil, vh.Logger())
	log := vh.Logger()
	h := &handler{service: hs, log: log}
	e := vhgin.NewEngine()
	e.GET("/byHeight", h.getHeaderByHeight)

	heights := []string{"0", "1", "2", "3"}
	counts := []string{"", "1", "2", "3"}
	height, count := heights[vh.Choose(len(heights))], counts[vh.Choose(len(counts))]
	q := map[string]string{"height": height}
	n := 1
	if count != "" {
		q["count"] = count
		n, _ = strconv.Atoi(count)
	}
	hn, _ := strconv.Atoi(height)
	want, err := hs.GetHeadersByHeight(hn, n)
	vh.Assume(err == nil)

	resp := vhgin.Serve(e, "GET", "/byHeight", vhgin.Req{Query: q})

	vh.Observe("status", resp.Status)
	vh.Assert("C04/by-height-route-answers-with-the-window", resp.Status == 200 && vhgin.BodyIs(resp, mapToBlockHeadersResponses(want)))
	vh.Reach("end")
}

// HarnessHashRoutes (C04): header by hash, state by hash and ancestors answer with the documents of
// what the service returns for the request's path parameters (stored hashes or an unknown one), and
// with a client error when the service refuses.
func HarnessHashRoutes(k int) {
	pre := make([]hstore.H, k)
	for i := range pre {
		pre[i] = hstore.NondetH()
	}
	vh.Assume(hstore.Inv(pre, nil))
	var hashes, prevs []hstore.Hash
	for i := range pre {
		hashes, prevs = append(hashes, pre[i].Hash), append(prevs, pre[i].Prev)
	}
	vh.Assume(hstore.Acyclic(hashes, prevs))
	db := hstore.Store(pre)
	hs := service.NewHeaderService(hstore.Repos(db), nil, vh.Logger())
	h := &handler{service: hs, log: vh.Logger()}
	e := vhgin.NewEngine()
	e.GET("/header/:hash", h.getHeaderByHash)
	e.GET("/state/:hash", h.getHeadersState)
	e.GET("/header/:hash/:ancestorHash/ancestor", h.getHeaderAncestorsByHash)
	pick := func(what string) string {
		if c := vh.Choose(k + 1); c < k {
			return pre[c].Hash.String()
		}
		return vh.NondetHash(what).String()
	}
	hash := pick("qhash")
	switch vh.Choose(3) {
	case 0:
		want, err := hs.GetHeaderByHash(hash)
		resp := vhgin.Serve(e, "GET", "/header/:hash", vhgin.Req{Params: map[string]string{"hash": hash}})
		if err == nil {
			vh.Assert("C04/hash-routes-answer-with-the-service-result", resp.Status == 200 && vhgin.BodyIs(resp, newBlockHeaderResponse(want)))
		} else {
			vh.Assert("C04/hash-routes-answer-with-the-service-result", resp.Status >= 400 && resp.Status < 500)
		}
	case 1:
		want, err := hs.GetHeaderByHash(hash)
		resp := vhgin.Serve(e, "GET", "/state/:hash", vhgin.Req{Params: map[string]string{"hash": hash}})
		if err == nil {
			vh.Assert("C04/hash-routes-answer-with-the-service-result", resp.Status == 200 && vhgin.BodyIs(resp, newBlockHeaderStateResponse(want)))
		} else {
			vh.Assert("C04/hash-routes-answer-with-the-service-result", resp.Status >= 400 && resp.Status < 500)
		}
	default:
		anc := pick("qancestor")
		want, err := hs.GetHeaderAncestorsByHash(hash, anc)
		resp := vhgin.Serve(e, "GET", "/header/:hash/:ancestorHash/ancestor", vhgin.Req{Params: map[string]string{"hash": hash, "ancestorHash": anc}})
		if err == nil {
			vh.Assert("C04/hash-routes-answer-with-the-service-result", resp.Status == 200 && vhgin.BodyIs(resp, mapToBlockHeadersResponses(want)))
		} else {
			vh.Assert("C04/hash-routes-answer-with-the-service-result", resp.Status >= 400 && resp.Status < 500)
		}
	}
	vh.Reach("end")
}

func init() {
	Registry["HarnessByHeightRoute"] = func(a []int64) { HarnessByHeightRoute(int(a[0])) }
	Registry["HarnessHashRoutes"] = func(a []int64) { HarnessHashRoutes(int(a[0])) }
}
