// Package c03: stored identity and derived fields.
package c03

import (
	"math/big"

	"github.com/bitcoin-sv/block-headers-service/domains"
	"github.com/bitcoin-sv/block-headers-service/internal/chaincfg/chainhash"
	"github.com/bitcoin-sv/block-headers-service/internal/zzverif/hstore"
	"github.com/bitcoin-sv/block-headers-service/internal/zzverif/vh"
	"github.com/bitcoin-sv/block-headers-service/internal/zzverif/vhdb"
	"github.com/bitcoin-sv/block-headers-service/repository/dto"
	"github.com/bitcoin-sv/block-headers-service/service"
)

func src() domains.BlockHeaderSource {
	return domains.BlockHeaderSource{Version: vh.NondetI32("version"), PrevBlock: vh.NondetHash("prev"), MerkleRoot: vh.NondetHash("merkle"),
		Timestamp: vh.NondetTime("ts"), Bits: vh.NondetU32("bits"), Nonce: vh.NondetU32("nonce")}
}

func le32(b []byte, v uint32) []byte { return append(b, byte(v), byte(v>>8), byte(v>>16), byte(v>>24)) }

// HarnessHash: the block hash is SHA-256(SHA-256(80-byte serialisation)) with the layout
// version | previous hash | merkle root | time | bits | nonce, integers little-endian, written
// here independently of internal/wire. Full field domain.
func HarnessHash() {
	bs := src()
	got := service.DefaultBlockHasher().BlockHash(&bs)
	var b []byte
	b = le32(b, uint32(bs.Version))
	b = append(b, bs.PrevBlock[:]...)
	b = append(b, bs.MerkleRoot[:]...)
	b = le32(b, uint32(bs.Timestamp.Unix()))
	b = le32(b, bs.Bits)
	b = le32(b, bs.Nonce)
	vh.Assert("C03/serialisation-is-80-bytes", len(b) == 80)
	first := vh.Sha256(b)
	want := chainhash.Hash(vh.Sha256(first[:]))
	vh.Assert("C03/hash-is-double-sha256-of-80-byte-layout", vh.HashEq(chainhash.Hash(got), want))
	vh.Reach("end")
}

// BitsMenu: see c01.BitsMenu.
var BitsMenu = []uint32{0x00000000, 0x1d80ffff, 0x03000001, 0x1d00ffff, 0x207fffff, 0x1c00ffff}

// HarnessDerived: height = parent height + 1, cumulative work = parent's + own, state by the parent's
// state; an unknown parent gives height 1 and only the header's own work. Every received field is kept.
func HarnessDerived() {
	bs := src()
	bs.Bits = BitsMenu[vh.Choose(len(BitsMenu))]
	hash := domains.BlockHash(vh.NondetHash("hash"))
	known := vh.NondetBool("parentKnown")
	var ph *domains.BlockHeader
	pstate := vh.NondetU8("pstate")
	vh.Assume(pstate <= hstore.O)
	pcw := vh.NondetBig("pcw")
	vh.Assume(vh.BigLe(big.NewInt(0), pcw))
	pheight := vh.NondetI32("pheight")
	vh.Assume(vh.And(pheight >= 0, pheight < hstore.MaxHeight))
	if known {
		ph = &domains.BlockHeader{Height: pheight, State: domains.HeaderState(hstore.StateName(pstate)), CumulatedWork: pcw, Chainwork: big.NewInt(0)}
	} else {
		ph = domains.NewOrphanPreviousBlockHeader()
	}
	h := domains.CreateHeader(&hash, &bs, ph)
	w := domains.CalculateWork(bs.Bits).BigInt()
	vh.Assert("C03/received-fields-kept", vh.And(vh.HashEq(h.Hash, chainhash.Hash(hash)), vh.HashEq(h.PreviousBlock, bs.PrevBlock), vh.HashEq(h.MerkleRoot, bs.MerkleRoot),
		h.Version == bs.Version, h.Bits == bs.Bits, h.Nonce == bs.Nonce, h.Timestamp.Unix() == bs.Timestamp.Unix()))
	vh.Assert("C03/own-work", vh.BigEq(h.Chainwork, w))
	if known {
		vh.Assert("C03/height-is-parent-plus-one", h.Height == pheight+1)
		vh.Assert("C03/cumulative-work-is-parents-plus-own", vh.BigEq(h.CumulatedWork, new(big.Int).Add(pcw, w)))
		want := vh.IteStr(pstate == hstore.O, "ORPHAN", vh.IteStr(pstate == hstore.L, "LONGEST_CHAIN", "STALE"))
		vh.Assert("C03/state-follows-parent", vh.StrEq(string(h.State), want))
	} else {
		vh.Assert("C03/unknown-parent-height-1", h.Height == 1)
		vh.Assert("C03/unknown-parent-own-work-only", vh.BigEq(h.CumulatedWork, w))
		vh.Assert("C03/unknown-parent-orphan", vh.StrEq(string(h.State), "ORPHAN"))
	}
	vh.Reach("end")
}

// HarnessRoundTrip: a header written through the repository and read back by hash is unchanged
// in every field (catches swapped columns, fields or placeholders), next to k arbitrary other rows.
func HarnessRoundTrip(k int) {
	pre := make([]hstore.H, k)
	for i := range pre {
		pre[i] = hstore.NondetH()
	}
	vh.Assume(hstore.Inv(pre, nil))
	db := hstore.Store(pre)
	repos := hstore.Repos(db)
	h := hstore.NondetH()
	vh.Assume(vh.And(h.State <= hstore.O, vh.BigLe(big.NewInt(0), h.W), vh.BigLe(big.NewInt(0), h.CW)))
	for i := range pre {
		vh.Assume(!vh.HashEq(pre[i].Hash, h.Hash))
	}
	in := domains.BlockHeader{Height: h.Height, Hash: h.Hash, Version: h.Version, MerkleRoot: h.Merkle, Timestamp: h.Ts, Bits: h.Bits, Nonce: h.Nonce,
		State: domains.HeaderState(hstore.StateName(h.State)), Chainwork: h.W, CumulatedWork: h.CW, PreviousBlock: h.Prev}
	err := repos.Headers.AddHeaderToDatabase(in)
	vh.Assert("C03/stored", err == nil)
	out, err2 := repos.Headers.GetHeaderByHash(h.Hash.String())
	vh.Assert("C03/read-back", vh.And(err2 == nil, out != nil))
	if out != nil {
		vh.Assert("C03/round-trip-exact", vh.And(vh.HashEq(out.Hash, h.Hash), vh.HashEq(out.PreviousBlock, h.Prev), vh.HashEq(out.MerkleRoot, h.Merkle),
			out.Height == h.Height, out.Version == h.Version, out.Bits == h.Bits, out.Nonce == h.Nonce, out.Timestamp.Unix() == h.Ts.Unix(),
			vh.BigEq(out.Chainwork, h.W), vh.BigEq(out.CumulatedWork, h.CW), vh.StrEq(string(out.State), hstore.StateName(h.State))))
	}
	rows := vhdb.HeaderRows(db)
	vh.Assert("C03/exactly-one-row-added", len(rows) == k+1)
	if len(rows) == k+1 {
		for i := range pre {
			r, ok := hstore.FromRow(rows[i])
			vh.Assert("C03/other-rows-untouched", vh.And(ok, hstore.SameButState(pre[i], r), pre[i].State == r.State))
		}
	}
	_ = dto.DbBlockHeader{}
	vh.Reach("end")
}

// HarnessWriteStatements: every statement in the working tree that writes the headers table,
// executed with arbitrary arguments on an arbitrary table, removes no row and changes no column
// but the chain-state label.
func HarnessWriteStatements(k int) {
	n := vhdb.NumWriteStatements("headers")
	vh.Assert("C03/write-statements-found", n >= 2)
	i := vh.Choose(n)
	pre := make([]hstore.H, k)
	for j := range pre {
		pre[j] = hstore.NondetH()
	}
	vh.Assume(hstore.Inv(pre, nil))
	db := hstore.Store(pre)
	vhdb.ExecWriteStatement(db, "headers", i)
	rows := vhdb.HeaderRows(db)
	vh.Assert("C03/no-header-disappears", len(rows) >= k)
	if len(rows) >= k {
		for j := range pre {
			r, ok := hstore.FromRow(rows[j])
			vh.Assert("C03/only-state-label-changes", vh.And(ok, hstore.SameButState(pre[j], r)))
		}
	}
	vh.Reach("end")
}
