package c03

// Registry lists the harness entry points of this package for native replay.
var Registry = map[string]func([]int64){
	"HarnessHash":            func([]int64) { HarnessHash() },
	"HarnessDerived":         func([]int64) { HarnessDerived() },
	"HarnessRoundTrip":       func(a []int64) { HarnessRoundTrip(int(a[0])) },
	"HarnessWriteStatements": func(a []int64) { HarnessWriteStatements(int(a[0])) },
}
