// Package c08: one page of the merkle-root listing, from an arbitrary store, key and page size.
package c08

import (
	"errors"

	"github.com/bitcoin-sv/block-headers-service/domains"
	"github.com/bitcoin-sv/block-headers-service/internal/chaincfg"
	"github.com/bitcoin-sv/block-headers-service/internal/chaincfg/chainhash"

	"github.com/bitcoin-sv/block-headers-service/bhserrors"
	"github.com/bitcoin-sv/block-headers-service/config"
	"github.com/bitcoin-sv/block-headers-service/internal/zzverif/hstore"
	"github.com/bitcoin-sv/block-headers-service/internal/zzverif/vh"
	"github.com/bitcoin-sv/block-headers-service/service"
)

func status(err error) int {
	var xe bhserrors.ExtendedError
	if errors.As(err, &xe) && xe != nil {
		return xe.GetStatusCode()
	}
	return 500
}

// HarnessPage: the page lemma. Walking from "" with each page's last key visits the longest chain
// exactly once in ascending height because (i) the first page starts at height 0, (ii) a page with
// key = root at height x holds heights x+1.. in order, at most `batch`, only longest-chain rows,
// (iii) the returned key is empty iff the page is empty or ends at the tip, else the last root.
func HarnessPage(k int) {
	pre := make([]hstore.H, k)
	for i := range pre {
		pre[i] = hstore.NondetH()
	}
	vh.Assume(hstore.Inv(pre, nil))
	for i := range pre {
		for j := 0; j < i; j++ {
			vh.Assume(!vh.HashEq(pre[i].Merkle, pre[j].Merkle)) // precondition of the statement
		}
	}
	db := hstore.Store(pre)
	svc := service.NewMerklerootsService(hstore.Repos(db), &config.MerkleRootConfig{}, vh.Logger())
	batch := vh.NondetInt("batch")
	vh.Assume(batch >= 0) // the handler refuses negative and non-numeric sizes (C16)
	key := vh.NondetStr("key")

	page, err := svc.GetMerkleRoots(batch, key)

	checkPage(pre, batch, key, page, err)
}

// checkPage asserts the page lemma for one answer against the stored rows.
func checkPage(pre []hstore.H, batch int, key string, page *domains.MerkleRootsESKPagedResponse, err error) {
	// classification of the key
	keyEmpty := vh.StrEq(key, "")
	matches, matchesLongest := false, false
	start := int32(-1)
	for i := range pre {
		m := vh.StrEq(pre[i].Merkle.String(), key)
		matches = vh.Or(matches, m)
		matchesLongest = vh.Or(matchesLongest, vh.And(m, pre[i].State == hstore.L))
		start = vh.IteI32(m, pre[i].Height, start)
	}
	tipH := int32(0)
	for i := range pre {
		tipH = vh.IteI32(vh.And(pre[i].State == hstore.L, pre[i].Height > tipH), pre[i].Height, tipH)
	}
	vh.Assert("C08/ok-iff-key-empty-or-longest", vh.Iff(err == nil, vh.Or(keyEmpty, matchesLongest)))
	if err != nil {
		vh.Assert("C08/unknown-key-404", vh.Implies(vh.And(!keyEmpty, !matches), status(err) == 404))
		vh.Assert("C08/non-longest-key-409", vh.Implies(vh.And(matches, !matchesLongest), status(err) == 409))
		vh.Reach("error")
		return
	}
	if page == nil {
		vh.Assert("C08/page-returned", false)
		return
	}
	n := len(page.Content)
	vh.Observe("n", n)
	remaining := int64(tipH) - int64(start)
	wantN := vh.IteI64(int64(batch) < remaining, int64(batch), remaining)
	vh.Assert("C08/page-length", int64(n) == wantN)
	vh.Assert("C08/at-most-batch", n <= batch)
	for j := 0; j < n; j++ {
		e := page.Content[j]
		vh.Assert("C08/ascending-consecutive", e.BlockHeight == start+1+int32(j))
		isLongestRow := false
		for i := range pre {
			isLongestRow = vh.Or(isLongestRow, vh.And(pre[i].State == hstore.L, pre[i].Height == e.BlockHeight, vh.StrEq(pre[i].Merkle.String(), e.MerkleRoot)))
		}
		vh.Assert("C08/only-longest-chain-rows", isLongestRow)
	}
	if n == 0 {
		vh.Assert("C08/last-key", vh.StrEq(page.Page.LastEvaluatedKey, ""))
	} else {
		last := page.Content[n-1]
		endsAtTip := last.BlockHeight == tipH
		vh.Assert("C08/last-key", vh.StrEq(page.Page.LastEvaluatedKey, vh.IteStr(endsAtTip, "", last.MerkleRoot)))
	}
	vh.Assert("C08/page-info", vh.And(page.Page.Size == n, page.Page.TotalElements == tipH))
	vh.Reach("page")
}


type fixedHasher struct{ h chainhash.Hash }

func (a fixedHasher) BlockHash(*domains.BlockHeaderSource) domains.BlockHash { return domains.BlockHash(a.h) }

type nopNotifier struct{}

func (nopNotifier) Notify(any) {}

// HarnessPageAfterAdd: a walk interleaved with ingestion. A page is requested, then one arbitrary
// header is ingested (possibly reorganising the chain), then another page is requested with an
// arbitrary key (possibly the same one): the second answer must satisfy the page lemma on the
// NEW store. Anything the service remembers between the two requests is exercised here.
func HarnessPageAfterAdd(k int) {
	pre := make([]hstore.H, k)
	for i := range pre {
		pre[i] = hstore.NondetH()
	}
	vh.Assume(hstore.Inv(pre, nil))
	vh.Assume(hstore.PositiveWork(pre))
	db := hstore.Store(pre)
	repos := hstore.Repos(db)
	svc := service.NewMerklerootsService(repos, &config.MerkleRootConfig{}, vh.Logger())
	key1 := vh.NondetStr("key1")
	_, _ = svc.GetMerkleRoots(1, key1)

	newHash := vh.NondetHash("newhash")
	bs := domains.BlockHeaderSource{Version: 1, PrevBlock: vh.NondetHash("sprev"), MerkleRoot: vh.NondetHash("smerkle"),
		Timestamp: vh.NondetTime("sts"), Bits: 0x1d00ffff, Nonce: vh.NondetU32("snonce")}
	hashes, prevs := []chainhash.Hash{newHash}, []chainhash.Hash{bs.PrevBlock}
	for i := range pre {
		hashes, prevs = append(hashes, pre[i].Hash), append(prevs, pre[i].Prev)
	}
	vh.Assume(hstore.Acyclic(hashes, prevs))
	vh.Assume(!vh.HashEq(newHash, pre[0].Prev))
	cs := service.NewChainsService(repos, &chaincfg.Params{}, vh.Logger(), fixedHasher{newHash}, nopNotifier{})
	_, _ = cs.Add(bs)

	post, ok := hstore.Load(db)
	vh.Assume(ok)
	for i := range post {
		for j := 0; j < i; j++ {
			vh.Assume(!vh.HashEq(post[i].Merkle, post[j].Merkle)) // precondition of the statement
		}
	}
	batch := vh.NondetInt("batch")
	vh.Assume(batch >= 0)
	key2 := vh.NondetStr("key2")
	page, err := svc.GetMerkleRoots(batch, key2)
	checkPage(post, batch, key2, page, err)
}

