package c08

// Registry lists the harness entry points of this package for native replay.
var Registry = map[string]func([]int64){
	"HarnessPage":         func(a []int64) { HarnessPage(int(a[0])) },
	"HarnessPageAfterAdd": func(a []int64) { HarnessPageAfterAdd(int(a[0])) },
}
