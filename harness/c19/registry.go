package c19

// Registry lists the harness entry points of this package for native replay.
var Registry = map[string]func([]int64){
	"HarnessLog2":         func([]int64) { HarnessLog2() },
	"HarnessCompact":      func([]int64) { HarnessCompact() },
	"HarnessWork":         func([]int64) { HarnessWork() },
	"HarnessWorkRepeated": func([]int64) { HarnessWorkRepeated() },
}
