// Package c19: compact bits -> target -> work, and FastLog2Floor, on the whole 32-bit domain.
package c19

import (
	"math/big"

	"github.com/bitcoin-sv/block-headers-service/domains"
	"github.com/bitcoin-sv/block-headers-service/internal/zzverif/vh"
)

// HarnessLog2: for every n >= 1, 2^rv <= n < 2^(rv+1).
func HarnessLog2() {
	n := vh.NondetU32("n")
	vh.Assume(n >= 1)
	rv := domains.FastLog2Floor(n)
	vh.Observe("rv", rv)
	vh.Assert("C19/log2-floor", vh.And(rv < 32, (n>>rv) == 1))
	vh.Reach("end")
}

// HarnessCompact: CompactToBig(bits) = sign * mantissa * 256^(exponent-3), truncating toward
// zero when the exponent is below 3. The truncated quotient q = floor(m/K) is stated by its
// defining inequalities q*K <= m < (q+1)*K (linear, K constant per exponent), not by calling
// a division: the oracle shares no arithmetic with the code.
func HarnessCompact() {
	bits := vh.NondetU32("bits")
	got := domains.CompactToBig(bits)
	e := vh.Concrete(bits >> 24)
	m := big.NewInt(int64(bits & 0x7fffff))
	neg := bits&0x800000 != 0
	vh.Observe("target", got)
	abs := vh.IteBig(neg, new(big.Int).Neg(got), got)
	if e >= 3 {
		k := new(big.Int).Exp(big.NewInt(256), big.NewInt(int64(e-3)), nil)
		vh.Assert("C19/compact-to-big", vh.BigEq(abs, new(big.Int).Mul(m, k)))
	} else {
		k := new(big.Int).Exp(big.NewInt(256), big.NewInt(int64(3-e)), nil)
		lo := new(big.Int).Mul(abs, k)
		hi := new(big.Int).Mul(new(big.Int).Add(abs, big.NewInt(1)), k)
		vh.Assert("C19/compact-to-big", vh.And(vh.BigLe(big.NewInt(0), abs), vh.BigLe(lo, m), vh.BigLt(m, hi)))
	}
	// sign: a set sign bit never yields a positive number, a clear one never a negative number
	vh.Assert("C19/compact-sign", vh.And(vh.Implies(neg, vh.BigLe(got, big.NewInt(0))), vh.Implies(!neg, vh.BigLe(big.NewInt(0), got))))
	vh.Reach("end")
}

// HarnessWork: CalculateWork(bits) = floor(2^256/(target+1)) for positive targets and zero
// otherwise, where target is what CompactToBig returns (its exactness is HarnessCompact).
func HarnessWork() {
	bits := vh.NondetU32("bits")
	_ = vh.Concrete(bits >> 24)
	got := domains.CalculateWork(bits).BigInt()
	t := domains.CompactToBig(bits)
	one := big.NewInt(1)
	two256 := new(big.Int).Exp(big.NewInt(2), big.NewInt(256), nil)
	pos := vh.BigLt(big.NewInt(0), t)
	// for non-positive targets the divisor is replaced by 1 to keep the division defined; the value is unused
	den := vh.IteBig(pos, new(big.Int).Add(t, one), one)
	want := vh.IteBig(pos, new(big.Int).Div(two256, den), big.NewInt(0))
	vh.Observe("work", got)
	vh.Assert("C19/work", vh.BigEq(got, want))
	vh.Assert("C19/work-nonneg", vh.BigLe(big.NewInt(0), got))
	vh.Reach("end")
}

// HarnessWorkRepeated: the work is a function of the bits only - not of what was computed
// before. After a call on one of three fixed encodings (a positive, a negative and a zero
// target), an arbitrary encoding is evaluated twice in a row: both results are the formula's
// value. (A result cache, or a package-level big.Int constant modified in place, passes every
// single-call check.) The target is evaluated before the first call so that the reference does
// not depend on the state the calls may leave behind.
func HarnessWorkRepeated() {
	bits := vh.NondetU32("bits")
	_ = vh.Concrete(bits >> 24)
	t := domains.CompactToBig(bits)
	one := big.NewInt(1)
	two256 := new(big.Int).Exp(big.NewInt(2), big.NewInt(256), nil)
	pos := vh.BigLt(big.NewInt(0), t)
	den := vh.IteBig(pos, new(big.Int).Add(t, one), one)
	want := vh.IteBig(pos, new(big.Int).Div(two256, den), big.NewInt(0))

	first := []uint32{0x1d00ffff, 0x1d80ffff, 0x1d000000}[vh.Choose(3)]
	_ = domains.CalculateWork(first)
	got1 := domains.CalculateWork(bits).BigInt()
	got2 := domains.CalculateWork(bits).BigInt()
	vh.Observe("work", got2)
	vh.Assert("C19/work-independent-of-earlier-calls", vh.And(vh.BigEq(got1, want), vh.BigEq(got2, want)))
	// and the target decoder as well
	vh.Assert("C19/work-independent-of-earlier-calls", vh.BigEq(domains.CompactToBig(bits), t))
	vh.Reach("end")
}
