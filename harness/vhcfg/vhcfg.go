// Package vhcfg: helpers of the configuration harness (C20). Natively they work on the real
// process environment, real files and the real viper; under the symbolic executor each function is
// an intrinsic over the executor's models of the environment, the file system and viper.
package vhcfg

import (
	"fmt"
	"os"
	"reflect"
	"strings"
	"time"

	"github.com/bitcoin-sv/block-headers-service/config"
	"github.com/bitcoin-sv/block-headers-service/internal/zzverif/vh"
	"github.com/spf13/viper"
)

// Kinds of leaf values.
const (
	KString = iota
	KInt
	KBool
	KUint16
	KDuration
)

// Leaf is one leaf key of the configuration structure ("db.sqlite.file_path") and the kind of its value.
type Leaf struct {
	Key  string
	Kind int
}

// Val is a leaf value: S for strings, I for integers (durations in nanoseconds), B for booleans.
type Val struct {
	Kind int
	S    string
	I    int64
	B    bool
}

// Eq compares two leaf values.
func Eq(a, b Val) bool {
	return vh.And(a.Kind == b.Kind, vh.StrEq(a.S, b.S), a.I == b.I, a.B == b.B)
}

var durationT = reflect.TypeOf(time.Duration(0))

func walk(t reflect.Type, prefix string, out *[]Leaf) {
	for i := 0; i < t.NumField(); i++ {
		f := t.Field(i)
		tag, _, _ := strings.Cut(f.Tag.Get("mapstructure"), ",")
		if tag == "" || tag == "-" || !f.IsExported() {
			continue
		}
		ft := f.Type
		if ft.Kind() == reflect.Ptr {
			ft = ft.Elem()
		}
		key := prefix + tag
		switch {
		case ft == durationT:
			*out = append(*out, Leaf{key, KDuration})
		case ft.Kind() == reflect.Struct:
			walk(ft, key+".", out)
		case ft.Kind() == reflect.String:
			*out = append(*out, Leaf{key, KString})
		case ft.Kind() == reflect.Bool:
			*out = append(*out, Leaf{key, KBool})
		case ft.Kind() == reflect.Uint16:
			*out = append(*out, Leaf{key, KUint16})
		case ft.Kind() == reflect.Int || ft.Kind() == reflect.Int64 || ft.Kind() == reflect.Int32:
			*out = append(*out, Leaf{key, KInt})
		default:
			*out = append(*out, Leaf{key, -1})
		}
	}
}

// Leaves enumerates the leaf keys of config.AppConfig (by its mapstructure tags, in declaration order).
func Leaves() []Leaf {
	var out []Leaf
	walk(reflect.TypeOf(config.AppConfig{}), "", &out)
	return out
}

// Get reads the value of a leaf key; Kind -1 if a section on the way is missing.
func Get(cfg *config.AppConfig, key string) Val {
	v := reflect.ValueOf(cfg)
	for _, part := range strings.Split(key, ".") {
		if v.Kind() == reflect.Ptr {
			if v.IsNil() {
				return Val{Kind: -1}
			}
			v = v.Elem()
		}
		found := false
		for i := 0; i < v.NumField(); i++ {
			if name, _, _ := strings.Cut(v.Type().Field(i).Tag.Get("mapstructure"), ","); name == part {
				v, found = v.Field(i), true
				break
			}
		}
		if !found {
			return Val{Kind: -1}
		}
	}
	if v.Kind() == reflect.Ptr {
		if v.IsNil() {
			return Val{Kind: -1}
		}
		v = v.Elem()
	}
	switch {
	case v.Type() == durationT:
		return Val{Kind: KDuration, I: v.Int()}
	case v.Kind() == reflect.String:
		return Val{Kind: KString, S: v.String()}
	case v.Kind() == reflect.Bool:
		return Val{Kind: KBool, B: v.Bool()}
	case v.Kind() == reflect.Uint16:
		return Val{Kind: KUint16, I: int64(v.Uint())}
	case v.Kind() == reflect.Int || v.Kind() == reflect.Int64 || v.Kind() == reflect.Int32:
		return Val{Kind: KInt, I: v.Int()}
	}
	return Val{Kind: -1}
}

func text(v Val) string {
	switch v.Kind {
	case KString:
		return v.S
	case KBool:
		return fmt.Sprint(v.B)
	case KDuration:
		return fmt.Sprintf("%ds", v.I/int64(time.Second))
	default:
		return fmt.Sprint(v.I)
	}
}

// Setenv sets an environment variable of the process to the textual form of v (until the end of the run).
func Setenv(name string, v Val) {
	old, had := os.LookupEnv(name)
	_ = os.Setenv(name, text(v))
	vh.Cleanup(func() {
		if had {
			_ = os.Setenv(name, old)
		} else {
			_ = os.Unsetenv(name)
		}
	})
}

// WriteYAML writes a configuration file that sets exactly one leaf key.
func WriteYAML(path string, key string, v Val) {
	var b strings.Builder
	parts := strings.Split(key, ".")
	for i, p := range parts {
		b.WriteString(strings.Repeat("  ", i) + p + ":")
		if i < len(parts)-1 {
			b.WriteString("\n")
		}
	}
	if v.Kind == KString {
		b.WriteString(fmt.Sprintf(" %q\n", v.S))
	} else {
		b.WriteString(" " + text(v) + "\n")
	}
	if err := os.WriteFile(path, []byte(b.String()), 0o600); err != nil {
		panic(err)
	}
}

// Reset gives the process a fresh global viper (as at program start).
func Reset() {
	viper.Reset()
	vh.Cleanup(viper.Reset)
}

// TempDir returns a fresh empty directory (removed at the end of the run).
func TempDir() string {
	d, err := os.MkdirTemp("", "vhcfg-*")
	if err != nil {
		panic(vh.Diverged{Why: err.Error()})
	}
	vh.Cleanup(func() { os.RemoveAll(d) })
	return d
}
