package c04

// Registry lists the harness entry points of this package for native replay.
var Registry = map[string]func([]int64){
	"HarnessByHash":             func(a []int64) { HarnessByHash(int(a[0])) },
	"HarnessTips":               func(a []int64) { HarnessTips(int(a[0])) },
	"HarnessAncestors":          func(a []int64) { HarnessAncestors(int(a[0])) },
	"HarnessCommonAncestorFork": func(a []int64) { HarnessCommonAncestorFork(int(a[0])) },
	"HarnessFreshAnswers":       func(a []int64) { HarnessFreshAnswers(int(a[0]), int(a[1])) },
	"HarnessByHeight":           func(a []int64) { HarnessByHeight(int(a[0])) },
	"HarnessCommonAncestor":     func(a []int64) { HarnessCommonAncestor(int(a[0]), int(a[1])) },
}
