// Package c04: read operations of HeaderService are pure functions of the stored tree.
package c04

import (
	"errors"
	"strings"

	"github.com/bitcoin-sv/block-headers-service/config"
	"github.com/bitcoin-sv/block-headers-service/internal/chaincfg/chainhash"
	"github.com/bitcoin-sv/block-headers-service/internal/zzverif/c01"
	"github.com/bitcoin-sv/block-headers-service/internal/zzverif/c16"
	"github.com/bitcoin-sv/block-headers-service/internal/zzverif/happ"
	"github.com/bitcoin-sv/block-headers-service/internal/zzverif/vhgin"

	"github.com/bitcoin-sv/block-headers-service/bhserrors"
	"github.com/bitcoin-sv/block-headers-service/domains"
	"github.com/bitcoin-sv/block-headers-service/internal/zzverif/hstore"
	"github.com/bitcoin-sv/block-headers-service/internal/zzverif/vh"
	"github.com/bitcoin-sv/block-headers-service/service"
	"github.com/jmoiron/sqlx"
)

func setup(k int) ([]hstore.H, *sqlx.DB, *service.HeaderService) {
	pre := make([]hstore.H, k)
	for i := range pre {
		pre[i] = hstore.NondetH()
	}
	vh.Assume(hstore.Inv(pre, nil))
	hashes, prevs := hashesOf(pre)
	vh.Assume(hstore.Acyclic(hashes, prevs))
	db := hstore.Store(pre)
	return pre, db, service.NewHeaderService(hstore.Repos(db), nil, vh.Logger())
}

func hashesOf(hs []hstore.H) (a, b []hstore.Hash) {
	for i := range hs {
		a, b = append(a, hs[i].Hash), append(b, hs[i].Prev)
	}
	return
}

func untouched(pre []hstore.H, db *sqlx.DB) {
	post, ok := hstore.Load(db)
	vh.Assert("C04/reads-never-modify", vh.And(ok, len(post) == len(pre)))
	if ok && len(post) == len(pre) {
		for i := range pre {
			vh.Assert("C04/reads-never-modify", vh.And(hstore.SameButState(pre[i], post[i]), pre[i].State == post[i].State))
		}
	}
}

// sameHeader: the returned domain header equals stored row r in every field.
func sameHeader(h *domains.BlockHeader, r hstore.H) bool {
	return vh.And(vh.HashEq(h.Hash, r.Hash), vh.HashEq(h.PreviousBlock, r.Prev), vh.HashEq(h.MerkleRoot, r.Merkle), h.Height == r.Height,
		h.Version == r.Version, h.Bits == r.Bits, h.Nonce == r.Nonce, h.Timestamp.Unix() == r.Ts.Unix(),
		vh.BigEq(h.Chainwork, r.W), vh.BigEq(h.CumulatedWork, r.CW), vh.StrEq(string(h.State), hstore.StateName(r.State)))
}

// HarnessByHash: header / state by hash return that stored header, 404 if absent.
func HarnessByHash(k int) {
	pre, db, hs := setup(k)
	q := vh.NondetStr("qhash")
	h, err := hs.GetHeaderByHash(q)
	st, err2 := hs.GetHeadersState(q)
	present := false
	for i := range pre {
		present = vh.Or(present, vh.StrEq(pre[i].Hash.String(), q))
	}
	vh.Assert("C04/by-hash-found-iff-stored", vh.Iff(vh.And(err == nil, h != nil), present))
	vh.Assert("C04/by-hash-found-iff-stored", vh.Iff(vh.And(err2 == nil, st != nil), present))
	if err == nil && h != nil {
		for i := range pre {
			vh.Assert("C04/by-hash-returns-that-header", vh.Implies(vh.StrEq(pre[i].Hash.String(), q), sameHeader(h, pre[i])))
		}
	} else {
		var xe bhserrors.ExtendedError
		vh.Assert("C04/absent-is-404", vh.And(errors.As(err, &xe), xe != nil))
		if xe != nil {
			vh.Assert("C04/absent-is-404", xe.GetStatusCode() == 404)
		}
	}
	if err2 == nil && st != nil {
		for i := range pre {
			vh.Assert("C04/state-returns-that-header", vh.Implies(vh.StrEq(pre[i].Hash.String(), q),
				vh.And(sameHeader(&st.Header, pre[i]), st.Height == pre[i].Height, vh.StrEq(st.State, hstore.StateName(pre[i].State)), vh.BigEq(st.ChainWork, pre[i].W))))
		}
	}
	untouched(pre, db)
	vh.Reach("end")
}

// HarnessTips: tips = the longest tip plus every leaf of a stale or orphan branch; tip/longest = the longest tip.
func HarnessTips(k int) {
	pre, db, hs := setup(k)
	tips, err := hs.GetTips()
	tip := hs.GetTip()
	vh.Assert("C04/tips-answered", err == nil)
	vh.Assert("C04/tip-longest", tip != nil)
	if tip != nil {
		for t := range pre {
			vh.Assert("C04/tip-longest", vh.Implies(hstore.IsTip(pre, t), sameHeader(tip, pre[t])))
		}
	}
	if err == nil {
		// expected membership per stored row
		for i := range pre {
			hasNonLongestChild := false
			for j := range pre {
				hasNonLongestChild = vh.Or(hasNonLongestChild, vh.And(pre[j].State != hstore.L, vh.HashEq(pre[j].Prev, pre[i].Hash)))
			}
			want := vh.Or(hstore.IsTip(pre, i), vh.And(pre[i].State != hstore.L, !hasNonLongestChild))
			got := false
			for _, t := range tips {
				got = vh.Or(got, vh.HashEq(t.Hash, pre[i].Hash))
			}
			vh.Assert("C04/tips-exact-set", vh.Iff(got, want))
		}
		// nothing that is not stored, nothing twice
		for a, t := range tips {
			stored := false
			for i := range pre {
				stored = vh.Or(stored, sameHeader(t, pre[i]))
			}
			vh.Assert("C04/tips-only-stored", stored)
			for b := 0; b < a; b++ {
				vh.Assert("C04/tips-no-duplicates", !vh.HashEq(tips[b].Hash, t.Hash))
			}
		}
	}
	untouched(pre, db)
	vh.Reach("end")
}

// pathMembership walks the stored tree from `from` towards the root: the parent of a header is the
// row with its previous hash that was stored BEFORE it (an orphan root stays a root even if a header
// with its previous hash is stored later - it is never re-linked). reach: `to` lies on that walk;
// onPath: the rows from `from` down to `to`, both included.
func pathMembership(hs []hstore.H, from, to int, treeOnly bool) (reach bool, onPath []bool) {
	n := len(hs)
	// cur[i]: row i is the node reached after s steps from `from`
	cur := make([]bool, n)
	onPath = make([]bool, n)
	for i := range cur {
		cur[i] = i == from
	}
	reached := false
	done := false // true once `to` has been reached: the walk stops there
	for s := 0; s <= n; s++ {
		next := make([]bool, n)
		for i := 0; i < n; i++ {
			active := vh.And(cur[i], !done)
			onPath[i] = vh.Or(onPath[i], active)
			reached = vh.Or(reached, vh.And(active, i == to))
		}
		stopHere := false
		for i := 0; i < n; i++ {
			stopHere = vh.Or(stopHere, vh.And(cur[i], i == to))
		}
		for i := 0; i < n; i++ {
			for j := 0; j < n; j++ {
				next[j] = vh.Or(next[j], vh.And(cur[i], !done, !stopHere, j < i || !treeOnly, vh.HashEq(hs[j].Hash, hs[i].Prev)))
			}
		}
		done = vh.Or(done, stopHere)
		cur = next
	}
	return reached, onPath
}

// HarnessAncestors: Ancestors(hash, ancestor) = the parent-linked path between the two
// (both ends included) when ancestor is a strict ancestor of hash, an error otherwise.
func HarnessAncestors(k int) {
	pre, db, hs := setup(k)
	a := vh.Choose(k) // the header
	b := vh.Choose(k) // the claimed ancestor
	vh.Assume(a != b)
	got, err := hs.GetHeaderAncestorsByHash(pre[a].Hash.String(), pre[b].Hash.String())
	// Two readings of "descends from": along the stored tree (an orphan root is a root), or along raw
	// previous-hash links (an orphan root whose parent was stored later is linked to it). Where they
	// differ the statement is ambiguous, so: a tree descendant must be answered with its path, and
	// whatever is answered without error must at least be a descendant along raw links.
	reach, onPath := pathMembership(pre, a, b, true)
	reachRaw, _ := pathMembership(pre, a, b, false)
	vh.Class("F1-equal-height-different-headers-empty-list", pre[a].Height == pre[b].Height)
	vh.Assert("C04/ancestors-error-iff-not-descendant", vh.And(vh.Implies(reach, err == nil), vh.Implies(err == nil, reachRaw)))
	if err == nil {
		for i := range pre {
			in := false
			for _, g := range got {
				in = vh.Or(in, vh.HashEq(g.Hash, pre[i].Hash))
			}
			vh.Assert("C04/ancestors-exact-path", vh.Implies(reach, vh.Iff(in, onPath[i])))
		}
		for x, g := range got {
			stored := false
			for i := range pre {
				stored = vh.Or(stored, vh.And(vh.HashEq(g.Hash, pre[i].Hash), g.Height == pre[i].Height, vh.HashEq(g.PreviousBlock, pre[i].Prev)))
			}
			vh.Assert("C04/ancestors-only-stored", stored)
			for y := 0; y < x; y++ {
				vh.Assert("C04/ancestors-no-duplicates", !vh.HashEq(got[y].Hash, g.Hash))
			}
		}
	}
	untouched(pre, db)
	vh.Reach("end")
}

// HarnessByHeight: by-height(height, count) returns stored headers only, only from the window
// [height, height+count-1], each at most once, and every longest-chain header in the window.
func HarnessByHeight(k int) {
	pre, db, hs := setup(k)
	height, count := vh.NondetInt("height"), vh.NondetInt("count")
	const lim = 1 << 40
	vh.Assume(vh.And(height > -lim, height < lim, count > -lim, count < lim))
	lo, hi := height, height+count-1
	got, err := hs.GetHeadersByHeight(height, count)
	vh.Assert("C04/by-height-answers", err == nil)
	if err != nil {
		return
	}
	vh.Observe("n_got", len(got))
	for x, g := range got {
		stored := false
		for i := range pre {
			stored = vh.Or(stored, sameHeader(g, pre[i]))
		}
		vh.Assert("C04/by-height-only-stored", stored)
		vh.Assert("C04/by-height-only-from-window", vh.And(int(g.Height) >= lo, int(g.Height) <= hi))
		for y := 0; y < x; y++ {
			vh.Assert("C04/by-height-no-duplicates", !vh.HashEq(got[y].Hash, g.Hash))
		}
	}
	for i := range pre {
		in := false
		for _, g := range got {
			in = vh.Or(in, vh.HashEq(g.Hash, pre[i].Hash))
		}
		inWindow := vh.And(int(pre[i].Height) >= lo, int(pre[i].Height) <= hi)
		vh.Assert("C04/by-height-all-longest-in-window", vh.Implies(vh.And(inWindow, pre[i].State == hstore.L), in))
	}
	untouched(pre, db)
	vh.Reach("end")
}

// HarnessCommonAncestor: common-ancestor(hashes) is the highest stored header strictly below
// the lowest given height that is an ancestor (or the header itself) of every given header;
// an error when a hash is unknown; no header when there is none. Stores in which a parent
// was stored after its child (an orphan root that was never re-linked) are left out: "ancestor"
// is ambiguous there (see HarnessAncestors).
func HarnessCommonAncestor(k int, n int) { commonAncestor(k, n, false) }

// HarnessCommonAncestorFork: the slice of HarnessCommonAncestor on the smallest store with two
// branches of two headers each below a common root (5 rows), for lists of n hashes - the shape
// in which some of the given headers converge above the point where another one joins them.
func HarnessCommonAncestorFork(n int) { commonAncestor(5, n, true) }

func commonAncestor(k int, n int, fork bool) {
	pre, db, hs := setup(k)
	if fork {
		vh.Assume(vh.And(vh.HashEq(pre[1].Prev, pre[0].Hash), vh.HashEq(pre[2].Prev, pre[0].Hash),
			vh.HashEq(pre[3].Prev, pre[1].Hash), vh.HashEq(pre[4].Prev, pre[2].Hash)))
	}
	for i := range pre {
		for j := i + 1; j < len(pre); j++ {
			vh.Assume(!vh.HashEq(pre[j].Hash, pre[i].Prev))
		}
	}
	unknown := vh.NondetHash("unknown")
	for i := range pre {
		vh.Assume(!vh.HashEq(unknown, pre[i].Hash))
	}
	idx := make([]int, n)
	args := make([]string, n)
	anyUnknown := false
	for x := range idx {
		idx[x] = vh.Choose(k + 1)
		if idx[x] == k {
			anyUnknown = true
			args[x] = unknown.String()
		} else {
			args[x] = pre[idx[x]].Hash.String()
		}
	}
	got, err := hs.GetCommonAncestor(args)
	if anyUnknown {
		vh.Assert("C04/common-ancestor-unknown-hash-is-an-error", vh.And(err != nil, got == nil))
		untouched(pre, db)
		vh.Reach("unknown")
		return
	}
	minH := pre[idx[0]].Height
	for _, i := range idx {
		minH = vh.IteI32(pre[i].Height < minH, pre[i].Height, minH)
	}
	cand := make([]bool, k)
	for i := range cand {
		cand[i] = pre[i].Height < minH
	}
	for _, from := range idx {
		_, onPath := pathMembership(pre, from, -1, true)
		for i := range cand {
			cand[i] = vh.And(cand[i], onPath[i])
		}
	}
	anyCand := vh.Or(cand...)
	vh.Assert("C04/common-ancestor-found-iff-one-exists", vh.And(vh.Implies(anyCand, vh.And(err == nil, got != nil)), vh.Implies(!anyCand, got == nil)))
	if got != nil {
		for i := range cand {
			highest := cand[i]
			for j := range cand {
				if j != i {
					highest = vh.And(highest, !vh.And(cand[j], pre[j].Height > pre[i].Height))
				}
			}
			vh.Assert("C04/common-ancestor-is-the-highest-common-one", vh.Implies(highest, sameAnswer(got, pre[i])))
		}
	}
	untouched(pre, db)
	vh.Reach("end")
}

// sameAnswer: h equals stored row r in every field the endpoint's response carries
// (BlockHeaderResponse has no state; the ancestor query does not select that column).
func sameAnswer(h *domains.BlockHeader, r hstore.H) bool {
	return vh.And(vh.HashEq(h.Hash, r.Hash), vh.HashEq(h.PreviousBlock, r.Prev), vh.HashEq(h.MerkleRoot, r.Merkle), h.Height == r.Height,
		h.Version == r.Version, h.Bits == r.Bits, h.Nonce == r.Nonce, h.Timestamp.Unix() == r.Ts.Unix(),
		vh.BigEq(h.Chainwork, r.W), vh.BigEq(h.CumulatedWork, r.CW))
}

// HarnessFreshAnswers: no read endpoint answers from state kept outside the store. One arbitrary
// request to a read route, then one arbitrary header is ingested through the same process, then
// the same request again: the second answer equals the answer of a freshly started process over
// the same database. (A per-process cache of anything a reorganisation or a new header changes
// shows up here, whatever its key.)
func HarnessFreshAnswers(k int, route int) {
	pre := make([]hstore.H, k)
	for i := range pre {
		pre[i] = hstore.NondetH()
	}
	vh.Assume(hstore.Inv(pre, nil))
	vh.Assume(hstore.PositiveWork(pre))
	db := hstore.Store(pre)
	cfg := &config.HTTPConfig{UseAuth: false, AuthToken: "admin-token"}
	newHash := vh.NondetHash("newhash")
	app := happ.NewWithHasher(db, cfg, 3, 6, fixedHasher{newHash})
	var routes []vhgin.Route
	for _, r := range vhgin.Routes(app.Engine) {
		if strings.HasPrefix(r.Path, "/api/v1/chain/") {
			routes = append(routes, r)
		}
	}
	vh.Assert("C04/read-routes-registered", len(routes) >= 9)
	if route >= len(routes) {
		return
	}
	r := routes[route]
	vh.Observe("route", r.Method+" "+r.Path)
	req := c16.Request(r.Method, r.Path)

	bs := domains.BlockHeaderSource{Version: 1, PrevBlock: vh.NondetHash("sprev"), MerkleRoot: vh.NondetHash("smerkle"),
		Timestamp: vh.NondetTime("sts"), Bits: c01.BitsMenu[2+vh.Choose(2)], Nonce: vh.NondetU32("snonce")}
	hashes, prevs := []chainhash.Hash{newHash}, []chainhash.Hash{bs.PrevBlock}
	for i := range pre {
		hashes, prevs = append(hashes, pre[i].Hash), append(prevs, pre[i].Prev)
		vh.Assume(!vh.HashEq(pre[i].Hash, newHash))
	}
	vh.Assume(hstore.Acyclic(hashes, prevs))
	vh.Assume(!vh.HashEq(newHash, pre[0].Prev))

	_ = vhgin.Serve(app.Engine, r.Method, r.Path, req)

	_, err := app.Services.Chains.Add(bs)
	vh.Observe("added", err == nil)

	again := vhgin.Serve(app.Engine, r.Method, r.Path, req)
	fresh := vhgin.Serve(happ.New(db, cfg, 3, 6).Engine, r.Method, r.Path, req)
	vh.Observe("status", again.Status)
	vh.Assert("C04/answer-after-ingestion-equals-a-fresh-process", vhgin.SameAnswer(again, fresh))
	vh.Reach("end")
}

// fixedHasher gives the submitted header an arbitrary hash (every relation to stored hashes and
// to the request's parameters is then covered, and replays do not depend on SHA-256).
type fixedHasher struct{ h chainhash.Hash }

func (f fixedHasher) BlockHash(*domains.BlockHeaderSource) domains.BlockHash {
	return domains.BlockHash(f.h)
}
