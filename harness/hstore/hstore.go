// Package hstore: symbolic header stores and the representation invariant INV-H of the
// headers table (DESIGN.md §4), written once and used as assumption on pre-states and as
// assertion on post-states.
package hstore

import (
	"math/big"
	"time"

	"github.com/bitcoin-sv/block-headers-service/database/repository"
	dbsql "github.com/bitcoin-sv/block-headers-service/database/sql"
	"github.com/bitcoin-sv/block-headers-service/internal/chaincfg/chainhash"
	"github.com/bitcoin-sv/block-headers-service/internal/zzverif/vh"
	"github.com/bitcoin-sv/block-headers-service/internal/zzverif/vhdb"
	repo "github.com/bitcoin-sv/block-headers-service/repository"
	"github.com/bitcoin-sv/block-headers-service/repository/dto"
	"github.com/jmoiron/sqlx"
)

const (
	L = uint8(0) // LONGEST_CHAIN
	S = uint8(1) // STALE
	O = uint8(2) // ORPHAN
)

// H is a stored header in typed form.
// Hash is the header hash type.
type Hash = chainhash.Hash

type H struct {
	Hash, Prev, Merkle chainhash.Hash
	Height, Version    int32
	Ts                 time.Time
	Bits, Nonce        uint32
	State              uint8
	W, CW              *big.Int
}

func StateName(s uint8) string {
	return vh.IteStr(s == L, "LONGEST_CHAIN", vh.IteStr(s == S, "STALE", "ORPHAN"))
}

// Row renders h as the stored row.
func (h H) Row() dto.DbBlockHeader {
	return dto.DbBlockHeader{
		Height: h.Height, Hash: h.Hash.String(), Version: h.Version, MerkleRoot: h.Merkle.String(),
		Timestamp: h.Ts, Bits: h.Bits, Nonce: h.Nonce, State: StateName(h.State),
		Chainwork: h.W.String(), CumulatedWork: h.CW.String(), PreviousBlock: h.Prev.String(),
	}
}

// FromRow parses a stored row; ok is false when a column is not of the shape the service writes.
func FromRow(r dto.DbBlockHeader) (h H, ok bool) {
	hash, e1 := chainhash.NewHashFromStr(r.Hash)
	prev, e2 := chainhash.NewHashFromStr(r.PreviousBlock)
	mr, e3 := chainhash.NewHashFromStr(r.MerkleRoot)
	w, ok1 := new(big.Int).SetString(r.Chainwork, 10)
	cw, ok2 := new(big.Int).SetString(r.CumulatedWork, 10)
	if e1 != nil || e2 != nil || e3 != nil || !ok1 || !ok2 {
		return H{}, false
	}
	st := vh.IteU8(r.State == "LONGEST_CHAIN", L, vh.IteU8(r.State == "STALE", S, vh.IteU8(r.State == "ORPHAN", O, 3)))
	return H{Hash: *hash, Prev: *prev, Merkle: *mr, Height: r.Height, Version: r.Version, Ts: r.Timestamp,
		Bits: r.Bits, Nonce: r.Nonce, State: st, W: w, CW: cw}, true
}

// NondetH returns an arbitrary header (all columns symbolic).
func NondetH() H {
	return H{
		Hash: vh.NondetHash("hash"), Prev: vh.NondetHash("prev"), Merkle: vh.NondetHash("merkle"),
		Height: vh.NondetI32("height"), Version: vh.NondetI32("version"), Ts: vh.NondetTime("ts"),
		Bits: vh.NondetU32("bits"), Nonce: vh.NondetU32("nonce"), State: vh.NondetU8("state"),
		W: vh.NondetBig("w"), CW: vh.NondetBig("cw"),
	}
}

// MaxHeight bounds stored heights so that height+1 does not wrap (stated bound).
const MaxHeight = int32(1 << 30)

// parentLink: j is the stored parent of i with the derived fields consistent.
func parentLink(hs []H, i, j int) bool {
	return vh.And(vh.HashEq(hs[j].Hash, hs[i].Prev), hs[i].Height == hs[j].Height+1,
		vh.BigEq(hs[i].CW, new(big.Int).Add(hs[j].CW, hs[i].W)))
}

// Inv is INV-H over rows in rowid order. forbidden: hashes that must not be stored.
func Inv(hs []H, forbidden []chainhash.Hash) bool {
	zero := big.NewInt(0)
	cs := []bool{}
	n := len(hs)
	if n == 0 {
		return false
	}
	for i := 0; i < n; i++ {
		h := hs[i]
		// H0 typing
		cs = append(cs, h.State <= O, vh.BigLe(zero, h.W), vh.BigLe(zero, h.CW), h.Height >= 0, h.Height < MaxHeight)
		// H1 primary key, nothing forbidden stored
		for j := 0; j < i; j++ {
			cs = append(cs, !vh.HashEq(hs[j].Hash, h.Hash))
		}
		for _, f := range forbidden {
			cs = append(cs, !vh.HashEq(f, h.Hash))
		}
	}
	// H2 genesis; its previous-hash field (all zeroes on every network) is nobody's hash
	g := hs[0]
	cs = append(cs, g.Height == 0, g.State == L, vh.BigEq(g.CW, g.W))
	for j := range hs {
		cs = append(cs, !vh.HashEq(hs[j].Hash, g.Prev))
	}
	for i := 1; i < n; i++ {
		h := hs[i]
		cs = append(cs, h.Height >= 1)
		// H3 parent structure
		connected := []bool{} // has an L/S parent stored before it
		orphanPar := []bool{} // has an ORPHAN parent stored before it
		anyBefore := []bool{}
		for j := 0; j < i; j++ {
			connected = append(connected, vh.And(parentLink(hs, i, j), hs[j].State != O))
			orphanPar = append(orphanPar, vh.And(parentLink(hs, i, j), hs[j].State == O))
			anyBefore = append(anyBefore, vh.HashEq(hs[j].Hash, h.Prev))
		}
		rootOrphan := vh.And(!vh.Or(anyBefore...), h.Height == 1, vh.BigEq(h.CW, h.W))
		cs = append(cs, vh.Implies(h.State != O, vh.Or(connected...)))
		cs = append(cs, vh.Implies(h.State == O, vh.Or(rootOrphan, vh.Or(orphanPar...))))
		// H4 longest rows form a path, one per height
		lpar := []bool{}
		for j := 0; j < i; j++ {
			lpar = append(lpar, vh.And(vh.HashEq(hs[j].Hash, h.Prev), hs[j].State == L))
		}
		cs = append(cs, vh.Implies(h.State == L, vh.Or(lpar...)))
		for j := 0; j < i; j++ {
			cs = append(cs, !vh.And(h.State == L, hs[j].State == L, hs[j].Height == h.Height))
		}
	}
	// H5 maximality with first-seen tie-break: for every t that is the longest tip ...
	for t := 0; t < n; t++ {
		isTip := IsTip(hs, t)
		for j := 0; j < n; j++ {
			if j == t {
				continue
			}
			beaten := vh.Or(vh.BigLt(hs[j].CW, hs[t].CW), vh.And(vh.BigEq(hs[j].CW, hs[t].CW), t < j))
			cs = append(cs, vh.Implies(vh.And(isTip, hs[j].State != O), beaten))
		}
	}
	return vh.And(cs...)
}

// Acyclic states that parent links among the given headers (stored ones plus, possibly, a
// submitted one) are acyclic, by exhibiting a rank that decreases along every link. Hashes
// are modelled as arbitrary values; with a real hash function a cycle would need a hash
// that depends on itself, so this is an assumption about the hash, never asserted.
func Acyclic(hashes, prevs []chainhash.Hash) bool {
	n := len(hashes)
	ranks := make([]int32, n)
	cs := []bool{}
	for i := range ranks {
		ranks[i] = vh.NondetI32("rank")
		cs = append(cs, ranks[i] >= 0, ranks[i] < 64)
	}
	for i := 0; i < n; i++ {
		for j := 0; j < n; j++ {
			cs = append(cs, vh.Implies(vh.HashEq(hashes[j], prevs[i]), ranks[j] < ranks[i]))
		}
	}
	return vh.And(cs...)
}

// PositiveWork: every stored header but genesis has positive work (see finding F2).
func PositiveWork(hs []H) bool {
	cs := []bool{}
	for i := 1; i < len(hs); i++ {
		cs = append(cs, vh.BigLt(big.NewInt(0), hs[i].W))
	}
	return vh.And(cs...)
}

// IsTip: row t is LONGEST and no LONGEST row is higher.
func IsTip(hs []H, t int) bool {
	cs := []bool{hs[t].State == L}
	for j := range hs {
		if j != t {
			cs = append(cs, !vh.And(hs[j].State == L, hs[j].Height > hs[t].Height))
		}
	}
	return vh.And(cs...)
}

// Store creates a database holding hs (rowid order = slice order).
func Store(hs []H) *sqlx.DB {
	db := vhdb.NewDB()
	for _, h := range hs {
		vhdb.InsertHeaderRow(db, h.Row())
	}
	return db
}

// Load reads the headers table back in typed form.
func Load(db *sqlx.DB) ([]H, bool) {
	rows := vhdb.HeaderRows(db)
	out := make([]H, 0, len(rows))
	for _, r := range rows {
		h, ok := FromRow(r)
		if !ok {
			return nil, false
		}
		out = append(out, h)
	}
	return out, true
}

// Repos wires the real SQL-backed repositories over db.
func Repos(db *sqlx.DB) *repo.Repositories {
	log := vh.Logger()
	hdb := dbsql.NewHeadersDb(db, log)
	return &repo.Repositories{
		Headers:  repository.NewHeadersRepository(hdb),
		Tokens:   repository.NewTokensRepository(hdb),
		Webhooks: repository.NewWebhooksRepository(hdb),
	}
}

// SameButState: a and b agree on every column except possibly the chain-state label.
func SameButState(a, b H) bool {
	return vh.And(vh.HashEq(a.Hash, b.Hash), vh.HashEq(a.Prev, b.Prev), vh.HashEq(a.Merkle, b.Merkle),
		a.Height == b.Height, a.Version == b.Version, a.Ts.Unix() == b.Ts.Unix(), a.Bits == b.Bits, a.Nonce == b.Nonce,
		vh.BigEq(a.W, b.W), vh.BigEq(a.CW, b.CW))
}
