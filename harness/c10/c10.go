// Package c10: issued tokens authenticate from creation until revocation, and never after.
package c10

import (
	"github.com/bitcoin-sv/block-headers-service/internal/zzverif/hstore"
	"github.com/bitcoin-sv/block-headers-service/internal/zzverif/vh"
	"github.com/bitcoin-sv/block-headers-service/internal/zzverif/vhdb"
	"github.com/bitcoin-sv/block-headers-service/repository/dto"
	"github.com/bitcoin-sv/block-headers-service/service"
	"github.com/jmoiron/sqlx"
)

// Table creates a tokens table of k arbitrary distinct non-admin rows.
func Table(k int, admin string) (*sqlx.DB, []string) { return table(k, admin, false) }

// TableAny: as Table, but a stored row may equal the configured admin token (an issued token
// promoted to admin token in the configuration, or a collision): the admin token must still
// authenticate as admin.
func TableAny(k int, admin string) (*sqlx.DB, []string) { return table(k, admin, true) }

func table(k int, admin string, mayEqualAdmin bool) (*sqlx.DB, []string) {
	db := vhdb.NewDB()
	toks := make([]string, k)
	for i := range toks {
		toks[i] = vh.NondetStr("stored")
		if !mayEqualAdmin {
			vh.Assume(!vh.StrEq(toks[i], admin))
		}
		for j := 0; j < i; j++ {
			vh.Assume(!vh.StrEq(toks[i], toks[j]))
		}
		vhdb.InsertTokenRow(db, dto.DbToken{Token: toks[i], CreatedAt: vh.NondetTime("created")})
	}
	return db, toks
}

// HarnessOps: any sequence of n operations create / revoke(x) / authenticate(x) from an arbitrary
// table, checked against a set model through an arbitrary probe token: at the end the probe
// authenticates iff it is the admin token (as admin) or in the model set (as non-admin).
func HarnessOps(k int, n int) {
	admin := vh.NondetStr("admin")
	vh.Assume(!vh.StrEq(admin, ""))
	db, toks := TableAny(k, admin)
	svc := service.NewTokenService(hstore.Repos(db), admin)
	probe := vh.NondetStr("probe")
	if vh.Choose(2) == 1 {
		probe = "%" // the SQL wildcard: a lookup that is a pattern match instead of an equality would accept it
	}
	in := false
	for i := range toks {
		in = vh.Or(in, vh.StrEq(probe, toks[i]))
	}
	issued := []string{}
	for step := 0; step < n; step++ {
		switch vh.Choose(3) {
		case 0: // create
			t, err := svc.GenerateToken()
			vh.Assert("C10/create-succeeds", vh.And(err == nil, t != nil))
			if t == nil {
				return
			}
			vh.Assert("C10/issued-token-is-not-admin", !t.IsAdmin)
			// randomness assumption: a fresh token differs from the admin token and from every token in use
			fresh := !vh.StrEq(t.Token, admin)
			for i := range toks {
				fresh = vh.And(fresh, !vh.StrEq(t.Token, toks[i]))
			}
			distinct := true
			for _, o := range issued {
				distinct = vh.And(distinct, !vh.StrEq(t.Token, o))
			}
			if !vh.FromRandomSource(t.Token) {
				// any other way of making tokens than the cryptographic generator has to guarantee that
				// two tokens issued by this process differ (e.g. not a function of the clock)
				vh.Assert("C10/issued-tokens-pairwise-distinct", distinct)
			}
			// distinctness of random strings (from each other, from the admin token and from the
			// arbitrary tokens already stored): an assumption about the generator
			vh.Assume(vh.And(fresh, distinct))
			issued = append(issued, t.Token)
			in = vh.Or(in, vh.StrEq(probe, t.Token))
			// it authenticates from that moment
			got, gerr := svc.GetToken(t.Token)
			vh.Assert("C10/issued-token-authenticates-at-once", vh.And(gerr == nil, got != nil))
		case 1: // revoke an arbitrary value (existing, unknown, admin, already revoked)
			x := vh.NondetStr("revoke")
			_ = svc.DeleteToken(x)
			in = vh.And(in, !vh.StrEq(probe, x))
		case 2: // authenticate an arbitrary value: must not change anything
			x := vh.NondetStr("auth")
			_, _ = svc.GetToken(x)
		}
	}
	got, err := svc.GetToken(probe)
	isAdmin := vh.StrEq(probe, admin)
	vh.Assert("C10/authenticates-iff-admin-or-issued-and-not-revoked", vh.Iff(vh.And(err == nil, got != nil), vh.Or(isAdmin, in)))
	if err == nil && got != nil {
		vh.Assert("C10/admin-flag-exact", vh.Iff(got.IsAdmin, isAdmin))
		vh.Assert("C10/token-value-echoed", vh.StrEq(got.Token, probe))
	}
	// the admin token can never be disabled through the API
	a, aerr := svc.GetToken(admin)
	vh.Assert("C10/admin-always-authenticates-as-admin", vh.And(aerr == nil, a != nil))
	if a != nil {
		vh.Assert("C10/admin-always-authenticates-as-admin", a.IsAdmin)
	}
	vh.Reach("end")
}

// HarnessRevokeRace: an authentication of the token being revoked is served at ANY storage-operation
// boundary inside the revocation (another request arriving in the meantime). Once the revocation
// has returned, the token must not authenticate any more - whatever that overlapping request did.
func HarnessRevokeRace(k int) {
	admin := vh.NondetStr("admin")
	vh.Assume(!vh.StrEq(admin, ""))
	db, toks := Table(k, admin)
	svc := service.NewTokenService(hstore.Repos(db), admin)
	victim := toks[vh.Choose(k)]
	// warm-up: the token has been used before
	_, _ = svc.GetToken(victim)
	overlapped := false
	vhdb.Intrude(db, 1+vh.Choose(4), func() {
		overlapped = true
		_, _ = svc.GetToken(victim)
	})
	err := svc.DeleteToken(victim)
	vh.Observe("overlapped", overlapped)
	vh.Assert("C10/revoke-succeeds", err == nil)
	got, gerr := svc.GetToken(victim)
	vh.Assert("C10/revoked-token-never-authenticates-afterwards", vh.And(gerr != nil, got == nil))
	for i := range toks {
		if toks[i] != victim {
			o, oerr := svc.GetToken(toks[i])
			vh.Assert("C10/other-tokens-unaffected-by-revocation", vh.And(oerr == nil, o != nil))
		}
	}
	vh.Reach("end")
}

// HarnessOddValues: strings are atoms in the encoding, so values whose bytes matter - quotes that
// would end an SQL literal if a statement were assembled from data, SQL wildcards, case variants,
// prefixes - come from a menu of concrete strings. One revocation of such a value, then: it does
// not authenticate itself, and both stored tokens and the admin token still do.
func HarnessOddValues() {
	const admin, a, b = "Adm1n-token_9z", "Stored-tok_7q", "Other-tok_3w"
	db := vhdb.NewDB()
	vhdb.InsertTokenRow(db, dto.DbToken{Token: a, CreatedAt: vh.NondetTime("created")})
	vhdb.InsertTokenRow(db, dto.DbToken{Token: b, CreatedAt: vh.NondetTime("created")})
	svc := service.NewTokenService(hstore.Repos(db), admin)
	odd := []string{"x' OR '1'='1", "' OR ''='", "x' OR token LIKE '%", "Stored-tok_7q' --", "%", "_tored-tok_7q", "Stored-tok_7", "stored-tok_7q", "STORED-TOK_7Q",
		"Stored-tok_7q ", "", "Stored-tok_7q\x00", a + b, "x'; DELETE FROM tokens; --", "\\", "x\" OR \"1\"=\"1"}
	x := odd[vh.Choose(len(odd))]
	vh.Observe("value", x)

	got, gerr := svc.GetToken(x)
	vh.Assert("C10/authenticates-iff-admin-or-issued-and-not-revoked", gerr != nil && got == nil)
	_ = svc.DeleteToken(x)
	got, gerr = svc.GetToken(x)
	vh.Assert("C10/authenticates-iff-admin-or-issued-and-not-revoked", gerr != nil && got == nil)
	for _, t := range []string{a, b} {
		o, oerr := svc.GetToken(t)
		vh.Assert("C10/other-tokens-unaffected-by-revocation", oerr == nil && o != nil && !o.IsAdmin)
	}
	ad, aerr := svc.GetToken(admin)
	vh.Assert("C10/admin-always-authenticates-as-admin", aerr == nil && ad != nil && ad.IsAdmin)
	vh.Reach("end")
}
