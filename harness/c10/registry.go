package c10

// Registry lists the harness entry points of this package for native replay.
var Registry = map[string]func([]int64){
	"HarnessOps":        func(a []int64) { HarnessOps(int(a[0]), int(a[1])) },
	"HarnessRevokeRace": func(a []int64) { HarnessRevokeRace(int(a[0])) },
	"HarnessOddValues":  func(a []int64) { HarnessOddValues() },
}
