// Package c05: a crash or a failing write at any write-transaction boundary of an ingestion step.
package c05

import (
	"math/big"

	"github.com/bitcoin-sv/block-headers-service/domains"
	"github.com/bitcoin-sv/block-headers-service/internal/chaincfg"
	"github.com/bitcoin-sv/block-headers-service/internal/chaincfg/chainhash"
	"github.com/bitcoin-sv/block-headers-service/internal/zzverif/hstore"
	"github.com/bitcoin-sv/block-headers-service/internal/zzverif/vh"
	"github.com/bitcoin-sv/block-headers-service/internal/zzverif/vhdb"
	"github.com/bitcoin-sv/block-headers-service/service"
	"github.com/jmoiron/sqlx"
)

type fixedHasher struct{ h chainhash.Hash }

func (a fixedHasher) BlockHash(*domains.BlockHeaderSource) domains.BlockHash {
	return domains.BlockHash(a.h)
}

type recNotifier struct{ n int }

func (r *recNotifier) Notify(any) { r.n++ }

var BitsMenu = []uint32{0x1d00ffff, 0x03000001, 0x207fffff}

func chains(db *sqlx.DB, hash chainhash.Hash, n *recNotifier) service.Chains {
	return service.NewChainsService(hstore.Repos(db), &chaincfg.Params{}, vh.Logger(), fixedHasher{hash}, n)
}

// structurallyValid: exactly one longest-chain header at every height from genesis to the tip, parent-linked.
func structurallyValid(hs []hstore.H) bool {
	cs := []bool{hs[0].State == hstore.L, hs[0].Height == 0}
	for i := 1; i < len(hs); i++ {
		lpar := false
		for j := range hs {
			lpar = vh.Or(lpar, vh.And(j != i, hs[j].State == hstore.L, vh.HashEq(hs[j].Hash, hs[i].Prev), hs[j].Height+1 == hs[i].Height))
		}
		cs = append(cs, vh.Implies(hs[i].State == hstore.L, lpar))
		for j := 0; j < i; j++ {
			cs = append(cs, !vh.And(hs[i].State == hstore.L, hs[j].State == hstore.L, hs[i].Height == hs[j].Height))
		}
	}
	return vh.And(cs...)
}

// HarnessFaultyAdd: one ingestion step from an arbitrary INV-H store with a kill after, or a
// failure of, the j-th write transaction (j = 1..3, every boundary of a reorganising Add);
// then restart and redelivery of the same header; compared with the uninterrupted run.
func HarnessFaultyAdd(k int) { faultyAdd(k, false) }

// HarnessFaultyReorg: the same with the submission restricted to headers whose parent is a
// stored STALE header (the submissions that can reorganise the chain) - a cheaper slice of
// HarnessFaultyAdd that reaches one row further in the quick tier.
func HarnessFaultyReorg(k int) { faultyAdd(k, true) }

func faultyAdd(k int, staleParentOnly bool) {
	pre := make([]hstore.H, k)
	for i := range pre {
		pre[i] = hstore.NondetH()
	}
	vh.Assume(hstore.Inv(pre, nil))
	vh.Assume(hstore.PositiveWork(pre))
	newHash := vh.NondetHash("newhash")
	bs := domains.BlockHeaderSource{Version: vh.NondetI32("sversion"), PrevBlock: vh.NondetHash("sprev"), MerkleRoot: vh.NondetHash("smerkle"),
		Timestamp: vh.NondetTime("sts"), Bits: BitsMenu[vh.Choose(len(BitsMenu))], Nonce: vh.NondetU32("snonce")}
	hashes, prevs := []chainhash.Hash{newHash}, []chainhash.Hash{bs.PrevBlock}
	for i := range pre {
		hashes, prevs = append(hashes, pre[i].Hash), append(prevs, pre[i].Prev)
	}
	vh.Assume(hstore.Acyclic(hashes, prevs))
	vh.Assume(!vh.HashEq(newHash, pre[0].Prev))
	if staleParentOnly {
		staleParent := false
		for i := range pre {
			staleParent = vh.Or(staleParent, vh.And(vh.HashEq(pre[i].Hash, bs.PrevBlock), pre[i].State == hstore.S))
			vh.Assume(!vh.HashEq(pre[i].Hash, newHash))
		}
		vh.Assume(staleParent)
	}

	// reference: the uninterrupted run
	ref := hstore.Store(pre)
	_, refErr := chains(ref, newHash, &recNotifier{}).Add(bs)
	want, okW := hstore.Load(ref)
	vh.Assume(okW)

	// the faulty run
	// 0 = kill after the j-th commit, 1 = the j-th commit fails, 2 = the first write statement inside
	// the j-th write transaction fails (error from the statement, the rollback then succeeds)
	mode := vh.Choose(3)
	j := 1 + vh.Choose(3)
	db := hstore.Store(pre)
	note := &recNotifier{}
	var ferr error
	killed := false
	if mode == 0 {
		vhdb.KillAfterCommit(db, j)
		killed = vhdb.RunUntilKill(func() { _, ferr = chains(db, newHash, note).Add(bs) })
	} else if mode == 1 {
		vhdb.FailCommit(db, j)
		_, ferr = chains(db, newHash, note).Add(bs)
	} else {
		vhdb.FailStatement(db, j)
		_, ferr = chains(db, newHash, note).Add(bs)
	}
	hit := vhdb.WriteCount(db) >= j // the fault position was reached at all
	if mode == 2 {
		hit = vhdb.FaultFired(db)
	}
	vh.Observe("hit", hit)
	vh.Observe("killed", killed)
	db = vhdb.Reopen(db) // restart
	mid, okM := hstore.Load(db)
	vh.Assert("C05/rows-wellformed-after-fault", okM)
	if !okM {
		return
	}
	// (i) acknowledged headers present and unaltered; the store is structurally valid
	vh.Assert("C05/no-acknowledged-header-lost", len(mid) >= k)
	if len(mid) < k {
		return
	}
	for i := 0; i < k; i++ {
		vh.Assert("C05/acknowledged-headers-unaltered", hstore.SameButState(pre[i], mid[i]))
	}
	vh.Class("F1-fault-between-the-two-state-updates-of-a-reorganisation", vh.And(hit, j == 1, len(want) == k+1))
	vh.Assert("C05/structurally-valid-after-fault", structurallyValid(mid))
	vh.Assert("C05/failed-store-reports-error-and-no-event", vh.Implies(vh.And(mode >= 1, hit), vh.And(ferr != nil, note.n == 0)))

	// (ii) redelivery of the same header after the restart
	_, rerr := chains(db, newHash, &recNotifier{}).Add(bs)
	got, okG := hstore.Load(db)
	vh.Assert("C05/rows-wellformed-after-redelivery", okG)
	if !okG {
		return
	}
	vh.Assert("C05/redelivery-not-stuck", vh.Or(rerr == nil, service.HeaderAlreadyExists.Is(rerr), refErr != nil))
	vh.Assert("C05/redelivery-reaches-uninterrupted-state", len(got) == len(want))
	if len(got) == len(want) {
		for i := range got {
			vh.Assert("C05/redelivery-reaches-uninterrupted-state", vh.And(hstore.SameButState(got[i], want[i]), got[i].State == want[i].State))
		}
	}
	_ = big.NewInt
	vh.Reach("end")
}
