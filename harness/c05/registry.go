package c05

// Registry lists the harness entry points of this package for native replay.
var Registry = map[string]func([]int64){
	"HarnessFaultyAdd":   func(a []int64) { HarnessFaultyAdd(int(a[0])) },
	"HarnessFaultyReorg": func(a []int64) { HarnessFaultyReorg(int(a[0])) },
}
