package c09

// Registry lists the harness entry points of this package for native replay.
var Registry = map[string]func([]int64){
	"HarnessRouteTable":     func(a []int64) { HarnessRouteTable(int(a[0]), int(a[1])) },
	"HarnessAuth":           func(a []int64) { HarnessAuth(int(a[0]), int(a[1]), int(a[2])) },
	"HarnessRevokedLater":   func(a []int64) { HarnessRevokedLater(int(a[0])) },
	"HarnessNearMissTokens": func(a []int64) { HarnessNearMissTokens() },
}
