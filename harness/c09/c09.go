// Package c09: every API route is mediated by authentication.
package c09

import (
	"strings"

	"github.com/bitcoin-sv/block-headers-service/config"
	"github.com/bitcoin-sv/block-headers-service/internal/zzverif/happ"
	"github.com/bitcoin-sv/block-headers-service/internal/zzverif/vh"
	"github.com/bitcoin-sv/block-headers-service/internal/zzverif/vhdb"
	"github.com/bitcoin-sv/block-headers-service/internal/zzverif/vhgin"
	"github.com/bitcoin-sv/block-headers-service/repository/dto"
)

const apiPrefix = "/api/v1"

// OtherHeaders: request headers, other than Authorization, given arbitrary values in HarnessAuth.
var OtherHeaders = []string{"Origin", "Access-Control-Request-Method", "Access-Control-Request-Headers", "X-Forwarded-For", "X-Real-Ip", "X-Api-Key",
	"X-Auth-Token", "Cookie", "Upgrade", "Connection", "Referer", "User-Agent", "X-Requested-With", "X-Forwarded-Proto", "X-Internal", "Proxy-Authorization"}

func paramsOf(pattern string) map[string]string {
	ps := map[string]string{}
	for _, seg := range strings.Split(pattern, "/") {
		if strings.HasPrefix(seg, ":") || strings.HasPrefix(seg, "*") {
			ps[seg[1:]] = vh.NondetAtom("param")
		}
	}
	return ps
}

// HarnessRouteTable: the only routes outside the authenticated prefix are status, documentation,
// metrics, profiling (only when enabled) and the websocket upgrade.
func HarnessRouteTable(useAuth int, profiling int) {
	db := vhdb.NewDB()
	app := happ.New(db, &config.HTTPConfig{UseAuth: useAuth == 1, AuthToken: "admin-token", ProfilingEndpointsEnabled: profiling == 1}, 3, 6)
	routes := vhgin.Routes(app.Engine)
	vh.Assert("C09/routes-registered", len(routes) >= 15)
	nProfile := 0
	for _, r := range routes {
		if strings.HasPrefix(r.Path, apiPrefix+"/") {
			continue
		}
		if r.Method == "GET" && strings.HasPrefix(r.Path, "/pprof/debug/") {
			nProfile++
			vh.Assert("C09/profiling-only-when-enabled", profiling == 1)
			continue
		}
		ok := (r.Method == "GET" && r.Path == "/status") || (r.Method == "GET" && strings.HasPrefix(r.Path, "/swagger/")) ||
			(r.Method == "GET" && r.Path == "/metrics") || (r.Method == "GET" && r.Path == "/connection/websocket")
		if !ok {
			vh.Observe("unexpected-route", r.Method+" "+r.Path)
		}
		vh.Assert("C09/only-allowed-routes-outside-api-prefix", ok)
	}
	vh.Assert("C09/profiling-only-when-enabled", (nProfile > 0) == (profiling == 1))
	vh.Reach("end")
}

// HarnessAuth: for EVERY route registered under the API prefix (enumerated from the routing table
// of the working tree), any Authorization header of 0..3 space-separated atoms, an arbitrary
// admin token and an arbitrary tokens table.
func HarnessAuth(useAuth int, profiling int, k int) {
	db := vhdb.NewDB()
	admin := vh.NondetAtom("admin")
	vh.Assume(!vh.StrEq(admin, ""))
	toks := make([]string, k)
	for i := range toks {
		toks[i] = vh.NondetAtom("stored")
		for j := 0; j < i; j++ {
			vh.Assume(!vh.StrEq(toks[i], toks[j]))
		}
		vhdb.InsertTokenRow(db, dto.DbToken{Token: toks[i], CreatedAt: vh.NondetTime("created")})
	}
	app := happ.New(db, &config.HTTPConfig{UseAuth: useAuth == 1, AuthToken: admin, ProfilingEndpointsEnabled: profiling == 1}, 3, 6)
	routes := vhgin.Routes(app.Engine)
	var api []vhgin.Route
	for _, r := range routes {
		if strings.HasPrefix(r.Path, apiPrefix+"/") {
			api = append(api, r)
		}
	}
	vh.Assert("C09/api-routes-registered", len(api) >= 15)
	r := api[vh.Choose(len(api))]
	vh.Observe("route", r.Method+" "+r.Path)

	n := vh.Choose(4) // number of space-separated parts of the Authorization header
	atoms := make([]string, n)
	header := ""
	for i := 0; i < n; i++ {
		atoms[i] = vh.NondetAtom("part")
		if i > 0 {
			header += " "
		}
		header += atoms[i]
	}
	// besides the Authorization header the request carries arbitrary (possibly absent) values of
	// the headers that proxies, browsers and other authentication schemes use
	headers := map[string]string{"Authorization": header}
	for _, name := range OtherHeaders {
		headers[name] = vh.NondetAtom("header")
	}
	req := vhgin.Req{Params: paramsOf(r.Path), Headers: headers, BindFails: true}
	before := vhdb.WriteCount(db)

	resp := vhgin.Serve(app.Engine, r.Method, r.Path, req)

	authorized, isAdmin := false, false
	if n == 2 {
		known := vh.StrEq(atoms[1], admin)
		for i := range toks {
			known = vh.Or(known, vh.StrEq(atoms[1], toks[i]))
		}
		authorized = vh.And(vh.StrEq(atoms[0], "Bearer"), known)
		isAdmin = vh.And(authorized, vh.StrEq(atoms[1], admin))
	}
	adminRoute := (r.Method == "POST" && r.Path == apiPrefix+"/access") || (r.Method == "DELETE" && r.Path == apiPrefix+"/access/:token")
	allowed := authorized
	if adminRoute {
		allowed = isAdmin
	}
	vh.Observe("status", resp.Status)
	if useAuth == 1 {
		refused := vh.And(resp.Status == 401, resp.Documents == 1, !vh.StrEq(resp.ErrCode, ""), !vh.StrEq(resp.ErrMsg, ""), resp.Aborted || !vh.Symbolic(),
			vhdb.WriteCount(db) == before)
		vh.Assert("C09/unauthenticated-gets-structured-401-before-any-handler-logic", vh.Implies(!allowed, refused))
		vh.Assert("C09/authenticated-is-let-through", vh.Implies(allowed, resp.Status != 401))
	} else {
		vh.Assert("C09/auth-disabled-routes-reachable-without-credentials", resp.Status != 401)
	}
	vh.Reach("end")
}

// HarnessRevokedLater: the authentication decision is taken afresh on every request. A stored
// token is used on an arbitrary API route (let through), then revoked by the administrator
// through the API, then presented again on the same route: structured 401. (State the process
// keeps between requests - a cache of accepted tokens - is what a single-request lemma cannot see.)
func HarnessRevokedLater(k int) {
	db := vhdb.NewDB()
	admin := vh.NondetAtom("admin")
	vh.Assume(!vh.StrEq(admin, ""))
	toks := make([]string, k)
	for i := range toks {
		toks[i] = vh.NondetAtom("stored")
		vh.Assume(!vh.StrEq(toks[i], admin))
		for j := 0; j < i; j++ {
			vh.Assume(!vh.StrEq(toks[i], toks[j]))
		}
		vhdb.InsertTokenRow(db, dto.DbToken{Token: toks[i], CreatedAt: vh.NondetTime("created")})
	}
	app := happ.New(db, &config.HTTPConfig{UseAuth: true, AuthToken: admin}, 3, 6)
	var api []vhgin.Route
	var revoke *vhgin.Route
	for _, r := range vhgin.Routes(app.Engine) {
		if !strings.HasPrefix(r.Path, apiPrefix+"/") {
			continue
		}
		if r.Method == "DELETE" && r.Path == apiPrefix+"/access/:token" {
			rr := r
			revoke = &rr
			continue
		}
		if r.Method == "POST" && r.Path == apiPrefix+"/access" {
			continue // admin only
		}
		api = append(api, r)
	}
	vh.Assert("C09/api-routes-registered", len(api) >= 13 && revoke != nil)
	if revoke == nil {
		return
	}
	r := api[vh.Choose(len(api))]
	vh.Observe("route", r.Method+" "+r.Path)
	victim := toks[vh.Choose(k)]
	req := vhgin.Req{Params: paramsOf(r.Path), Headers: map[string]string{"Authorization": "Bearer " + victim}, BindFails: true}

	first := vhgin.Serve(app.Engine, r.Method, r.Path, req)
	vh.Assert("C09/authenticated-is-let-through", first.Status != 401)

	del := vhgin.Serve(app.Engine, revoke.Method, revoke.Path, vhgin.Req{Params: map[string]string{"token": victim}, Headers: map[string]string{"Authorization": "Bearer " + admin}})
	vh.Observe("revoke_status", del.Status)
	vh.Assert("C09/administrator-can-revoke", del.Status >= 200 && del.Status < 300)

	again := vhgin.Serve(app.Engine, r.Method, r.Path, req)
	vh.Observe("status_after_revocation", again.Status)
	vh.Assert("C09/revoked-token-gets-structured-401-on-the-next-request", vh.And(again.Status == 401, again.Documents == 1, !vh.StrEq(again.ErrCode, ""), !vh.StrEq(again.ErrMsg, "")))
	vh.Reach("end")
}

// HarnessNearMissTokens: strings are atoms in the encoding (equal or not), so the byte-level
// near misses of the two valid credentials are taken from a menu of concrete strings instead:
// proper prefixes (including the empty string), extensions, case variants, SQL wildcards and the
// concatenation of the two. Every API route; only the exact admin token and the exact stored
// token are let through (the stored one not on the admin-only routes).
func HarnessNearMissTokens() {
	const admin, stored = "Adm1n-token_9z", "Stored-tok_7q"
	db := vhdb.NewDB()
	vhdb.InsertTokenRow(db, dto.DbToken{Token: stored, CreatedAt: vh.NondetTime("created")})
	app := happ.New(db, &config.HTTPConfig{UseAuth: true, AuthToken: admin}, 3, 6)
	var api []vhgin.Route
	for _, r := range vhgin.Routes(app.Engine) {
		if strings.HasPrefix(r.Path, apiPrefix+"/") {
			api = append(api, r)
		}
	}
	vh.Assert("C09/api-routes-registered", len(api) >= 15)
	r := api[vh.Choose(len(api))]
	vh.Observe("route", r.Method+" "+r.Path)
	cands := []string{admin, stored, "", "A", "Adm1n-token_9", "Adm1n-token_9zz", "adm1n-token_9z", "ADM1N-TOKEN_9Z", "dm1n-token_9z",
		"Stored-tok_7", "Stored-tok_7qq", "stored-tok_7q", "tored-tok_7q", admin + stored, "%", "_", "Stored-tok_7_", "Adm1n-token_9%"}
	c := vh.Choose(len(cands))
	cand := cands[c]
	vh.Observe("presented", cand)
	req := vhgin.Req{Params: paramsOf(r.Path), Headers: map[string]string{"Authorization": "Bearer " + cand}, BindFails: true}
	before := vhdb.WriteCount(db)

	resp := vhgin.Serve(app.Engine, r.Method, r.Path, req)

	adminRoute := (r.Method == "POST" && r.Path == apiPrefix+"/access") || (r.Method == "DELETE" && r.Path == apiPrefix+"/access/:token")
	allowed := c == 0 || (c == 1 && !adminRoute)
	vh.Observe("status", resp.Status)
	if allowed {
		vh.Assert("C09/authenticated-is-let-through", resp.Status != 401)
	} else {
		vh.Assert("C09/unauthenticated-gets-structured-401-before-any-handler-logic", vh.And(resp.Status == 401, resp.Documents == 1,
			!vh.StrEq(resp.ErrCode, ""), !vh.StrEq(resp.ErrMsg, ""), resp.Aborted || !vh.Symbolic(), vhdb.WriteCount(db) == before))
	}
	vh.Reach("end")
}
