// Package happ assembles the HTTP application the way cmd/main.go does, over a harness database.
package happ

import (
	"net/http"

	"github.com/bitcoin-sv/block-headers-service/config"
	"github.com/bitcoin-sv/block-headers-service/domains"
	"github.com/bitcoin-sv/block-headers-service/internal/chaincfg"
	"github.com/bitcoin-sv/block-headers-service/internal/zzverif/hstore"
	"github.com/bitcoin-sv/block-headers-service/internal/zzverif/vh"
	"github.com/bitcoin-sv/block-headers-service/internal/zzverif/vhgin"
	"github.com/bitcoin-sv/block-headers-service/metrics"
	"github.com/bitcoin-sv/block-headers-service/notification"
	"github.com/bitcoin-sv/block-headers-service/service"
	"github.com/bitcoin-sv/block-headers-service/transports/http/endpoints"
	peerpkg "github.com/bitcoin-sv/block-headers-service/transports/p2p/peer"
	"github.com/bitcoin-sv/block-headers-service/transports/websocket"
	"github.com/gin-gonic/gin"
	"github.com/jmoiron/sqlx"
)

// NoClient is a webhook target client that is never expected to be called.
type NoClient struct{ Calls int }

func (c *NoClient) Call(map[string]string, string, string, any) (*http.Response, error) {
	c.Calls++
	return nil, http.ErrServerClosed
}

type hasher struct{}

func (hasher) BlockHash(h *domains.BlockHeaderSource) domains.BlockHash {
	return service.DefaultBlockHasher().BlockHash(h)
}

// App is the assembled application.
type App struct {
	Engine   *gin.Engine
	Services *service.Services
	Client   *NoClient
}

// New wires services and routes like cmd/main.go: metrics.Register, endpoints.SetupRoutes, websocket entrypoint.
func New(db *sqlx.DB, httpCfg *config.HTTPConfig, maxTries int, excess int) *App {
	return NewWithHasher(db, httpCfg, maxTries, excess, hasher{})
}

// NewWithHasher is New with the block hasher of the chain service supplied by the harness (an
// arbitrary hash per submitted header instead of the real double SHA-256).
func NewWithHasher(db *sqlx.DB, httpCfg *config.HTTPConfig, maxTries int, excess int, bh service.BlockHasher) *App {
	log := vh.Logger()
	repos := hstore.Repos(db)
	client := &NoClient{}
	notifier := notification.NewNotifier()
	s := &service.Services{
		Network:     service.NewNetworkService(map[*peerpkg.Peer]*peerpkg.SyncState{}),
		Headers:     service.NewHeaderService(repos, nil, log),
		Merkleroots: service.NewMerklerootsService(repos, &config.MerkleRootConfig{MaxBlockHeightExcess: excess}, log),
		Notifier:    notifier,
		Chains:      service.NewChainsService(repos, &chaincfg.Params{}, log, bh, notifier),
		Tokens:      service.NewTokenService(repos, httpCfg.AuthToken),
		Webhooks:    notification.NewWebhooksService(repos.Webhooks, client, log, &config.WebhookConfig{MaxTries: maxTries}),
		Logger:      log,
	}
	e := vhgin.NewEngine()
	metrics.Register(e)
	endpoints.SetupRoutes(s, httpCfg)(e)
	if ws, err := websocket.NewServer(log, s, httpCfg.UseAuth); err == nil {
		ws.SetupEntrypoint(e)
	}
	return &App{Engine: e, Services: s, Client: client}
}
