// Package vhws gives harnesses access to the connect handshake handler registered on a centrifuge node.
package vhws

import (
	"context"
	"reflect"
	"unsafe"

	"github.com/bitcoin-sv/block-headers-service/internal/zzverif/vh"
	"github.com/centrifugal/centrifuge"
)

// NewNode returns a node that is never started.
func NewNode() *centrifuge.Node {
	n, err := centrifuge.New(centrifuge.Config{})
	if err != nil {
		panic(vh.Diverged{Why: err.Error()})
	}
	return n
}

// Connecting runs the registered OnConnecting handler with the given token and reports whether
// the connection is accepted.
func Connecting(n *centrifuge.Node, token string) bool {
	hub := reflect.ValueOf(n).Elem().FieldByName("clientEvents")
	hub = reflect.NewAt(hub.Type(), unsafe.Pointer(hub.UnsafeAddr())).Elem()
	f := hub.Elem().FieldByName("connectingHandler")
	f = reflect.NewAt(f.Type(), unsafe.Pointer(f.UnsafeAddr())).Elem()
	h, ok := f.Interface().(centrifuge.ConnectingHandler)
	if !ok || h == nil {
		panic(vh.Diverged{Why: "no connecting handler registered"})
	}
	_, err := h(context.Background(), centrifuge.ConnectEvent{Token: token})
	return err == nil
}
