package c13

// Registry lists the harness entry points of this package for native replay.
var Registry = map[string]func([]int64){
	"HarnessLocator":    func([]int64) { HarnessLocator() },
	"HarnessGetHeaders": func(a []int64) { HarnessGetHeaders(int(a[0]), int(a[1])) },
	"HarnessRange":      func([]int64) { HarnessRange() },
}
