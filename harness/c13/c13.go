// Package c13: block locators and getheaders answers.
package c13

import (
	"errors"
	"math/big"

	"github.com/bitcoin-sv/block-headers-service/domains"
	"github.com/bitcoin-sv/block-headers-service/internal/chaincfg/chainhash"
	"github.com/bitcoin-sv/block-headers-service/internal/zzverif/hstore"
	"github.com/bitcoin-sv/block-headers-service/internal/zzverif/vh"
	repo "github.com/bitcoin-sv/block-headers-service/repository"
	"github.com/bitcoin-sv/block-headers-service/service"
)

// hashAt encodes a height injectively into a hash: the abstract longest chain has hashAt(h) at height h.
func hashAt(h int32) chainhash.Hash {
	var x chainhash.Hash
	x[0], x[1], x[2], x[3] = byte(h), byte(h>>8), byte(h>>16), byte(h>>24)
	x[31] = 0xaa
	return x
}

func heightOf(x *chainhash.Hash) int32 {
	return int32(x[0]) | int32(x[1])<<8 | int32(x[2])<<16 | int32(x[3])<<24
}

// absChain is an abstract longest chain of height tip: every height 0..tip has exactly one header.
// (That GetHeaderByHeight returns the longest-chain row of that height, and GetTip the highest
// one, is the repository lemma checked on symbolic stores by HarnessGetHeaders and by C01/C04.)
type absChain struct {
	repo.Headers
	tip   int32
	calls int
}

func (a *absChain) GetTip() (*domains.BlockHeader, error) {
	return &domains.BlockHeader{Height: a.tip, Hash: hashAt(a.tip), CumulatedWork: big.NewInt(0), Chainwork: big.NewInt(0)}, nil
}

func (a *absChain) GetHeaderByHeight(h int32) (*domains.BlockHeader, error) {
	a.calls++
	vh.Assert("C13/locator-asks-only-stored-heights", vh.And(h >= 0, h <= a.tip))
	return &domains.BlockHeader{Height: h, Hash: hashAt(h), CumulatedWork: big.NewInt(0), Chainwork: big.NewInt(0)}, nil
}

// HarnessLocator: for EVERY tip height, the locator starts at the tip, ends at genesis, is strictly
// descending, steps back by one for the first entries and then doubles the step, and its length is
// at most 12 + floor(log2(H-10)) (H+1 for H <= 12).
func HarnessLocator() {
	vh.SetUnwind(80)
	tip := vh.NondetI32("tip")
	vh.Assume(tip >= 0)
	ch := &absChain{tip: tip}
	hs := service.NewHeaderService(&repo.Repositories{Headers: ch}, nil, vh.Logger())
	loc := hs.LatestHeaderLocator()
	n := len(loc)
	vh.Observe("n", n)
	vh.Assert("C13/locator-nonempty", n >= 1)
	if n < 1 {
		return
	}
	vh.Assert("C13/locator-starts-at-tip", vh.HashEq(*loc[0], hashAt(tip)))
	vh.Assert("C13/locator-ends-at-genesis", vh.HashEq(*loc[n-1], hashAt(0)))
	step := int32(1)
	for i := 1; i < n; i++ {
		prev, cur := heightOf(loc[i-1]), heightOf(loc[i])
		vh.Assert("C13/locator-strictly-descending", cur < prev)
		// every entry is a longest-chain hash of the abstract chain
		vh.Assert("C13/locator-only-longest-chain-hashes", vh.And(vh.HashEq(*loc[i], hashAt(cur)), cur >= 0, cur <= tip))
		want := prev - step
		if i == n-1 {
			// the last step is cut at genesis
			vh.Assert("C13/locator-step-pattern", vh.And(cur == 0, want <= 0))
		} else {
			vh.Assert("C13/locator-step-pattern", cur == want)
		}
		if i > 10 {
			step *= 2
		}
	}
	// size bound: H+1 entries up to height 12, afterwards 12 + floor(log2(H-10))
	if n > 13 {
		// 2^(n-13) <= H-10 must hold for a locator of n entries
		vh.Assert("C13/locator-length-bound", (int64(1)<<uint(n-13)) <= int64(tip)-10)
	} else {
		vh.Assert("C13/locator-length-bound", vh.Or(int32(n) <= tip+1, tip > 12))
	}
	vh.Reach("end")
}

// HarnessGetHeaders: the answer to getheaders(locator, stop) on an arbitrary INV-H store.
func HarnessGetHeaders(k int, nloc int) {
	pre := make([]hstore.H, k)
	for i := range pre {
		pre[i] = hstore.NondetH()
	}
	vh.Assume(hstore.Inv(pre, nil))
	db := hstore.Store(pre)
	hs := service.NewHeaderService(hstore.Repos(db), nil, vh.Logger())
	locs := make([]*chainhash.Hash, nloc)
	lv := make([]chainhash.Hash, nloc)
	for i := range locs {
		lv[i] = vh.NondetHash("loc")
		locs[i] = &lv[i]
	}
	stop := vh.NondetHash("stop")
	zero := chainhash.Hash{}

	out, err := hs.LocateHeadersGetHeaders(locs, &stop)

	// S: height of the highest locator entry on the longest chain, 0 if none
	S := int32(0)
	for i := range pre {
		in := false
		for j := range lv {
			in = vh.Or(in, vh.HashEq(lv[j], pre[i].Hash))
		}
		S = vh.IteI32(vh.And(in, pre[i].State == hstore.L, pre[i].Height > S), pre[i].Height, S)
	}
	tipH := int32(0)
	stopOnLongest := false
	stopH := int32(0)
	for i := range pre {
		tipH = vh.IteI32(vh.And(pre[i].State == hstore.L, pre[i].Height > tipH), pre[i].Height, tipH)
		m := vh.And(vh.HashEq(stop, pre[i].Hash), pre[i].State == hstore.L)
		stopOnLongest = vh.Or(stopOnLongest, m)
		stopH = vh.IteI32(m, pre[i].Height, stopH)
	}
	stopZero := vh.HashEq(stop, zero)
	// a stop on the longest chain at or below the start yields nothing; any other stop is open-ended
	bounded := vh.And(!stopZero, stopOnLongest)
	nothing := vh.And(bounded, stopH <= S)
	E := vh.IteI32(bounded, stopH, tipH)
	vh.Class("F1-stop-hash-is-genesis-treated-as-not-found", vh.And(bounded, stopH == 0))
	if nloc == 0 {
		vh.Assert("C13/empty-locator-is-an-error", err != nil)
		return
	}
	vh.Assert("C13/nothing-when-stop-at-or-below-start", vh.Implies(nothing, len(out) == 0))
	wantN := vh.IteI32(nothing, 0, E-S)
	vh.Observe("n", len(out))
	vh.Assert("C13/answer-length", int32(len(out)) == wantN)
	vh.Assert("C13/never-more-than-2000", len(out) <= 2000)
	for j := range out {
		h := S + 1 + int32(j)
		ok := false
		for i := range pre {
			ok = vh.Or(ok, vh.And(pre[i].State == hstore.L, pre[i].Height == h,
				vh.HashEq(out[j].PrevBlock, pre[i].Prev), vh.HashEq(out[j].MerkleRoot, pre[i].Merkle), out[j].Version == pre[i].Version,
				out[j].Bits == pre[i].Bits, out[j].Nonce == pre[i].Nonce, out[j].Timestamp.Unix() == pre[i].Ts.Unix()))
		}
		vh.Assert("C13/ascending-longest-chain-headers-after-start", ok)
	}
	vh.Reach("end")
}

// rangeRepo abstracts the three repository calls of getheaders by their contracts (checked on
// symbolic stores by HarnessGetHeaders): arbitrary start height, arbitrary stop height.
type rangeRepo struct {
	repo.Headers
	start, stop int
	from, to    int
	asked       bool
}

func (r *rangeRepo) GetHeadersStartHeight([]string) (int, error) { return r.start, nil }
func (r *rangeRepo) GetHeadersStopHeight(string) (int, error)    { return r.stop, nil }

// the abstract store's genesis is never the stop hash (that case is decided on symbolic stores)
func (r *rangeRepo) GetHeaderByHeight(int32) (*domains.BlockHeader, error) { return nil, errNone }

var errNone = errors.New("none")
func (r *rangeRepo) GetHeadersByHeightRange(from, to int) ([]*domains.BlockHeader, error) {
	r.asked, r.from, r.to = true, from, to
	return nil, nil
}

// HarnessRange: range arithmetic of getheaders for EVERY start/stop height: the requested range is
// (S, min(stop, S+2000)] when the stop lies ahead, (S, S+2000] for a zero/unknown stop, nothing when stop <= S.
func HarnessRange() {
	S := vh.NondetI32("S")
	stopH := vh.NondetI32("stopH")
	stopIsZero := vh.NondetBool("stopIsZero")
	vh.Assume(vh.And(S >= 0, stopH >= 0))
	rr := &rangeRepo{start: int(S), stop: int(stopH)}
	hs := service.NewHeaderService(&repo.Repositories{Headers: rr}, nil, vh.Logger())
	loc := vh.NondetHash("loc")
	stop := vh.NondetHash("stop")
	vh.Assume(vh.Iff(stopIsZero, vh.HashEq(stop, chainhash.Hash{})))
	_, err := hs.LocateHeadersGetHeaders([]*chainhash.Hash{&loc}, &stop)
	// the repository reports height 0 for an unknown or non-longest stop hash
	open := vh.Or(stopIsZero, stopH == 0)
	nothing := vh.And(!open, stopH <= S)
	vh.Assert("C13/range-nothing-when-stop-not-ahead", vh.Iff(nothing, vh.And(err != nil, !rr.asked)))
	if rr.asked {
		wantTo := vh.IteI64(vh.Or(open, int64(stopH)-int64(S) > 2000), int64(S)+2000, int64(stopH))
		vh.Assert("C13/range-bounds", vh.And(int64(rr.from) == int64(S)+1, int64(rr.to) == wantTo))
		vh.Assert("C13/range-at-most-2000", int64(rr.to)-int64(rr.from)+1 <= 2000)
	}
	vh.Reach("end")
}
