package c20

// Registry lists the harness entry points of this package for native replay.
var Registry = map[string]func([]int64){
	"HarnessValidate":       func(a []int64) { HarnessValidate() },
	"HarnessNoDbSection":    func(a []int64) { HarnessNoDbSection() },
	"HarnessPrecedence":     func(a []int64) { HarnessPrecedence(int(a[0])) },
	"HarnessTwoKeys":        func(a []int64) { HarnessTwoKeys(int(a[0]), int(a[1])) },
	"HarnessKeyAndFixedKey": func(a []int64) { HarnessKeyAndFixedKey(int(a[0]), int(a[1])) },
}
