// Package c20: the validation half of C20 - a configuration that selects an unsupported database
// engine, an empty SQLite path, incomplete Postgres settings or a missing prepared-database file is
// refused. (The precedence half - environment over file over defaults - is resolved inside viper
// and mapstructure by reflection and is outside what the executor can run: DESIGN.md §6.)
package c20

import (
	"os"
	"strings"
	"time"

	"github.com/bitcoin-sv/block-headers-service/config"
	"github.com/bitcoin-sv/block-headers-service/internal/zzverif/vh"
	"github.com/bitcoin-sv/block-headers-service/internal/zzverif/vhcfg"
	"github.com/bitcoin-sv/block-headers-service/internal/zzverif/vhdb"
	"github.com/spf13/viper"
)

// HarnessValidate: an arbitrary database section (engine an arbitrary string or one of the two
// supported names, every path and Postgres field arbitrary incl. empty, prepared-database flag
// arbitrary, the prepared file present or absent) inside an otherwise default configuration.
func HarnessValidate() {
	cfg := config.GetDefaultAppConfig()
	db := &config.DbConfig{}
	switch vh.Choose(3) {
	case 0:
		db.Engine = config.DBSQLite
	case 1:
		db.Engine = config.DBPostgreSQL
	default:
		db.Engine = config.DbEngine(vh.NondetStr("engine"))
	}
	db.SchemaPath = vh.NondetStr("schemaPath")
	db.SQLite.FilePath = vh.NondetStr("sqlitePath")
	db.Postgres = config.PostgreSQLConfig{Host: vh.NondetStr("host"), Port: uint16(vh.NondetU32("port")), User: vh.NondetStr("user"),
		Password: vh.NondetStr("password"), DbName: vh.NondetStr("dbName"), Sslmode: vh.NondetStr("sslmode")}
	db.PreparedDb = vh.NondetBool("preparedDb")
	filePresent := false
	switch vh.Choose(3) {
	case 0: // no path configured
		db.PreparedDbFilePath = ""
	case 1: // a path to a file that is not there
		db.PreparedDbFilePath = vhdb.TempRelPath(".csv.gz")
	default: // a path to an existing file
		db.PreparedDbFilePath = vhdb.TempRelPath(".csv.gz")
		f, err := os.Create(db.PreparedDbFilePath)
		vh.Assume(err == nil)
		_ = f.Close()
		filePresent = true
	}
	cfg.Db = db

	err := cfg.Validate()

	sqlite := vh.StrEq(string(db.Engine), string(config.DBSQLite))
	postgres := vh.StrEq(string(db.Engine), string(config.DBPostgreSQL))
	unsupported := vh.And(!sqlite, !postgres)
	emptySqlite := vh.And(sqlite, vh.StrEq(db.SQLite.FilePath, ""))
	incompletePg := vh.And(postgres, vh.Or(vh.StrEq(db.Postgres.Host, ""), db.Postgres.Port == 0, vh.StrEq(db.Postgres.User, ""), vh.StrEq(db.Postgres.DbName, "")))
	missingFile := vh.And(db.PreparedDb, !filePresent)
	vh.Observe("refused", err != nil)
	vh.Assert("C20/unsupported-engine-refused", vh.Implies(unsupported, err != nil))
	vh.Assert("C20/empty-sqlite-path-refused", vh.Implies(emptySqlite, err != nil))
	vh.Assert("C20/incomplete-postgres-settings-refused", vh.Implies(incompletePg, err != nil))
	vh.Assert("C20/missing-prepared-database-file-refused", vh.Implies(missingFile, err != nil))
	vh.Reach("end")
}

// HarnessNoDbSection: a configuration without a database section is refused, not dereferenced.
func HarnessNoDbSection() {
	cfg := config.GetDefaultAppConfig()
	cfg.Db = nil
	vh.Assert("C20/missing-database-section-refused", cfg.Validate() != nil)
	vh.Reach("end")
}

var logLevels = []string{"debug", "info", "warn", "error", "trace"}

// arbitrary: an arbitrary value of the leaf's type. Strings are non-empty (viper ignores empty
// environment variables) and free of spaces; the logging level, which Load parses, is a valid level name.
func arbitrary(l vhcfg.Leaf, what string) vhcfg.Val {
	switch l.Kind {
	case vhcfg.KString:
		if l.Key == "logging.level" {
			return vhcfg.Val{Kind: vhcfg.KString, S: logLevels[vh.Choose(len(logLevels))]}
		}
		s := vh.NondetAtom(what)
		vh.Assume(!vh.StrEq(s, ""))
		return vhcfg.Val{Kind: vhcfg.KString, S: s}
	case vhcfg.KInt:
		return vhcfg.Val{Kind: vhcfg.KInt, I: int64(vh.NondetI32(what))}
	case vhcfg.KBool:
		return vhcfg.Val{Kind: vhcfg.KBool, B: vh.NondetBool(what)}
	case vhcfg.KUint16:
		return vhcfg.Val{Kind: vhcfg.KUint16, I: int64(uint16(vh.NondetU32(what)))}
	default: // duration: whole seconds
		s := vh.NondetU32(what)
		vh.Assume(s < 1<<20)
		return vhcfg.Val{Kind: vhcfg.KDuration, I: int64(s) * int64(time.Second)}
	}
}

// envName: the documented rule - BHS_ prefix, upper case, dots replaced by underscores.
func envName(key string) string {
	return "BHS_" + strings.ToUpper(strings.ReplaceAll(key, ".", "_"))
}

// HarnessPrecedence: for every leaf key of the configuration structure (enumerated from the type
// of the working tree) and every subset of {environment, file} that provides a value of the key's
// type: after SetDefaults and Load the key has the environment's value if there is one, else the
// file's, else the default, and every other key has its default. src: bit 0 environment, bit 1 file.
func HarnessPrecedence(src int) {
	vhcfg.Reset()
	leaves := vhcfg.Leaves()
	vh.Assert("C20/leaf-keys-enumerated", len(leaves) >= 30)
	l := leaves[vh.Choose(len(leaves))]
	vh.Observe("key", l.Key)
	vh.Assume(l.Kind >= 0) // a key of a type the harness has no value generator for (none today) is not examined
	vEnv, vFile := arbitrary(l, "env"), arbitrary(l, "file")
	if src&1 != 0 {
		vhcfg.Setenv(envName(l.Key), vEnv)
	}
	vh.Assert("C20/set-defaults-succeeds", config.SetDefaults("v0.0.0", vh.Logger()) == nil)
	def := config.GetDefaultAppConfig()
	if src&2 != 0 {
		// the selected file: some name in the working directory, or a file called like the default
		// (config.yaml) but in another directory
		path := vhdb.TempRelPath(".yaml")
		if vh.Choose(2) == 1 {
			path = vhcfg.TempDir() + "/" + config.DefaultConfigFilePath
		}
		vhcfg.WriteYAML(path, l.Key, vFile)
		viper.Set(config.ConfigFilePathKey, path) // what the -C / --config_file option binds
	}

	cfg, _, err := config.Load(config.GetDefaultAppConfig())

	vh.Assert("C20/load-succeeds", err == nil && cfg != nil)
	if err != nil || cfg == nil {
		return
	}
	want := vhcfg.Get(def, l.Key)
	if src&2 != 0 {
		want = vFile
	}
	if src&1 != 0 {
		want = vEnv
	}
	vh.Assert("C20/environment-over-file-over-default", vhcfg.Eq(vhcfg.Get(cfg, l.Key), want))
	for _, o := range leaves {
		if o.Key != l.Key {
			vh.Assert("C20/keys-not-overridden-keep-their-defaults", vhcfg.Eq(vhcfg.Get(cfg, o.Key), vhcfg.Get(def, o.Key)))
		}
	}
	vh.Reach("end")
}

// HarnessTwoKeys: two different keys overridden at once, each from the environment, the file or
// both (srcA, srcB as in HarnessPrecedence, not 0): each gets its own value, every other key its default.
func HarnessTwoKeys(srcA int, srcB int) { twoKeys(srcA, srcB, false) }

// HarnessKeyAndFixedKey: the slice of HarnessTwoKeys in which the second key is a fixed one (the
// first leaf key, or the second if the first is the chosen one): a key overridden from one source
// while the other source provides an unrelated key.
func HarnessKeyAndFixedKey(srcA int, srcB int) { twoKeys(srcA, srcB, true) }

func twoKeys(srcA int, srcB int, fixedB bool) {
	vhcfg.Reset()
	leaves := vhcfg.Leaves()
	a := leaves[vh.Choose(len(leaves))]
	var b vhcfg.Leaf
	if fixedB {
		b = leaves[0]
		if a.Key == b.Key {
			b = leaves[1]
		}
	} else {
		b = leaves[vh.Choose(len(leaves))]
	}
	if a.Key == b.Key || a.Kind < 0 || b.Kind < 0 {
		return
	}
	vh.Observe("keys", a.Key+" "+b.Key)
	aEnv, aFile, bEnv, bFile := arbitrary(a, "a-env"), arbitrary(a, "a-file"), arbitrary(b, "b-env"), arbitrary(b, "b-file")
	if srcA&1 != 0 {
		vhcfg.Setenv(envName(a.Key), aEnv)
	}
	if srcB&1 != 0 {
		vhcfg.Setenv(envName(b.Key), bEnv)
	}
	vh.Assert("C20/set-defaults-succeeds", config.SetDefaults("v0.0.0", vh.Logger()) == nil)
	def := config.GetDefaultAppConfig()
	// one file per key would need two config files; the file provides at most one of the two keys
	wantA, wantB := vhcfg.Get(def, a.Key), vhcfg.Get(def, b.Key)
	if srcA&2 != 0 {
		path := vhdb.TempRelPath(".yaml")
		vhcfg.WriteYAML(path, a.Key, aFile)
		viper.Set(config.ConfigFilePathKey, path)
		wantA = aFile
	} else if srcB&2 != 0 {
		path := vhdb.TempRelPath(".yaml")
		vhcfg.WriteYAML(path, b.Key, bFile)
		viper.Set(config.ConfigFilePathKey, path)
		wantB = bFile
	}
	if srcA&1 != 0 {
		wantA = aEnv
	}
	if srcB&1 != 0 {
		wantB = bEnv
	}
	cfg, _, err := config.Load(config.GetDefaultAppConfig())
	vh.Assert("C20/load-succeeds", err == nil && cfg != nil)
	if err != nil || cfg == nil {
		return
	}
	vh.Assert("C20/environment-over-file-over-default", vhcfg.Eq(vhcfg.Get(cfg, a.Key), wantA))
	vh.Assert("C20/environment-over-file-over-default", vhcfg.Eq(vhcfg.Get(cfg, b.Key), wantB))
	for _, o := range leaves {
		if o.Key != a.Key && o.Key != b.Key {
			vh.Assert("C20/keys-not-overridden-keep-their-defaults", vhcfg.Eq(vhcfg.Get(cfg, o.Key), vhcfg.Get(def, o.Key)))
		}
	}
	vh.Reach("end")
}
