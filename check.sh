#!/bin/sh
# usage: check.sh <property-id> <quick|thorough> [extra bhsverif flags]
# Rebuilds the tool if needed, then regenerates the encoding from /repo's working tree and decides the property.
export GOFLAGS=-mod=mod GOPROXY=off GOTOOLCHAIN=auto
cd /verif/engine || exit 2
if [ ! -x /verif/bin/bhsverif ] || [ -n "$(find . -name '*.go' -newer /verif/bin/bhsverif 2>/dev/null | head -1)" ]; then
  mkdir -p /verif/bin && go build -o /verif/bin/bhsverif ./cmd/bhsverif || exit 2
fi
if [ ! -x /verif/bin/schemaprobe ]; then
  go build -o /verif/bin/schemaprobe ./cmd/schemaprobe || exit 2
fi
cd /verif || exit 2
id="$1"; tier="${2:-quick}"; shift; shift 2>/dev/null
exec /verif/bin/bhsverif check "$id" --tier "$tier" "$@"
