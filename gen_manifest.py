#!/usr/bin/env python3
"""Regenerates MANIFEST.json from the table below (kept next to the checks so the two stay in step)."""
import json
props=[json.loads(l)['id'] for l in open('/verif/properties.jsonl')]
TECH="solver-based checking of the real code: go/ssa of /repo's working tree executed symbolically by bhsverif, path x assertion obligations discharged by z3 (SMT-LIB2, QF bit-vectors + integers + a string datatype), counterexamples replayed natively"
claimed={
 "C19": dict(cat="proof", ref="DESIGN.md §5 C19",
   text="Every path of FastLog2Floor, CompactToBig and calcWork/CalculateWork (SSA of the working tree) is executed symbolically with bits/n ranging over all 2^32 values; the exponent byte is case-split (256 cases) and each case is decided by z3 for all mantissa and sign values against an independently stated specification (defining inequalities of the truncated quotient, exact product, floor(2^256/(T+1))). No bound: unsat on every obligation is a proof for the whole domain, modulo the trusted base.",
   note="Trusted: go/ssa as the meaning of the source, the executor and its model of math/big as exact integer arithmetic, z3. Work is checked relative to CompactToBig's result, which is checked against the specification separately."),
}
claimed["C01"]=dict(cat="model_checking", ref="DESIGN.md §5 C01",
   text="One inductive step: from an arbitrary stored headers table of k rows (every column symbolic) constrained only by the representation invariant INV-H (the property read as a state predicate), the real chainService.Add - through the real HeaderRepository, sql.HeadersDb and the SQL text of the working tree, evaluated by a relational model whose row order follows SQLite's EXPLAIN QUERY PLAN - is executed symbolically for an arbitrary submitted header; cvc5 decides on every path that INV-H holds again, that only state labels changed, that the answer is stored/duplicate/forbidden as specified and that the reported tip is the greatest-work header. Bounded in the number of stored rows (quick k<=3, thorough k<=5); inside the bound every tree shape, tie and arrival position is covered at once.",
   note="Trusted: go/ssa, the executor and its intrinsics, the sqlm SQL model (validated on every run by replaying solver models of completed paths against the natively compiled code on real SQLite), cvc5. Hash function abstracted (arbitrary hash, acyclic parent links); stored works arbitrary, submitted bits from a 6-entry menu. Known finding C01-F2 (zero-work header extending the longest chain) is reported as KNOWN-FINDING.")
claimed["C02"]=dict(cat="model_checking", ref="DESIGN.md §5 C02",
   text="The real MerklerootsService.GetMerkleRootsConfirmations -> HeaderRepository -> sql.HeadersDb (sqlTipOfChainHeight, sqlVerifyHash) -> dto.ToMerkleRootConfirmation -> mapToMerkleRootsConfirmationsResponses is executed symbolically over an arbitrary INV-H store with an arbitrary request list and an arbitrary 64-bit configured excess; cvc5 decides per item that the verdict, echoed fields and block hash are the specified ones (distance above the tip computed in unbounded arithmetic), that the overall verdict is the worst one and that the store is untouched. Bounded in rows and list length.",
   note="Trusted: go/ssa, executor, sqlm SQL model (validated per run against real SQLite by native replay of path witnesses), cvc5. JSON binding and the gin shell are outside this check. 'Follows reorganisations' is the composition with C01 (argument).")
claimed["C04"]=dict(cat="model_checking", ref="DESIGN.md §5 C04",
   text="The real HeaderService read operations (GetHeaderByHash, GetHeadersState, GetTips, GetTip, GetHeaderAncestorsByHash) are executed symbolically through HeaderRepository, sql.HeadersDb and the SQL text (incl. the recursive CTEs and the tips UNION) over an arbitrary INV-H store; cvc5 decides on every path that the answer is what the stored tree implies (found iff stored and equal in every field; tips = longest tip plus every stale/orphan leaf, as a set; ancestors = the parent-linked path iff one descends from the other, an error otherwise) and that no row changed.",
   note="Trusted: go/ssa, executor, sqlm (validated per run against real SQLite), cvc5. Not yet encoded: by-height windows, common-ancestor, JSON mapping. Where 'descends from' is ambiguous for an orphan root whose parent was stored later, either reading is accepted.")
claimed["C08"]=dict(cat="model_checking", ref="DESIGN.md §5 C08",
   text="Page lemma: the real MerklerootsService.GetMerkleRoots -> HeaderRepository.GetMerkleRoots -> sql (sqlGetSingleMerkleroot, sqlMerkleRootsFromHeight with ORDER BY/LIMIT, sqlSelectTip) is executed symbolically from an arbitrary INV-H store with pairwise distinct merkle roots, an arbitrary key string and any page size >= 0; cvc5 decides that the page holds exactly the longest-chain rows of heights start+1.. in ascending order, at most the page size, that the returned key is empty iff the page is empty or ends at the tip, and that unknown / non-longest keys give 404 / 409. The walk over pages is the induction on this lemma (argument).",
   note="Trusted: go/ssa, executor, sqlm with SQLite plan order (validated per run on real SQLite), cvc5. In-process state that survives between requests (none on the unchanged tree) is outside a single-step lemma; walks interleaved with ingestion are not composed yet.")
claimed["C13"]=dict(cat="model_checking", ref="DESIGN.md §5 C13",
   text="(a) LatestHeaderLocator is executed symbolically for EVERY tip height (71 paths cover the int32 domain) over an abstract longest chain: starts at tip, ends at genesis, strictly descending, step pattern 1,..,1,2,4,.., only longest-chain hashes, length bound. (b) range arithmetic of getheaders for every start/stop height (never more than 2000). (c) end to end: LocateHeadersGetHeaders through the real repository and SQL (IN-list MAX query, stop-height lookup, un-ORDERed range scan whose order is SQLite's index order) on arbitrary INV-H stores with arbitrary locator and stop hashes: exactly the longest-chain headers after the highest longest-chain locator entry, ascending, ending at the stop when it lies ahead, nothing when it does not.",
   note="Trusted: go/ssa, executor, sqlm (validated per run on real SQLite), cvc5. The abstract chain used in (a)/(b) is justified by (c), C01 and C04. The 2000 cap is decided on abstract heights only.")
NA={}
checks=[]
for p in props:
    if p in claimed:
        c=claimed[p]
        checks.append({"property_id":p,"quick_cmd":f"/verif/check.sh {p} quick","thorough_cmd":f"/verif/check.sh {p} thorough",
          "evidence_file":f"/verif/evidence/{p}.json","replay_cmd_template":"/verif/bin/bhsverif replay {path}","engine":"bhsverif",
          "level_claimed":{"category":c["cat"],"text":c["text"],"design_ref":c["ref"]},"level_note":c["note"],"technique":TECH})
na=[{"property_id":p,"reason":NA.get(p,"check not built yet (construction in progress; see DESIGN.md §9)")} for p in props if p not in claimed]
m={"version":1,"setup_cmd":"/verif/setup.sh",
 "hooks":{"guard":"verif","enable":"none needed: harnesses and replay tests enter through go/packages and go test overlays; nothing is compiled into /repo","baseline_off_cmd":"cd /repo && GOFLAGS=-mod=mod go test -vet=off -count=1 -timeout 25m ./...","source_commits":[],"add_only":True},
 "engines":[{"name":"bhsverif","path":"/verif/engine","serves_properties":sorted(claimed),"kind_free_text":"path-enumerating symbolic executor over go/ssa with an SMT back end (z3), SQL text model, native replay"}],
 "checks":checks,
 "notes":"Exit codes of checks: 0 all obligations discharged; 1 reproduced violation; 2 inconclusive (unsupported construct, solver unknown, vacuity, encoding mismatch).",
 "not_applicable":na}
json.dump(m,open('/verif/MANIFEST.json','w'),indent=1)
print("claimed",sorted(claimed))
