#!/bin/sh
# Build the verification tool offline and warm the build cache for /repo.
export GOFLAGS=-mod=mod GOPROXY=off GOTOOLCHAIN=auto
set -e
cd /verif/engine
mkdir -p /verif/bin /verif/work /verif/evidence /verif/replays
go build -o /verif/bin/bhsverif ./cmd/bhsverif
go build -o /verif/bin/schemaprobe ./cmd/schemaprobe
cd /repo && go build ./... 
echo setup-ok
