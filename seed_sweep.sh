#!/bin/bash
# seed_sweep.sh [tier]: runs every seeded change of /verif/seeded against the check of its property in a
# scratch worktree (never in /repo) and logs one line per seed to /verif/seed_sweep.log.
tier=${1:-quick}
wt=/tmp/sweep-wt
git -C /repo worktree remove --force $wt 2>/dev/null
git -C /repo worktree add -q --detach $wt HEAD || exit 2
: > /verif/seed_sweep.log
for d in /verif/seeded/*/; do
  id=$(basename $d)
  prop=$(python3 -c "import json;print(json.load(open('$d/meta.json'))['property'])")
  git -C $wt checkout -q -- . && git -C $wt clean -fdq
  if ! git -C $wt apply $d/patch.diff 2>/dev/null; then echo "$id $prop PATCH-DOES-NOT-APPLY" >> /verif/seed_sweep.log; continue; fi
  out=$(/verif/check.sh $prop $tier --no-evidence --repo $wt --work work-sweep 2>&1)
  v=$(echo "$out" | grep -c "^VIOLATION")
  i=$(echo "$out" | grep -c "^INCONCLUSIVE")
  o=$(echo "$out" | grep -c "^OK")
  if [ $v -gt 0 ]; then r="VIOLATION($v)"; elif [ $i -gt 0 ]; then r="INCONCLUSIVE: $(echo "$out" | grep "^INCONCLUSIVE" | head -1 | cut -c1-140)"; elif [ $o -gt 0 ]; then r="MISSED(OK)"; else r="??"; fi
  echo "$id $prop $r" >> /verif/seed_sweep.log
done
git -C /repo worktree remove --force $wt
echo done >> /verif/seed_sweep.log
