#!/bin/bash
# collect_seed.sh <worktree> <seed-id>: copies a sub-agent's seeded change into /verif/seeded/<id>/
set -e
wt=$1; id=$2; d=/verif/seeded/$id
mkdir -p $d
git -C $wt diff > $d/patch.diff
demo=$(git -C $wt ls-files --others --exclude-standard | grep _test.go | head -1)
cp $wt/$demo $d/$(basename $demo)
cp $wt/SEED_README.txt $d/README.txt
echo "$id: patch $(wc -l < $d/patch.diff) lines, demo $demo (pkg $(dirname $demo))"
