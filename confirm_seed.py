#!/usr/bin/env python3
"""Confirms a seeded change in a scratch worktree of /repo's HEAD and writes meta.json:
   patch applies, builds, existing suite passes with it, demo fails with it, demo passes without it."""
import json,os,subprocess,sys,shutil,re
TABLE={ # id: (property, demo file, package dir, -run pattern, needs)
 "C01-a":("C01","c01_demo_test.go","service","TestC01","a STALE/ORPHAN branch that is higher than the longest chain but has less work (different difficulty bits), then one more header on it"),
 "C02-a":("C02","c02_demo_test.go","service","TestC02Demo","a non-longest header above the longest tip (taller stale branch with less work, or an orphan chain) and a query height between tip and that height"),
 "C03-a":("C03","demo_test.go","service","TestC03SeedDemo","a header whose parent is a STORED orphan (orphan arrives first, then its child)"),
 "C04-a":("C04","demo_test.go","database/repository","TestC04","an orphan chain of at least two headers, then GET tips"),
 "C05-a":("C05","c05_seed_demo_test.go","service","TestC05Seed","a kill or failed write between the two state updates of a reorganisation, then redelivery"),
 "C07-a":("C07","c07_demo_test.go","transports/p2p/p2psync","TestC07","default engine, >= 2 checkpoints, tip below the first checkpoint, a header contradicting the FIRST checkpoint"),
 "C08-a":("C08","c08_demo_test.go","database/repository","TestC08","a page key used while its block is on the longest chain, a reorganisation that makes it STALE, the same key again in the same process"),
 "C09-a":("C09","demo_c09_test.go","transports/http/auth","TestC09","auth on, well-formed 'Bearer <unknown or revoked token>', observer looking past the 401 status (body/state)"),
 "C10-a":("C10","token_c10_demo_test.go","service","TestC10","an authentication of token T served between the cache drop and the SQL delete of a revocation of T"),
 "C11-a":("C11","c11_demo_test.go","service","TestC11","a storage failure exactly at the header INSERT (earlier reads succeed)"),
 "C12-a":("C12","c12_demo_test.go","database/repository","TestC12","register, fail until deactivated, re-register, then query / next event, on the real SQL repository"),
 "C13-a":("C13","c13_demo_test.go","service","TestC13","a stale/orphan header in the locator that is higher than every longest-chain hash in it"),
 "C14-a":("C14","c14_seed_demo_test.go","internal/wire","TestC14Seed","a NetAddress whose IP is in Go's 4-byte IPv4 form"),
 "C16-a":("C16","c16_demo_test.go","transports/http/endpoints/api/headers","TestC16","an orphan branch root in a commonAncestor request"),
 "C17-a":("C17","c17_demo_test.go","database","TestC17","an exported longest chain longer than one import batch (500 headers)"),
 "C19-a":("C19","c19_seed_demo_test.go","domains","TestC19SeedDemo","difficulty bits with exponent byte >= 0x23 and non-zero mantissa"),
 "C18-a":("C18","zz_seed_demo_test.go","transports/p2p","TestSeedDemo","a second ban of a host whose ban entry is still in the map (expired but not yet dropped, or still running)"),
 "C12-b":("C12","zz_seed_demo_test.go","notification","TestSeedDemo","a delivery that ends in a transport error (connection refused / timeout), not an HTTP reply"),
 "C15-a":("C15","zz_seed_demo_test.go","service","TestSeedDemo","two concurrent Add calls extending the same tip, the second one's height check falling between the first one's decision (under the lock) and its insert (outside it)"),
 "C01-b":("C01","zz_seed_demo_test.go","service","TestSeedDemo","a header forking off a longest-chain block at least two below the tip that alone outweighs the tip (non-uniform bits)"),
 "C04-b":("C04","zz_seed_demo_test.go","service","TestSeedDemo","a by-height window that contains competing headers below its top height (more rows than heights), real SQL"),
 "C03-b":("C03","zz_seed_demo_test.go","database","TestSeedDemo","a stored header whose own work is >= 2^64 (any realistic mainnet difficulty), read back through the SQL repository"),
 "C06-a":("C06","zz_seed_demo_test.go","transports/p2p/p2psync","TestSeedDemo","the sync peer disconnects while still ahead of the tip and the random choice of the next sync peer lands on it again"),
 "C16-b":("C16","zz_seed_demo_test.go","transports/http/endpoints/api/headers","TestSeedDemo","GET byHeight with a negative numeric count on the real SQL repository"),
 "C02-b":("C02","zz_seed_demo_test.go","database/repository","TestSeedDemo","a verification item at exactly the current tip height with the tip's own merkle root (real SQL)"),
 "C05-b":("C05","zz_seed_demo_test.go","service","TestSeedDemo","a storage error or kill inside the multi-row promotion of a reorganisation that promotes at least two stored headers (real SQL)"),
 "C07-b":("C07","zz_seed_demo_test.go","transports/p2p/p2psync","TestSeedDemo","default engine, a batch that contains the header matching the FINAL checkpoint"),
 "C08-b":("C08","zz_seed_demo_test.go","database/repository","TestSeedDemo","lastEvaluatedKey = the genesis merkle root (e.g. a walk with batchSize 1)"),
 "C09-b":("C09","zz_seed_demo_test.go","transports/http/endpoints/api/access","TestSeedDemo","a token that was accepted at least once, then revoked by the admin, then presented again in the same process"),
 "C10-b":("C10","zz_seed_demo_test.go","database/repository","TestSeedDemo","a presented value that is not an issued token but matches one as a LIKE pattern (%, _, or different letter case), real SQL"),
 "C11-b":("C11","zz_seed_demo_test.go","service","TestSeedDemo","a submission whose state the fork logic rewrites (low-work fork of a longest-chain block; reorganisation)"),
 "C13-b":("C13","zz_seed_demo_test.go","service","TestSeedDemo","a stop hash on the longest chain above height 2000, fewer than 2000 blocks ahead of the start, below the tip"),
 "C14-b":("C14","zz_seed_demo_test.go","internal/wire","TestSeedDemo","a frame with zero payload length (verack, getaddr, sendheaders, mempool) and a wrong checksum"),
 "C17-b":("C17","zz_seed_demo_test.go","database","TestSeedDemo","an exported store that holds at least one ORPHAN header"),
 "C19-b":("C19","zz_seed_demo_test.go","domains","TestSeedDemo","difficulty bits whose target is 2^k-1 (exponent <= 3, mantissa 1,3,7,...,0x7fffff)"),
 "C06-b":("C06","zz_seed_demo_test.go","transports/p2p/p2psync","TestSeedDemo","the node is current and a new block is announced by inv only by a peer that is not the sync peer"),
 "C15-b":("C15","zz_seed_demo_test.go","service","TestSeedDemo","two concurrent Add calls with two different children of the current tip (lock taken on the fork path only)"),
 "C18-b":("C18","zz_seed_demo_test.go","transports/p2p","TestSeedDemo","the done event of a peer that was refused (never admitted) from a host that has admitted peers"),
 "C01-c":("C01","zz_seed_demo_test.go","service","TestSeedDemo","a competing header whose cumulative work exactly equals the tip's"),
 "C05-c":("C05","zz_seed_demo_test.go","service","TestSeedDemo","a kill or failed write at one of the two state updates of a reorganising Add, then restart and redelivery"),
 "C16-c":("C16","zz_seed_demo_test.go","transports/http/endpoints/api/headers","TestSeedDemo","ancestors route with a stored {hash} and an unknown {ancestorHash}"),
 "C12-c":("C12","zz_seed_demo_test.go","notification","TestSeedDemo","two deactivated webhooks in consecutive rows, then another event"),
 "C02-c":("C02","zz_seed_demo_test.go","database","TestSeedDemo","one verify request containing the same merkle root twice with different heights"),
 "C03-c":("C03","zz_seed_demo_test.go","database","TestSeedDemo","a reorganisation in the real SQL store (the only UPDATE on headers runs)"),
 "C04-c":("C04","zz_seed_demo_test.go","service","TestSeedDemo","a stale branch of at least two headers; ancestor lookup at exactly the lowest stale height starting from the stale branch"),
 "C06-c":("C06","zz_seed_demo_test.go","transports/p2p/p2psync","TestSeedDemo","a headers batch that starts with already known headers and continues with new ones (store on a deep fork whose fork point is not a locator height)"),
 "C07-c":("C07","zz_seed_demo_test.go","transports/p2p/p2psync","TestSeedDemo","a forbidden header delivered by a peer that is not the sync peer"),
 "C08-c":("C08","zz_seed_demo_test.go","database","TestSeedDemo","lastEvaluatedKey = merkle root of an ORPHAN header"),
 "C09-c":("C09","zz_seed_demo_test.go","transports/http/endpoints/api/access","TestSeedDemo","auth on and a malformed Authorization header: wrong scheme with a valid token, extra parts, or the scheme alone"),
 "C10-c":("C10","zz_seed_demo_test.go","service","TestSeedDemo","two token creations within the same wall-clock second"),
 "C11-c":("C11","zz_seed_demo_test.go","notification","TestSeedDemo","two channels, the earlier-registered one blocking inside Notify"),
 "C13-c":("C13","zz_seed_demo_test.go","service","TestSeedDemo","a tip height >= 12 that is not of the form 9+2^k"),
 "C14-c":("C14","zz_seed_demo_test.go","internal/wire","TestSeedDemo","a headers frame whose count varint is the 9-byte form with the top bit set"),
 "C17-c":("C17","zz_seed_demo_test.go","database","TestSeedDemo","an exported longest-chain header with a timestamp >= 2^31"),
 "C19-c":("C19","zz_seed_demo_test.go","domains","TestSeedDemo","difficulty bits with exponent < 3 and a non-zero mantissa that truncates to target 0"),
 "C01-d":("C01","zz_seed_demo_test.go","service","TestSeedDemo","an ORPHAN header re-submitted after its parent became known"),
 "C02-d":("C02","zz_seed_demo_test.go","transports/http/endpoints/api/merkleroots","TestSeedDemo","a verify request of >= 2 items with an INVALID item that is not the last"),
 "C05-d":("C05","zz_seed_demo_test.go","service","TestSeedDemo","exactly the promotion write of a reorganisation fails (the following insert succeeds)"),
 "C12-d":("C12","zz_seed_demo_test.go","notification","TestSeedDemo","a webhook deactivated by max_tries failures, re-registered, then queried or failing again before any success"),
 "C15-c":("C15","zz_seed_demo_test.go","service","TestSeedDemo","two concurrent Adds with different parents, one on the longest chain and one on a stale branch that then reorganises"),
 "C16-d":("C16","zz_seed_demo_test.go","transports/http/endpoints/api/webhook","TestSeedDemo","GET or DELETE /webhook with a missing or empty url parameter"),
 "C18-c":("C18","zz_seed_demo_test.go","transports/p2p","TestSeedDemo","a persistent outbound peer admitted and leaving again (repeatedly)"),
 "C03-d":("C03","zz_seed_demo_test.go","database","TestSeedDemo","an imported CSV longer than one batch (500 rows)"),
 "C06-d":("C06","zz_seed_demo_test.go","transports/p2p/p2psync","TestSeedDemo","every sync candidate is exactly at our height when the sync peer is chosen, and new blocks are announced by inv afterwards"),
 "C07-d":("C07","zz_seed_demo_test.go","transports/p2p/p2psync","TestSeedDemo","a batch with a wrong checkpoint-height header followed by at least one more accepted header"),
 "C08-d":("C08","zz_seed_demo_test.go","database/repository","TestSeedDemo","a STALE or ORPHAN header at a height inside the requested page"),
 "C11-d":("C11","zz_seed_demo_test.go","service","TestSeedDemo","a submission stored as STALE or ORPHAN"),
 "C09-d":("C09","zz_seed_demo_test.go","transports/http/endpoints/api/access","TestSeedDemo","auth on and a Bearer value that is a proper prefix of the admin token (incl. empty)"),
 "C10-d":("C10","zz_seed_demo_test.go","service","TestSeedDemo","a tokens-table row equal to the configured admin token"),
 "C13-d":("C13","zz_seed_demo_test.go","service","TestSeedDemo","a getheaders whose stop hash is a stored STALE/ORPHAN header"),
 "C14-d":("C14","zz_seed_demo_test.go","internal/wire","TestSeedDemo","an inv frame that really carries more than 1000 vectors"),
 "C17-d":("C17","zz_seed_demo_test.go","database","TestSeedDemo","an exported longest chain whose tip height is an exact multiple of 1000 (incl. 0)"),
 "C19-d":("C19","zz_seed_demo_test.go","domains","TestSeedDemo","difficulty bits with the sign bit set, exponent <= 3 and a mantissa that survives the shift"),
 "C04-d":("C04","zz_seed_demo_test.go","service","TestSeedDemo","common-ancestor with >= 3 hashes where the first and last converge above the point where a middle one joins"),
 "C16-e":("C16","zz_seed_demo_test.go","transports/http/endpoints/api/merkleroots","TestSeedDemo","GET merkleroot with a well-formed negative batchSize"),
 "C02-e":("C02","zz_seed_demo_test.go","transports/http/endpoints/api/merkleroots","TestSeedDemo","a verify item whose root is on the longest chain at a different height than submitted"),
 "C12-e":("C12","zz_seed_demo_test.go","notification","TestSeedDemo","a webhook reply with status 200 whose body cannot be read"),
 "C01-e":("C01","zz_seed_demo_test.go","database","TestSeedDemo","a stored ORPHAN at or above the lowest height a reorganisation demotes"),
 "C05-e":("C05","zz_seed_demo_test.go","database","TestSeedDemo","a restart (database.Init) while the highest stored header is not on the longest chain, e.g. after a kill between the two state updates of a reorganisation"),
 "C15-d":("C15","zz_seed_demo_test.go","service","TestSeedDemo","submitter 1 has read its parent but not yet taken the lock while submitter 2 completes a reorganisation to a heavier but shorter fork"),
 "C18-d":("C18","zz_seed_demo_test.go","transports/p2p","TestSeedDemo","an admitted inbound peer signals done (outbound group counter decremented without increment)"),
 "C06-e":("C06","zz_seed_demo_test.go","transports/p2p/p2psync","TestSeedDemo","the sync peer is lost while every other connected peer is behind our tip; later one of them catches up and announces a block by inv"),
 "C07-e":("C07","zz_seed_demo_test.go","service","TestSeedDemo","a forbidden list of more than one entry and a header matching a non-first entry"),
 "C08-e":("C08","zz_seed_demo_test.go","transports/http/endpoints/api/merkleroots","TestSeedDemo","a page whose last entry is exactly one below the tip (tipHeight % batchSize == 0)"),
 "C11-e":("C11","zz_seed_demo_test.go","service","TestSeedDemo","a header first stored as ORPHAN is submitted again"),
 "C13-e":("C13","zz_seed_demo_test.go","service","TestSeedDemo","a locator whose longest-chain entries are not in descending height order"),
 "C14-e":("C14","zz_seed_demo_test.go","internal/wire","TestSeedDemo","a frame whose command field is a known name, a NUL, then a non-NUL byte"),
 "C03-e":("C03","zz_seed_demo_test.go","service","TestSeedDemo","a header timestamp of 2^31 seconds or later"),
 "C04-e":("C04","zz_seed_demo_test.go","transports/http/endpoints/api/headers","TestSeedDemo","a header read by hash, then a reorganisation that flips its state, then read again in the same process"),
 "C17-e":("C17","zz_seed_demo_test.go","database","TestSeedDemo","a start with prepared_db on a database that holds only height-0 rows"),
 "C19-e":("C19","zz_seed_demo_test.go","domains","TestSeedDemo","difficulty bits with exponent byte 0x09 or 0x0a and a mantissa whose shifted value exceeds 64 bits"),
 "C09-e":("C09","zz_seed_demo_test.go","transports/http/endpoints/api/access","TestSeedDemo","auth on and a valid issued non-admin token on DELETE /api/v1/access/:token"),
 "C10-e":("C10","zz_seed_demo_test.go","database/repository","TestSeedDemo","an admin revoke request whose token contains a single quote so that the formatted SQL stays well-formed"),
 "C12-f":("C12","zz_seed_demo_test.go","notification","TestSeedDemo","a webhook target replying with a 2xx status other than 200"),
 "C16-f":("C16","zz_seed_demo_test.go","transports/http/endpoints/api/headers","TestSeedDemo","header by hash / state with a hash parameter that does not parse (longer than 64 characters or non-hex)"),
 "C02-f":("C02","zz_seed_demo_test.go","database/repository","TestSeedDemo","one verify request containing the exact same (root, height) pair twice"),
 "C01-f":("C01","zz_seed_demo_test.go","service","TestSeedDemo","a reorganisation whose demoted or promoted part has at least 500 headers"),
 "C05-f":("C05","zz_seed_demo_test.go","database","TestSeedDemo","an interruption exactly between the demotion and the promotion update of a reorganisation, then restart and redelivery"),
 "C18-e":("C18","zz_seed_demo_test.go","transports/p2p","TestSeedDemo","a banned host reconnecting from another port while the ban runs"),
 "C15-e":("C15","zz_seed_demo_test.go","service","TestSeedDemo","a tip read whose two storage calls straddle the two state updates of a reorganisation"),
 "C06-f":("C06","zz_seed_demo_test.go","transports/p2p/p2psync","TestSeedDemo","a block announced by inv by a peer whose chain does not contain our tip, fork point above the 2000-header reply cap"),
 "C13-f":("C13","zz_seed_demo_test.go","service","TestSeedDemo","a getheaders with a longest-chain stop hash 2001 or more ahead of the start"),
 "C11-f":("C11","zz_seed_demo_test.go","service","TestSeedDemo","a submitted header whose hash is on the ignore list"),
 "C16-g":("C16","zz_seed_demo_test.go","transports/http/endpoints/api/webhook","TestSeedDemo","POST /webhook with requiredAuth.type CUSTOM_HEADER and a missing or empty header name"),
 "C12-g":("C12","zz_seed_demo_test.go","notification","TestSeedDemo","two webhooks with different authorisation header names notified in the same process"),
 "C09-f":("C09","zz_seed_demo_test.go","transports/http/endpoints","TestSeedDemo","debug_profiling and use_auth both on (the defaults); a request to /api/v1/pprof/debug/*"),
 "C19-f":("C19","zz_seed_demo_test.go","domains","TestSeedDemo","FastLog2Floor(n) with n >= 2^28 and bits 16..27 all zero"),
 "C07-f":("C07","zz_seed_demo_test.go","internal/transports/p2p/peer","TestSeedDemo","experimental engine, one headers batch that crosses the first checkpoint and contradicts the second"),
 "C14-f":("C14","zz_seed_demo_test.go","internal/wire","TestSeedDemo","a version message encoded at pver >= 70001 whose ProtocolVersion field is below 70001 with DisableRelayTx set"),
 "C06-g":("C06","zz_seed_demo_test.go","internal/transports/p2p/peer","TestSeedDemo","experimental engine, the store's tip on a branch the peer does not follow and the peer's branch overtaking it within one reply"),
 "C17-f":("C17","zz_seed_demo_test.go","database","TestSeedDemo","an export over an existing longer file (output path reused, or a leftover temporary csv)"),
 "C04-f":("C04","zz_seed_demo_test.go","transports/http/endpoints/api/tips","TestSeedDemo","a warm tip cache and then a reorganisation to a branch with more work whose tip is not higher than the old tip"),
 "C03-f":("C03","zz_seed_demo_test.go","service","TestSeedDemo","difficulty bits that decode to a target of exactly zero"),
 "C08-f":("C08","zz_seed_demo_test.go","transports/http/endpoints/api/merkleroots","TestSeedDemo","a lastEvaluatedKey that belongs to a STALE or ORPHAN header (real SQL)"),
 "C05-g":("C05","zz_seed_demo_test.go","database","TestSeedDemo","a process kill inside a write transaction after sqlite has started writing pages (journal kept in memory by the DSN)"),
 "C18-f":("C18","zz_seed_demo_test.go","transports/p2p","TestSeedDemo","two different hosts banned with overlapping ban periods, then a connection from the first"),
 "C02-g":("C02","zz_seed_demo_test.go","transports/http/endpoints/api/merkleroots","TestSeedDemo","a verify request of at least two items with an INVALID item that is not the last one"),
 "C20-b":("C20","zz_seed_demo_test.go","config","TestSeedDemo","engine postgres with complete settings, prepared_db on and the prepared file missing or unset"),
 "C15-f":("C15","zz_seed_demo_test.go","service","TestSeedDemo","two concurrent Add calls of sibling headers of the tip (shared lock for ordinary headers)"),
 "C20-a":("C20","zz_seed_demo_test.go","config","TestSeedDemo","BHS_P2P_EXPERIMENTAL set and no configuration file naming p2p.experimental"),
 "C13-g":("C13","zz_seed_demo_test.go","database","TestSeedDemo","a longest chain with a block stamped earlier than its parent inside the requested range (real SQL)"),
 "C16-h":("C16","zz_seed_demo_test.go","transports/http/endpoints/api/merkleroots","TestSeedDemo","a POST whose body cannot be bound on one of the three body-binding routes"),
 "C11-g":("C11","zz_seed_demo_test.go","service","TestSeedDemo","a duplicate submission of a header stored as STALE or ORPHAN"),
 "C10-f":("C10","zz_seed_demo_test.go","transports/websocket","TestSeedDemo","a token used on a websocket connect, then revoked, then used on a websocket connect again"),
 "C12-h":("C12","zz_seed_demo_test.go","database/repository","TestSeedDemo","a cached webhook list, a webhook deactivated by failures, the same url registered again, then a further event"),
 "C20-c":("C20","zz_seed_demo_test.go","config","TestSeedDemo","the config-file option naming a file called config.yaml in another directory"),
 "C01-g":("C01","zz_seed_demo_test.go","service","TestSeedDemo","a competing header whose cumulative work exactly equals the tip's"),
 "C08-g":("C08","zz_seed_demo_test.go","transports/http/endpoints/api/merkleroots","TestSeedDemo","a batchSize whose decimal text sorts after \"2000\" while its value is smaller (3..9, 21..99, 201..999)"),
 "C14-g":("C14","zz_seed_demo_test.go","internal/wire","TestSeedDemo","a getheaders message with an empty locator and a non-zero stop hash"),
 "C02-h":("C02","zz_seed_demo_test.go","database","TestSeedDemo","a root that is on the longest chain at another height than the one submitted"),
 "C05-h":("C05","zz_seed_demo_test.go","service","TestSeedDemo","a failure of the promoting UpdateState of a reorganisation onto a branch with stored stale ancestors"),
 "C09-g":("C09","zz_seed_demo_test.go","transports/http/endpoints","TestSeedDemo","auth on, no credentials, request headers Origin and Access-Control-Request-Method both present"),
 "C03-g":("C03","zz_seed_demo_test.go","database/repository","TestSeedDemo","a header timestamp carried in a time zone with a non-zero UTC offset (any peer header when the process zone is not UTC)"),
 "C13-h":("C13","zz_seed_demo_test.go","service","TestSeedDemo","a locator none of whose hashes is on the longest chain (real SQL)"),
 "C19-g":("C19","zz_seed_demo_test.go","domains","TestSeedDemo","a call with a positive target, then the same non-positive-target bits twice in a row"),
 "C17-g":("C17","zz_seed_demo_test.go","database","TestSeedDemo","an imported chain ending exactly at the newest checkpoint height with a corrupted (still parsing) row"),
 "C04-g":("C04","zz_seed_demo_test.go","transports/http/endpoints/api/headers","TestSeedDemo","GET byHeight with height=0"),
 "C07-g":("C07","zz_seed_demo_test.go","transports/p2p/p2psync","TestSeedDemo","a checkpoint-contradicting header delivered by a peer that is not the current sync peer"),
 "C06-h":("C06","zz_seed_demo_test.go","transports/p2p/p2psync","TestSeedDemo","the sync peer leaves while the service is behind it and it was the last (or the randomly re-chosen) candidate; an honest peer connects later"),
 "C11-h":("C11","zz_seed_demo_test.go","service","TestSeedDemo","a fork or reorganisation header: the event is built before the state is finalised"),
 "C14-h":("C14","zz_seed_demo_test.go","internal/wire","TestSeedDemo","a frame whose command field is a known command, a NUL, then a non-NUL byte in the padding"),
 "C12-i":("C12","zz_seed_demo_test.go","transports/http/client","TestSeedDemo","the real HTTP client and a 200 reply whose body arrives after the headers"),
 "C18-g":("C18","zz_seed_demo_test.go","transports/p2p","TestSeedDemo","a second ban of a host while its first ban runs, then a connection after the first expiry but before the second"),
 "C20-d":("C20","zz_seed_demo_test.go","config","TestSeedDemo","a config file is read, an environment override is set for a key the file does not mention"),
 "C05-i":("C05","zz_seed_demo_test.go","database","TestSeedDemo","a write statement failing inside an open transaction while the rollback succeeds"),
 "C10-g":("C10","zz_seed_demo_test.go","transports/http/endpoints/api/access","TestSeedDemo","a configured admin token longer than 32 characters"),
 "C03-h":("C03","zz_seed_demo_test.go","database","TestSeedDemo","a stored work or cumulative work value needing more than 64 significant bits, read back through SQL"),
 "C15-g":("C15","zz_seed_demo_test.go","internal/transports/p2p/peer","TestSeedDemo","experimental engine, two peers (each with its own copy of the chain service and its lock) delivering competing headers at once"),
 "C01-h":("C01","zz_seed_demo_test.go","service","TestSeedDemo","a non-longest header at the tip's height stored before the tip, after a migration drops the (height, header_state) index"),
 "C16-i":("C16","zz_seed_demo_test.go","transports/http/endpoints/api/headers","TestSeedDemo","GET byHeight with a negative or absurdly large count (slice capacity from the query)"),
 "C06-i":("C06","zz_seed_demo_test.go","transports/p2p/p2psync","TestSeedDemo","the sync peer disconnects mid-sync and is still in the candidate map when the replacement is chosen"),
}
ENV=dict(os.environ,GOFLAGS="-mod=mod",GOPROXY="off")
def run(cmd,cwd,timeout=1500):
    p=subprocess.run(cmd,cwd=cwd,env=ENV,shell=True,capture_output=True,text=True,timeout=timeout)
    return p.returncode,(p.stdout+p.stderr)[-3000:]
def main(sid):
    prop,demo,pkg,pat,needs=TABLE[sid]
    d=f"/verif/seeded/{sid}"; wt=f"/tmp/wt-confirm-{sid}"
    subprocess.run(f"git -C /repo worktree remove --force {wt}",shell=True,capture_output=True)
    subprocess.check_call(f"git -C /repo worktree add -q --detach {wt} HEAD",shell=True)
    meta={"id":sid,"property":prop,"needs_to_manifest":needs,"base_commit":subprocess.check_output("git -C /repo rev-parse --short HEAD",shell=True,text=True).strip(),"ran":{}}
    try:
        rc,out=run(f"git apply {d}/patch.diff",wt); meta["ran"]["git apply patch.diff"]=rc
        if rc!=0: meta["confirmed"]=False; meta["why"]="patch does not apply to current HEAD: "+out[-300:]; return meta
        rc,out=run("go build ./...",wt); meta["ran"]["go build ./..."]=rc
        rc,out=run("go test -vet=off -count=1 -p 1 ./... 2>&1 | grep -v 'no test files' | grep -v '^ok' | head -20",wt)
        failing=[l for l in out.splitlines() if l.startswith("FAIL") or "--- FAIL" in l]
        if failing: # flaky retry once for the failing packages
            pk=sorted(set(re.findall(r"FAIL\s+(\S+)",out)))
            still=[]
            for p in pk:
                rc2,out2=run(f"go test -vet=off -count=1 {p}",wt)
                if rc2!=0:
                    rc3,out3=run(f"go test -vet=off -count=1 {p}",wt)
                    if rc3!=0: still.append(p)
            failing=still
        meta["ran"]["go test -vet=off -count=1 -p 1 ./... (existing suite, change applied)"]="pass" if not failing else "FAIL: "+str(failing)
        shutil.copy(f"{d}/{demo}",f"{wt}/{pkg}/zz_{sid.lower().replace('-','_')}_demo_test.go")
        cmd=f"go test -vet=off -count=1 -run '{pat}' ./{pkg}/"
        rc_with,out_with=run(cmd,wt); meta["ran"][cmd+" (change applied)"]="fail" if rc_with!=0 else "pass"
        run(f"git apply -R {d}/patch.diff",wt)
        rc_wo,out_wo=run(cmd,wt); meta["ran"][cmd+" (change reverted)"]="fail" if rc_wo!=0 else "pass"
        meta["confirmed"]= (not failing) and rc_with!=0 and rc_wo==0
        if not meta["confirmed"]: meta["why"]=(out_with[-400:] if rc_with==0 else out_wo[-600:])
        return meta
    finally:
        subprocess.run(f"git -C /repo worktree remove --force {wt}",shell=True,capture_output=True)
if __name__=="__main__":
    for sid in sys.argv[1:]:
        m=main(sid)
        old={}
        try: old=json.load(open(f"/verif/seeded/{sid}/meta.json"))
        except Exception: pass
        old.update(m)
        json.dump(old,open(f"/verif/seeded/{sid}/meta.json","w"),indent=1)
        print(sid,"confirmed" if m.get("confirmed") else "NOT CONFIRMED: "+m.get("why","")[:300])
