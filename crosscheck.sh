#!/bin/sh
# crosscheck.sh [ids...]: re-runs the quick tier of the given checks (default: all claimed ones) with z3 5.1.0
# (z3-new) as the deciding solver instead of the registered one and records whether the verdicts
# agree. Not part of MANIFEST commands; results are appended to /verif/crosscheck.log.
cd /verif || exit 2
ids="$*"
[ -z "$ids" ] && ids="C01 C02 C03 C04 C05 C06 C07 C08 C09 C10 C11 C12 C13 C14 C15 C16 C17 C18 C19 C20"
for id in $ids; do
  a=$(./check.sh $id quick --no-evidence 2>&1 | grep -E "^(OK|VIOLATION|INCONCLUSIVE)" | head -1 | cut -c1-160)
  b=$(./check.sh $id quick --no-evidence --solver z3-new 2>&1 | grep -E "^(OK|VIOLATION|INCONCLUSIVE)" | head -1 | cut -c1-160)
  echo "$(date -u +%FT%TZ) $id registered-solver: $a"
  echo "$(date -u +%FT%TZ) $id z3-new         : $b"
done | tee -a /verif/crosscheck.log
