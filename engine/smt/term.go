// Package smt is a small hash-consed term DAG with eager simplification and an
// SMT-LIB2 printer. One Ctx per worker; terms of different contexts never mix.
package smt

import (
	"fmt"
	"math/big"
	"sort"
	"strings"
)

type Kind uint8

const (
	KBool Kind = iota
	KBV
	KInt
	KStr
)

type Sort struct {
	K Kind
	W int
}

var (
	Bool = Sort{K: KBool}
	Int  = Sort{K: KInt}
	Str  = Sort{K: KStr}
)

func BV(w int) Sort { return Sort{K: KBV, W: w} }

func (s Sort) String() string {
	switch s.K {
	case KBool:
		return "Bool"
	case KBV:
		return fmt.Sprintf("(_ BitVec %d)", s.W)
	case KInt:
		return "Int"
	default:
		return "Str"
	}
}

type Op uint8

const (
	OpVar Op = iota
	OpBoolConst
	OpBVConst
	OpIntConst
	OpNot
	OpAnd
	OpOr
	OpIte
	OpEq
	// bit-vector
	OpBVAdd
	OpBVSub
	OpBVMul
	OpBVUDiv
	OpBVURem
	OpBVSDiv
	OpBVSRem
	OpBVAnd
	OpBVOr
	OpBVXor
	OpBVNot
	OpBVNeg
	OpBVShl
	OpBVLShr
	OpBVAShr
	OpBVULt
	OpBVULe
	OpBVSLt
	OpBVSLe
	OpConcat
	OpExtract // I1=hi I2=lo
	OpZExt    // I1=extra bits
	OpSExt
	// integers
	OpIAdd
	OpISub
	OpIMul
	OpIDiv // SMT div (floor for positive divisor)
	OpIMod
	OpINeg
	OpILt
	OpILe
	OpBV2Nat
	OpInt2BV // I1=width
	// strings (datatype)
	OpStrLit // arg: Int
	OpStrHex // arg: BV256
	OpStrDec // arg: Int
	OpStrOpq // arg: Int
	OpStrCat // args: Str Str
	OpIsLit
	OpIsHex
	OpIsDec
	OpIsOpq
	OpIsCat
	OpLitIdx
	OpHexVal
	OpDecVal
	OpOpqVal
	OpCatA
	OpCatB
	OpApp // uninterpreted function Name(args)
)

var opNames = map[Op]string{
	OpNot: "not", OpAnd: "and", OpOr: "or", OpIte: "ite", OpEq: "=",
	OpBVAdd: "bvadd", OpBVSub: "bvsub", OpBVMul: "bvmul", OpBVUDiv: "bvudiv", OpBVURem: "bvurem",
	OpBVSDiv: "bvsdiv", OpBVSRem: "bvsrem", OpBVAnd: "bvand", OpBVOr: "bvor", OpBVXor: "bvxor",
	OpBVNot: "bvnot", OpBVNeg: "bvneg", OpBVShl: "bvshl", OpBVLShr: "bvlshr", OpBVAShr: "bvashr",
	OpBVULt: "bvult", OpBVULe: "bvule", OpBVSLt: "bvslt", OpBVSLe: "bvsle", OpConcat: "concat",
	OpIAdd: "+", OpISub: "-", OpIMul: "*", OpIDiv: "div", OpIMod: "mod", OpINeg: "-", OpILt: "<", OpILe: "<=",
	OpBV2Nat: "bv2nat",
	OpStrLit: "lit", OpStrHex: "hex", OpStrDec: "dec", OpStrOpq: "opq", OpStrCat: "cat",
	OpIsLit: "(_ is lit)", OpIsHex: "(_ is hex)", OpIsDec: "(_ is dec)", OpIsOpq: "(_ is opq)", OpIsCat: "(_ is cat)",
	OpLitIdx: "lit_i", OpHexVal: "hex_v", OpDecVal: "dec_v", OpOpqVal: "opq_v", OpCatA: "cat_a", OpCatB: "cat_b",
}

type Term struct {
	ID   int
	Op   Op
	Sort Sort
	Args []*Term
	Val  *big.Int // BV (unsigned) / Int constants
	B    bool
	Name string
	I1   int
	I2   int
}

// Ctx owns the hash-cons table, the declared variables / functions and the
// table of string literals.
type Ctx struct {
	tab    map[string]*Term
	nextID int
	Vars   []*Term
	varSet map[string]*Term
	Funs   map[string]FunDecl
	funOrd []string
	Lits   []string
	litIdx map[string]int
	fresh  int
	tt, ff *Term
}

type FunDecl struct {
	Name string
	Args []Sort
	Ret  Sort
}

func NewCtx() *Ctx {
	c := &Ctx{tab: map[string]*Term{}, varSet: map[string]*Term{}, Funs: map[string]FunDecl{}, litIdx: map[string]int{}}
	c.tt = c.mk(&Term{Op: OpBoolConst, Sort: Bool, B: true})
	c.ff = c.mk(&Term{Op: OpBoolConst, Sort: Bool, B: false})
	return c
}

func (c *Ctx) key(t *Term) string {
	var sb strings.Builder
	fmt.Fprintf(&sb, "%d|%d.%d|%d.%d|", t.Op, t.Sort.K, t.Sort.W, t.I1, t.I2)
	if t.Val != nil {
		sb.WriteString(t.Val.Text(16))
	}
	if t.B {
		sb.WriteByte('T')
	}
	sb.WriteString(t.Name)
	for _, a := range t.Args {
		fmt.Fprintf(&sb, ",%d", a.ID)
	}
	return sb.String()
}

func (c *Ctx) mk(t *Term) *Term {
	k := c.key(t)
	if o, ok := c.tab[k]; ok {
		return o
	}
	t.ID = c.nextID
	c.nextID++
	c.tab[k] = t
	return t
}

func (c *Ctx) NumTerms() int { return c.nextID }

// ---------- leaves

func (c *Ctx) True() *Term  { return c.tt }
func (c *Ctx) False() *Term { return c.ff }
func (c *Ctx) BoolConst(b bool) *Term {
	if b {
		return c.tt
	}
	return c.ff
}

func (c *Ctx) Var(name string, s Sort) *Term {
	if v, ok := c.varSet[name]; ok {
		if v.Sort != s {
			panic("smt: variable redeclared with different sort: " + name)
		}
		return v
	}
	v := c.mk(&Term{Op: OpVar, Sort: s, Name: name})
	c.varSet[name] = v
	c.Vars = append(c.Vars, v)
	return v
}

func (c *Ctx) Fresh(prefix string, s Sort) *Term {
	c.fresh++
	return c.Var(fmt.Sprintf("%s!%d", prefix, c.fresh), s)
}

func mask(w int) *big.Int {
	m := new(big.Int).Lsh(big.NewInt(1), uint(w))
	return m.Sub(m, big.NewInt(1))
}

func (c *Ctx) BVConst(v *big.Int, w int) *Term {
	x := new(big.Int).And(v, mask(w)) // two's complement wrap for negatives
	if v.Sign() < 0 {
		x = new(big.Int).Mod(v, new(big.Int).Lsh(big.NewInt(1), uint(w)))
	}
	return c.mk(&Term{Op: OpBVConst, Sort: BV(w), Val: x})
}
func (c *Ctx) BVConstU(v uint64, w int) *Term { return c.BVConst(new(big.Int).SetUint64(v), w) }
func (c *Ctx) BVConstI(v int64, w int) *Term  { return c.BVConst(big.NewInt(v), w) }
func (c *Ctx) IntConst(v *big.Int) *Term {
	return c.mk(&Term{Op: OpIntConst, Sort: Int, Val: new(big.Int).Set(v)})
}
func (c *Ctx) IntConstI(v int64) *Term { return c.IntConst(big.NewInt(v)) }

func (t *Term) IsConst() bool {
	return t.Op == OpBoolConst || t.Op == OpBVConst || t.Op == OpIntConst
}
func (t *Term) IsTrue() bool  { return t.Op == OpBoolConst && t.B }
func (t *Term) IsFalse() bool { return t.Op == OpBoolConst && !t.B }

// Signed value of a BV constant.
func (t *Term) SVal() *big.Int {
	if t.Op == OpIntConst {
		return t.Val
	}
	w := t.Sort.W
	if t.Val.Bit(w-1) == 1 {
		return new(big.Int).Sub(t.Val, new(big.Int).Lsh(big.NewInt(1), uint(w)))
	}
	return t.Val
}
func (t *Term) U64() uint64 { return t.Val.Uint64() }
func (t *Term) I64() int64  { return t.SVal().Int64() }

// isValue: a closed constructor term (constant, or string constructor over constants).
func (t *Term) IsValue() bool {
	switch t.Op {
	case OpBoolConst, OpBVConst, OpIntConst:
		return true
	case OpStrLit, OpStrHex, OpStrDec, OpStrOpq:
		return t.Args[0].IsConst()
	case OpStrCat:
		return t.Args[0].IsValue() && t.Args[1].IsValue()
	}
	return false
}

// ---------- booleans

func (c *Ctx) Not(a *Term) *Term {
	switch a.Op {
	case OpBoolConst:
		return c.BoolConst(!a.B)
	case OpNot:
		return a.Args[0]
	}
	return c.mk(&Term{Op: OpNot, Sort: Bool, Args: []*Term{a}})
}

func (c *Ctx) nary(op Op, unit, zero *Term, as []*Term) *Term {
	var out []*Term
	seen := map[int]bool{}
	var add func(t *Term) bool
	add = func(t *Term) bool {
		if t == zero {
			return false
		}
		if t == unit || seen[t.ID] {
			return true
		}
		if t.Op == op {
			for _, x := range t.Args {
				if !add(x) {
					return false
				}
			}
			return true
		}
		seen[t.ID] = true
		out = append(out, t)
		return true
	}
	for _, a := range as {
		if !add(a) {
			return zero
		}
	}
	// x and not x
	for _, t := range out {
		if t.Op == OpNot && seen[t.Args[0].ID] {
			return zero
		}
	}
	switch len(out) {
	case 0:
		return unit
	case 1:
		return out[0]
	}
	sort.Slice(out, func(i, j int) bool { return out[i].ID < out[j].ID })
	return c.mk(&Term{Op: op, Sort: Bool, Args: out})
}

func (c *Ctx) And(as ...*Term) *Term     { return c.nary(OpAnd, c.tt, c.ff, as) }
func (c *Ctx) Or(as ...*Term) *Term      { return c.nary(OpOr, c.ff, c.tt, as) }
func (c *Ctx) Implies(a, b *Term) *Term  { return c.Or(c.Not(a), b) }
func (c *Ctx) Iff(a, b *Term) *Term      { return c.Eq(a, b) }
func (c *Ctx) Xor(a, b *Term) *Term      { return c.Not(c.Eq(a, b)) }
func (c *Ctx) Distinct(a, b *Term) *Term { return c.Not(c.Eq(a, b)) }

func (c *Ctx) Ite(cond, a, b *Term) *Term {
	if a.Sort != b.Sort {
		panic(fmt.Sprintf("smt: ite sort mismatch %v vs %v", a.Sort, b.Sort))
	}
	if cond.IsTrue() {
		return a
	}
	if cond.IsFalse() {
		return b
	}
	if a == b {
		return a
	}
	if a.Sort.K == KBool {
		if a.IsTrue() && b.IsFalse() {
			return cond
		}
		if a.IsFalse() && b.IsTrue() {
			return c.Not(cond)
		}
		if a.IsTrue() {
			return c.Or(cond, b)
		}
		if a.IsFalse() {
			return c.And(c.Not(cond), b)
		}
		if b.IsTrue() {
			return c.Or(c.Not(cond), a)
		}
		if b.IsFalse() {
			return c.And(cond, a)
		}
	}
	if cond.Op == OpNot {
		return c.Ite(cond.Args[0], b, a)
	}
	// ite(c, x, ite(c, y, z)) = ite(c, x, z)
	if b.Op == OpIte && b.Args[0] == cond {
		return c.Ite(cond, a, b.Args[2])
	}
	if a.Op == OpIte && a.Args[0] == cond {
		return c.Ite(cond, a.Args[1], b)
	}
	return c.mk(&Term{Op: OpIte, Sort: a.Sort, Args: []*Term{cond, a, b}})
}

// headCtor returns the constructor op when t is syntactically a constructor application.
func headCtor(t *Term) (Op, bool) {
	switch t.Op {
	case OpStrLit, OpStrHex, OpStrDec, OpStrOpq, OpStrCat:
		return t.Op, true
	}
	return 0, false
}

func (c *Ctx) Eq(a, b *Term) *Term {
	if a.Sort != b.Sort {
		panic(fmt.Sprintf("smt: eq sort mismatch %v vs %v", a.Sort, b.Sort))
	}
	if a == b {
		return c.tt
	}
	if a.IsConst() && b.IsConst() {
		if a.Op == OpBoolConst {
			return c.BoolConst(a.B == b.B)
		}
		return c.BoolConst(a.Val.Cmp(b.Val) == 0)
	}
	if a.Sort.K == KBool {
		if a.IsTrue() {
			return b
		}
		if b.IsTrue() {
			return a
		}
		if a.IsFalse() {
			return c.Not(b)
		}
		if b.IsFalse() {
			return c.Not(a)
		}
	}
	// constructors
	if ca, ok := headCtor(a); ok {
		if cb, ok2 := headCtor(b); ok2 {
			if ca != cb {
				return c.ff
			}
			var cs []*Term
			for i := range a.Args {
				cs = append(cs, c.Eq(a.Args[i], b.Args[i]))
			}
			return c.And(cs...)
		}
	}
	// distribute over ite when the other side is value-like (keeps invariant-decided
	// comparisons syntactic)
	if a.Op == OpIte && c.liftable(b) && c.iteDepth(a) <= 64 {
		return c.Ite(a.Args[0], c.Eq(a.Args[1], b), c.Eq(a.Args[2], b))
	}
	if b.Op == OpIte && c.liftable(a) && c.iteDepth(b) <= 64 {
		return c.Ite(b.Args[0], c.Eq(a, b.Args[1]), c.Eq(a, b.Args[2]))
	}
	// concat/extract-wise equality of same-shaped concats is left to the solver
	if a.ID > b.ID {
		a, b = b, a
	}
	return c.mk(&Term{Op: OpEq, Sort: Bool, Args: []*Term{a, b}})
}

func (c *Ctx) liftable(t *Term) bool {
	if t.IsValue() {
		return true
	}
	_, ok := headCtor(t)
	return ok
}

func (c *Ctx) iteDepth(t *Term) int {
	d := 0
	for t.Op == OpIte {
		d++
		t = t.Args[2]
	}
	return d
}

// ---------- bit-vectors

func (c *Ctx) bvBin(op Op, a, b *Term) *Term {
	if a.Sort != b.Sort || a.Sort.K != KBV {
		panic(fmt.Sprintf("smt: bv op %s sort mismatch %v vs %v", opNames[op], a.Sort, b.Sort))
	}
	w := a.Sort.W
	if a.Op == OpBVConst && b.Op == OpBVConst {
		if r := foldBV(op, a, b, w); r != nil {
			return c.BVConst(r, w)
		}
	}
	isZero := func(t *Term) bool { return t.Op == OpBVConst && t.Val.Sign() == 0 }
	isOnes := func(t *Term) bool { return t.Op == OpBVConst && t.Val.Cmp(mask(w)) == 0 }
	isOne := func(t *Term) bool { return t.Op == OpBVConst && t.Val.Cmp(big.NewInt(1)) == 0 }
	switch op {
	case OpBVAdd, OpBVOr, OpBVXor:
		if isZero(a) {
			return b
		}
		if isZero(b) {
			return a
		}
		if op == OpBVOr && (isOnes(a) || isOnes(b)) {
			return c.BVConst(mask(w), w)
		}
		if op == OpBVXor && a == b {
			return c.BVConstU(0, w)
		}
		if op == OpBVOr && a == b {
			return a
		}
	case OpBVSub:
		if isZero(b) {
			return a
		}
		if a == b {
			return c.BVConstU(0, w)
		}
	case OpBVMul:
		if isZero(a) || isZero(b) {
			return c.BVConstU(0, w)
		}
		if isOne(a) {
			return b
		}
		if isOne(b) {
			return a
		}
	case OpBVAnd:
		if isZero(a) || isZero(b) {
			return c.BVConstU(0, w)
		}
		if isOnes(a) {
			return b
		}
		if isOnes(b) {
			return a
		}
		if a == b {
			return a
		}
	case OpBVShl, OpBVLShr, OpBVAShr:
		if isZero(b) {
			return a
		}
		if isZero(a) {
			return a
		}
	case OpBVUDiv, OpBVSDiv:
		if isOne(b) {
			return a
		}
	}
	// commutative normal form
	switch op {
	case OpBVAdd, OpBVMul, OpBVAnd, OpBVOr, OpBVXor:
		if a.ID > b.ID {
			a, b = b, a
		}
	}
	return c.mk(&Term{Op: op, Sort: a.Sort, Args: []*Term{a, b}})
}

func foldBV(op Op, a, b *Term, w int) *big.Int {
	x, y := a.Val, b.Val
	sx, sy := a.SVal(), b.SVal()
	mod := new(big.Int).Lsh(big.NewInt(1), uint(w))
	r := new(big.Int)
	switch op {
	case OpBVAdd:
		r.Add(x, y)
	case OpBVSub:
		r.Sub(x, y)
	case OpBVMul:
		r.Mul(x, y)
	case OpBVUDiv:
		if y.Sign() == 0 {
			return mask(w)
		}
		r.Quo(x, y)
	case OpBVURem:
		if y.Sign() == 0 {
			return x
		}
		r.Rem(x, y)
	case OpBVSDiv:
		if y.Sign() == 0 {
			return nil
		}
		r.Quo(sx, sy)
	case OpBVSRem:
		if y.Sign() == 0 {
			return nil
		}
		r.Rem(sx, sy)
	case OpBVAnd:
		r.And(x, y)
	case OpBVOr:
		r.Or(x, y)
	case OpBVXor:
		r.Xor(x, y)
	case OpBVShl:
		if y.Cmp(big.NewInt(int64(w))) >= 0 {
			return big.NewInt(0)
		}
		r.Lsh(x, uint(y.Uint64()))
	case OpBVLShr:
		if y.Cmp(big.NewInt(int64(w))) >= 0 {
			return big.NewInt(0)
		}
		r.Rsh(x, uint(y.Uint64()))
	case OpBVAShr:
		sh := uint(w)
		if y.Cmp(big.NewInt(int64(w))) < 0 {
			sh = uint(y.Uint64())
		}
		r.Rsh(sx, sh)
	default:
		return nil
	}
	r.Mod(r, mod)
	return r
}

func (c *Ctx) BVAdd(a, b *Term) *Term  { return c.bvBin(OpBVAdd, a, b) }
func (c *Ctx) BVSub(a, b *Term) *Term  { return c.bvBin(OpBVSub, a, b) }
func (c *Ctx) BVMul(a, b *Term) *Term  { return c.bvBin(OpBVMul, a, b) }
func (c *Ctx) BVUDiv(a, b *Term) *Term { return c.bvBin(OpBVUDiv, a, b) }
func (c *Ctx) BVURem(a, b *Term) *Term { return c.bvBin(OpBVURem, a, b) }
func (c *Ctx) BVSDiv(a, b *Term) *Term { return c.bvBin(OpBVSDiv, a, b) }
func (c *Ctx) BVSRem(a, b *Term) *Term { return c.bvBin(OpBVSRem, a, b) }
func (c *Ctx) BVAnd(a, b *Term) *Term  { return c.bvBin(OpBVAnd, a, b) }
func (c *Ctx) BVOr(a, b *Term) *Term   { return c.bvBin(OpBVOr, a, b) }
func (c *Ctx) BVXor(a, b *Term) *Term  { return c.bvBin(OpBVXor, a, b) }
func (c *Ctx) BVShl(a, b *Term) *Term  { return c.bvBin(OpBVShl, a, b) }
func (c *Ctx) BVLShr(a, b *Term) *Term { return c.bvBin(OpBVLShr, a, b) }
func (c *Ctx) BVAShr(a, b *Term) *Term { return c.bvBin(OpBVAShr, a, b) }

func (c *Ctx) BVNot(a *Term) *Term {
	if a.Op == OpBVConst {
		return c.BVConst(new(big.Int).Xor(a.Val, mask(a.Sort.W)), a.Sort.W)
	}
	if a.Op == OpBVNot {
		return a.Args[0]
	}
	return c.mk(&Term{Op: OpBVNot, Sort: a.Sort, Args: []*Term{a}})
}
func (c *Ctx) BVNeg(a *Term) *Term {
	if a.Op == OpBVConst {
		return c.BVConst(new(big.Int).Neg(a.Val), a.Sort.W)
	}
	return c.mk(&Term{Op: OpBVNeg, Sort: a.Sort, Args: []*Term{a}})
}

func (c *Ctx) bvCmp(op Op, a, b *Term) *Term {
	if a.Sort != b.Sort || a.Sort.K != KBV {
		panic(fmt.Sprintf("smt: bv cmp sort mismatch %v vs %v", a.Sort, b.Sort))
	}
	if a.Op == OpBVConst && b.Op == OpBVConst {
		var r int
		if op == OpBVULt || op == OpBVULe {
			r = a.Val.Cmp(b.Val)
		} else {
			r = a.SVal().Cmp(b.SVal())
		}
		if op == OpBVULt || op == OpBVSLt {
			return c.BoolConst(r < 0)
		}
		return c.BoolConst(r <= 0)
	}
	if a == b {
		return c.BoolConst(op == OpBVULe || op == OpBVSLe)
	}
	if a.Op == OpIte && b.IsConst() && a.Args[1].IsConst() && a.Args[2].IsConst() {
		return c.Ite(a.Args[0], c.bvCmp(op, a.Args[1], b), c.bvCmp(op, a.Args[2], b))
	}
	return c.mk(&Term{Op: op, Sort: Bool, Args: []*Term{a, b}})
}
func (c *Ctx) BVULt(a, b *Term) *Term { return c.bvCmp(OpBVULt, a, b) }
func (c *Ctx) BVULe(a, b *Term) *Term { return c.bvCmp(OpBVULe, a, b) }
func (c *Ctx) BVSLt(a, b *Term) *Term { return c.bvCmp(OpBVSLt, a, b) }
func (c *Ctx) BVSLe(a, b *Term) *Term { return c.bvCmp(OpBVSLe, a, b) }

func (c *Ctx) Extract(a *Term, hi, lo int) *Term {
	w := a.Sort.W
	if hi >= w || lo < 0 || hi < lo {
		panic(fmt.Sprintf("smt: bad extract [%d:%d] of width %d", hi, lo, w))
	}
	if lo == 0 && hi == w-1 {
		return a
	}
	switch a.Op {
	case OpBVConst:
		v := new(big.Int).Rsh(a.Val, uint(lo))
		return c.BVConst(v.And(v, mask(hi-lo+1)), hi-lo+1)
	case OpExtract:
		return c.Extract(a.Args[0], a.I2+hi, a.I2+lo)
	case OpConcat:
		hiT, loT := a.Args[0], a.Args[1]
		lw := loT.Sort.W
		if hi < lw {
			return c.Extract(loT, hi, lo)
		}
		if lo >= lw {
			return c.Extract(hiT, hi-lw, lo-lw)
		}
		return c.Concat(c.Extract(hiT, hi-lw, 0), c.Extract(loT, lw-1, lo))
	case OpZExt:
		iw := a.Args[0].Sort.W
		if hi < iw {
			return c.Extract(a.Args[0], hi, lo)
		}
		if lo >= iw {
			return c.BVConstU(0, hi-lo+1)
		}
	case OpIte:
		if a.Args[1].IsConst() && a.Args[2].IsConst() {
			return c.Ite(a.Args[0], c.Extract(a.Args[1], hi, lo), c.Extract(a.Args[2], hi, lo))
		}
	}
	return c.mk(&Term{Op: OpExtract, Sort: BV(hi - lo + 1), Args: []*Term{a}, I1: hi, I2: lo})
}

func (c *Ctx) Concat(hi, lo *Term) *Term {
	if hi.Op == OpBVConst && lo.Op == OpBVConst {
		v := new(big.Int).Lsh(hi.Val, uint(lo.Sort.W))
		return c.BVConst(v.Or(v, lo.Val), hi.Sort.W+lo.Sort.W)
	}
	// adjacent extracts of one term
	if hi.Op == OpExtract && lo.Op == OpExtract && hi.Args[0] == lo.Args[0] && hi.I2 == lo.I1+1 {
		return c.Extract(hi.Args[0], hi.I1, lo.I2)
	}
	// concat(x, concat(extract.., y)) re-association so adjacent extracts can merge
	if lo.Op == OpConcat && hi.Op == OpExtract && lo.Args[0].Op == OpExtract && hi.Args[0] == lo.Args[0].Args[0] && hi.I2 == lo.Args[0].I1+1 {
		return c.Concat(c.Extract(hi.Args[0], hi.I1, lo.Args[0].I2), lo.Args[1])
	}
	if hi.Op == OpConcat && lo.Op == OpExtract && hi.Args[1].Op == OpExtract && hi.Args[1].Args[0] == lo.Args[0] && hi.Args[1].I2 == lo.I1+1 {
		return c.Concat(hi.Args[0], c.Extract(lo.Args[0], hi.Args[1].I1, lo.I2))
	}
	return c.mk(&Term{Op: OpConcat, Sort: BV(hi.Sort.W + lo.Sort.W), Args: []*Term{hi, lo}})
}

func (c *Ctx) ZExt(a *Term, to int) *Term {
	w := a.Sort.W
	if to == w {
		return a
	}
	if to < w {
		return c.Extract(a, to-1, 0)
	}
	if a.Op == OpBVConst {
		return c.BVConst(a.Val, to)
	}
	if a.Op == OpZExt {
		return c.ZExt(a.Args[0], to)
	}
	if a.Op == OpIte && a.Args[1].IsConst() && a.Args[2].IsConst() {
		return c.Ite(a.Args[0], c.ZExt(a.Args[1], to), c.ZExt(a.Args[2], to))
	}
	return c.mk(&Term{Op: OpZExt, Sort: BV(to), Args: []*Term{a}, I1: to - w})
}

func (c *Ctx) SExt(a *Term, to int) *Term {
	w := a.Sort.W
	if to == w {
		return a
	}
	if to < w {
		return c.Extract(a, to-1, 0)
	}
	if a.Op == OpBVConst {
		return c.BVConst(a.SVal(), to)
	}
	if a.Op == OpIte && a.Args[1].IsConst() && a.Args[2].IsConst() {
		return c.Ite(a.Args[0], c.SExt(a.Args[1], to), c.SExt(a.Args[2], to))
	}
	return c.mk(&Term{Op: OpSExt, Sort: BV(to), Args: []*Term{a}, I1: to - w})
}

// ---------- integers

func (c *Ctx) intBin(op Op, a, b *Term) *Term {
	if a.Sort.K != KInt || b.Sort.K != KInt {
		panic("smt: int op on non-int")
	}
	if a.Op == OpIntConst && b.Op == OpIntConst {
		r := new(big.Int)
		switch op {
		case OpIAdd:
			return c.IntConst(r.Add(a.Val, b.Val))
		case OpISub:
			return c.IntConst(r.Sub(a.Val, b.Val))
		case OpIMul:
			return c.IntConst(r.Mul(a.Val, b.Val))
		case OpIDiv:
			if b.Val.Sign() != 0 {
				// SMT-LIB div: floor toward -inf for positive divisor, such that a = b*q + r, 0<=r<|b|
				m := new(big.Int)
				r.DivMod(a.Val, b.Val, m)
				return c.IntConst(r)
			}
		case OpIMod:
			if b.Val.Sign() != 0 {
				return c.IntConst(r.Mod(a.Val, b.Val))
			}
		}
	}
	zero := func(t *Term) bool { return t.Op == OpIntConst && t.Val.Sign() == 0 }
	one := func(t *Term) bool { return t.Op == OpIntConst && t.Val.Cmp(big.NewInt(1)) == 0 }
	switch op {
	case OpIAdd:
		if zero(a) {
			return b
		}
		if zero(b) {
			return a
		}
		if a.ID > b.ID {
			a, b = b, a
		}
	case OpISub:
		if zero(b) {
			return a
		}
		if a == b {
			return c.IntConstI(0)
		}
	case OpIMul:
		if zero(a) || zero(b) {
			return c.IntConstI(0)
		}
		if one(a) {
			return b
		}
		if one(b) {
			return a
		}
		if a.ID > b.ID {
			a, b = b, a
		}
	case OpIDiv:
		if one(b) {
			return a
		}
	}
	return c.mk(&Term{Op: op, Sort: Int, Args: []*Term{a, b}})
}
func (c *Ctx) IAdd(a, b *Term) *Term { return c.intBin(OpIAdd, a, b) }
func (c *Ctx) ISub(a, b *Term) *Term { return c.intBin(OpISub, a, b) }
func (c *Ctx) IMul(a, b *Term) *Term { return c.intBin(OpIMul, a, b) }
func (c *Ctx) IDiv(a, b *Term) *Term { return c.intBin(OpIDiv, a, b) }
func (c *Ctx) IMod(a, b *Term) *Term { return c.intBin(OpIMod, a, b) }
func (c *Ctx) INeg(a *Term) *Term {
	if a.Op == OpIntConst {
		return c.IntConst(new(big.Int).Neg(a.Val))
	}
	if a.Op == OpINeg {
		return a.Args[0]
	}
	return c.mk(&Term{Op: OpINeg, Sort: Int, Args: []*Term{a}})
}
func (c *Ctx) intCmp(op Op, a, b *Term) *Term {
	if a.Op == OpIntConst && b.Op == OpIntConst {
		r := a.Val.Cmp(b.Val)
		if op == OpILt {
			return c.BoolConst(r < 0)
		}
		return c.BoolConst(r <= 0)
	}
	if a == b {
		return c.BoolConst(op == OpILe)
	}
	// comparisons of a constant with the integer value of a bit-vector stay in the bit-vector theory
	if a.Op == OpIntConst {
		switch b.Op {
		case OpIte:
			return c.Ite(b.Args[0], c.intCmp(op, a, b.Args[1]), c.intCmp(op, a, b.Args[2]))
		case OpISub:
			if b.Args[1].Op == OpIntConst {
				return c.intCmp(op, c.IntConst(new(big.Int).Add(a.Val, b.Args[1].Val)), b.Args[0])
			}
		case OpBV2Nat:
			w := b.Args[0].Sort.W
			k := a.Val
			if op == OpILt { // k < n  <=>  k+1 <= n
				k = new(big.Int).Add(k, big.NewInt(1))
			}
			if k.Sign() <= 0 {
				return c.tt
			}
			if k.Cmp(mask(w)) > 0 {
				return c.ff
			}
			return c.BVULe(c.BVConst(k, w), b.Args[0])
		}
	}
	if b.Op == OpIntConst {
		switch a.Op {
		case OpIte:
			return c.Ite(a.Args[0], c.intCmp(op, a.Args[1], b), c.intCmp(op, a.Args[2], b))
		case OpISub:
			if a.Args[1].Op == OpIntConst {
				return c.intCmp(op, a.Args[0], c.IntConst(new(big.Int).Add(b.Val, a.Args[1].Val)))
			}
		case OpBV2Nat:
			w := a.Args[0].Sort.W
			k := b.Val
			if op == OpILt { // n < k  <=>  n <= k-1
				k = new(big.Int).Sub(k, big.NewInt(1))
			}
			if k.Sign() < 0 {
				return c.ff
			}
			if k.Cmp(mask(w)) >= 0 {
				return c.tt
			}
			return c.BVULe(a.Args[0], c.BVConst(k, w))
		}
	}
	return c.mk(&Term{Op: op, Sort: Bool, Args: []*Term{a, b}})
}
func (c *Ctx) ILt(a, b *Term) *Term { return c.intCmp(OpILt, a, b) }
func (c *Ctx) ILe(a, b *Term) *Term { return c.intCmp(OpILe, a, b) }

func (c *Ctx) BV2Nat(a *Term) *Term {
	if a.Op == OpBVConst {
		return c.IntConst(a.Val)
	}
	if a.Op == OpIte && a.Args[1].IsConst() && a.Args[2].IsConst() {
		return c.Ite(a.Args[0], c.BV2Nat(a.Args[1]), c.BV2Nat(a.Args[2]))
	}
	return c.mk(&Term{Op: OpBV2Nat, Sort: Int, Args: []*Term{a}})
}

// BV2Int interprets a as a signed two's-complement integer.
func (c *Ctx) BV2Int(a *Term) *Term {
	if a.Op == OpBVConst {
		return c.IntConst(a.SVal())
	}
	w := a.Sort.W
	n := c.BV2Nat(a)
	neg := c.BVSLt(a, c.BVConstU(0, w))
	return c.Ite(neg, c.ISub(n, c.IntConst(new(big.Int).Lsh(big.NewInt(1), uint(w)))), n)
}

func (c *Ctx) Int2BV(a *Term, w int) *Term {
	if a.Op == OpIntConst {
		return c.BVConst(a.Val, w)
	}
	if a.Op == OpBV2Nat && a.Args[0].Sort.W <= w {
		return c.ZExt(a.Args[0], w)
	}
	if a.Op == OpBV2Nat {
		return c.Extract(a.Args[0], w-1, 0)
	}
	if a.Op == OpIte {
		return c.Ite(a.Args[0], c.Int2BV(a.Args[1], w), c.Int2BV(a.Args[2], w))
	}
	if (a.Op == OpISub || a.Op == OpIAdd) && a.Args[1].Op == OpIntConst {
		// adding a multiple of 2^w does not change the low w bits
		m := new(big.Int).Lsh(big.NewInt(1), uint(w))
		if new(big.Int).Mod(a.Args[1].Val, m).Sign() == 0 {
			return c.Int2BV(a.Args[0], w)
		}
	}
	return c.mk(&Term{Op: OpInt2BV, Sort: BV(w), Args: []*Term{a}, I1: w})
}

// ---------- strings

func (c *Ctx) LitIndex(s string) int {
	if i, ok := c.litIdx[s]; ok {
		return i
	}
	i := len(c.Lits)
	c.Lits = append(c.Lits, s)
	c.litIdx[s] = i
	return i
}

func isHex64(s string) bool {
	if len(s) != 64 {
		return false
	}
	for i := 0; i < 64; i++ {
		ch := s[i]
		if !(ch >= '0' && ch <= '9' || ch >= 'a' && ch <= 'f') {
			return false
		}
	}
	return true
}

func isCanonDec(s string) bool {
	if s == "" {
		return false
	}
	i := 0
	if s[0] == '-' {
		i = 1
		if len(s) == 1 || s == "-0" {
			return false
		}
	}
	if s[i] == '0' && len(s) > i+1 {
		return false
	}
	for ; i < len(s); i++ {
		if s[i] < '0' || s[i] > '9' {
			return false
		}
	}
	return true
}

// StrConst maps a Go string to its unique constructor term.
func (c *Ctx) StrConst(s string) *Term {
	if isHex64(s) {
		v, _ := new(big.Int).SetString(s, 16)
		return c.StrHex(c.BVConst(v, 256))
	}
	if isCanonDec(s) {
		v, _ := new(big.Int).SetString(s, 10)
		return c.StrDec(c.IntConst(v))
	}
	return c.mk(&Term{Op: OpStrLit, Sort: Str, Args: []*Term{c.IntConstI(int64(c.LitIndex(s)))}})
}

func (c *Ctx) StrHex(v *Term) *Term {
	return c.mk(&Term{Op: OpStrHex, Sort: Str, Args: []*Term{v}})
}
func (c *Ctx) StrDec(v *Term) *Term {
	return c.mk(&Term{Op: OpStrDec, Sort: Str, Args: []*Term{v}})
}
func (c *Ctx) StrOpq(v *Term) *Term {
	return c.mk(&Term{Op: OpStrOpq, Sort: Str, Args: []*Term{v}})
}
func (c *Ctx) StrLitI(v *Term) *Term {
	return c.mk(&Term{Op: OpStrLit, Sort: Str, Args: []*Term{v}})
}
func (c *Ctx) StrCat(a, b *Term) *Term {
	return c.mk(&Term{Op: OpStrCat, Sort: Str, Args: []*Term{a, b}})
}

// GoString returns the concrete Go string of a closed Str value, if representable.
func (c *Ctx) GoString(t *Term) (string, bool) {
	if !t.IsValue() {
		return "", false
	}
	switch t.Op {
	case OpStrLit:
		i := int(t.Args[0].Val.Int64())
		if i >= 0 && i < len(c.Lits) {
			return c.Lits[i], true
		}
		return fmt.Sprintf("~lit%d~", i), true
	case OpStrHex:
		return fmt.Sprintf("%064x", t.Args[0].Val), true
	case OpStrDec:
		return t.Args[0].Val.String(), true
	case OpStrOpq:
		return fmt.Sprintf("~opq%s~", t.Args[0].Val.String()), true
	case OpStrCat:
		a, _ := c.GoString(t.Args[0])
		b, _ := c.GoString(t.Args[1])
		return a + b, true
	}
	return "", false
}

var testerOf = map[Op]Op{OpIsLit: OpStrLit, OpIsHex: OpStrHex, OpIsDec: OpStrDec, OpIsOpq: OpStrOpq, OpIsCat: OpStrCat}

func (c *Ctx) tester(op Op, a *Term) *Term {
	if ca, ok := headCtor(a); ok {
		return c.BoolConst(ca == testerOf[op])
	}
	if a.Op == OpIte && c.iteDepth(a) <= 64 {
		return c.Ite(a.Args[0], c.tester(op, a.Args[1]), c.tester(op, a.Args[2]))
	}
	return c.mk(&Term{Op: op, Sort: Bool, Args: []*Term{a}})
}
func (c *Ctx) IsLit(a *Term) *Term { return c.tester(OpIsLit, a) }
func (c *Ctx) IsHex(a *Term) *Term { return c.tester(OpIsHex, a) }
func (c *Ctx) IsDec(a *Term) *Term { return c.tester(OpIsDec, a) }
func (c *Ctx) IsOpq(a *Term) *Term { return c.tester(OpIsOpq, a) }
func (c *Ctx) IsCat(a *Term) *Term { return c.tester(OpIsCat, a) }

func (c *Ctx) accessor(op Op, ctor Op, idx int, s Sort, a *Term) *Term {
	if a.Op == ctor {
		return a.Args[idx]
	}
	if a.Op == OpIte && c.iteDepth(a) <= 64 {
		// only lift when both arms resolve (avoid accessor on wrong constructor = unspecified)
		l := c.accessor(op, ctor, idx, s, a.Args[1])
		r := c.accessor(op, ctor, idx, s, a.Args[2])
		return c.Ite(a.Args[0], l, r)
	}
	return c.mk(&Term{Op: op, Sort: s, Args: []*Term{a}})
}
func (c *Ctx) LitIdx(a *Term) *Term { return c.accessor(OpLitIdx, OpStrLit, 0, Int, a) }
func (c *Ctx) HexVal(a *Term) *Term { return c.accessor(OpHexVal, OpStrHex, 0, BV(256), a) }
func (c *Ctx) DecVal(a *Term) *Term { return c.accessor(OpDecVal, OpStrDec, 0, Int, a) }
func (c *Ctx) OpqVal(a *Term) *Term { return c.accessor(OpOpqVal, OpStrOpq, 0, Int, a) }
func (c *Ctx) CatA(a *Term) *Term   { return c.accessor(OpCatA, OpStrCat, 0, Str, a) }
func (c *Ctx) CatB(a *Term) *Term   { return c.accessor(OpCatB, OpStrCat, 1, Str, a) }

// ---------- uninterpreted functions

func (c *Ctx) DeclareFun(name string, args []Sort, ret Sort) {
	if _, ok := c.Funs[name]; ok {
		return
	}
	c.Funs[name] = FunDecl{Name: name, Args: args, Ret: ret}
	c.funOrd = append(c.funOrd, name)
}

func (c *Ctx) App(name string, args ...*Term) *Term {
	d, ok := c.Funs[name]
	if !ok {
		panic("smt: undeclared function " + name)
	}
	if len(args) != len(d.Args) {
		panic("smt: arity mismatch for " + name)
	}
	for i, a := range args {
		if a.Sort != d.Args[i] {
			panic(fmt.Sprintf("smt: %s arg %d sort %v want %v", name, i, a.Sort, d.Args[i]))
		}
	}
	return c.mk(&Term{Op: OpApp, Sort: d.Ret, Name: name, Args: args})
}
