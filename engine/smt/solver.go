package smt

import (
	"bufio"
	"fmt"
	"io"
	"math/big"
	"os"
	"os/exec"
	"strings"
	"time"
)

type Result int

const (
	Unsat Result = iota
	Sat
	Unknown
)

func (r Result) String() string { return [...]string{"unsat", "sat", "unknown"}[r] }

const datatypeDecl = `(declare-datatypes ((Str 0)) (((lit (lit_i Int)) (hex (hex_v (_ BitVec 256))) (dec (dec_v Int)) (opq (opq_v Int)) (cat (cat_a Str) (cat_b Str)))))`

// Session is one live solver process bound to one Ctx.
type Session struct {
	C         *Ctx
	Kind      string // z3 | z3-new | cvc5
	cmd       *exec.Cmd
	in        io.WriteCloser
	out       *bufio.Reader
	defined   map[int]bool
	declVar   map[string]bool
	declFun   map[string]bool
	TimeoutMs int
	Queries   int
	SolverNs  int64
	Errors    []string
	Log       io.Writer // optional transcript
	buf       strings.Builder
	Dead      bool
	inScope   bool
	scopeDefs []int
	scopeVars []string
	scopeFuns []string
}

func (s *Session) markVar(n string) {
	s.declVar[n] = true
	if s.inScope {
		s.scopeVars = append(s.scopeVars, n)
	}
}
func (s *Session) markDef(id int) {
	s.defined[id] = true
	if s.inScope {
		s.scopeDefs = append(s.scopeDefs, id)
	}
}
func (s *Session) markFun(n string) {
	s.declFun[n] = true
	if s.inScope {
		s.scopeFuns = append(s.scopeFuns, n)
	}
}

func NewSession(c *Ctx, kind string, timeoutMs int) (*Session, error) {
	s := &Session{C: c, Kind: kind, TimeoutMs: timeoutMs}
	var cmd *exec.Cmd
	switch kind {
	case "z3":
		cmd = exec.Command("z3", "-in")
	case "z3-new":
		cmd = exec.Command("z3-new", "-in")
	case "cvc5":
		cmd = exec.Command("cvc5", "--incremental", "--produce-models", "--lang=smt2", fmt.Sprintf("--tlimit-per=%d", timeoutMs))
	default:
		return nil, fmt.Errorf("unknown solver %q", kind)
	}
	in, err := cmd.StdinPipe()
	if err != nil {
		return nil, err
	}
	out, err := cmd.StdoutPipe()
	if err != nil {
		return nil, err
	}
	cmd.Stderr = os.Stderr
	if err := cmd.Start(); err != nil {
		return nil, err
	}
	s.cmd, s.in, s.out = cmd, in, bufio.NewReaderSize(out, 1<<16)
	s.preamble()
	return s, nil
}

func (s *Session) Close() {
	if s.cmd != nil {
		s.in.Close()
		_ = s.cmd.Process.Kill()
		_ = s.cmd.Wait()
		s.cmd = nil
	}
}

func (s *Session) send(str string) {
	if s.Dead {
		return
	}
	if s.Log != nil {
		io.WriteString(s.Log, str)
	}
	io.WriteString(s.in, str)
}

func (s *Session) preamble() {
	s.defined = map[int]bool{}
	s.declVar = map[string]bool{}
	s.declFun = map[string]bool{}
	var sb strings.Builder
	if s.Kind == "cvc5" {
		sb.WriteString("(set-logic ALL)\n")
	} else {
		fmt.Fprintf(&sb, "(set-option :timeout %d)\n", s.TimeoutMs)
	}
	sb.WriteString(datatypeDecl + "\n")
	s.send(sb.String())
}

// Reset forgets every assertion and definition.
func (s *Session) Reset() {
	s.send("(reset)\n")
	s.preamble()
}

func symName(n string) string {
	ok := true
	for _, ch := range n {
		if !(ch >= 'a' && ch <= 'z' || ch >= 'A' && ch <= 'Z' || ch >= '0' && ch <= '9' || ch == '_' || ch == '.' || ch == '!') {
			ok = false
		}
	}
	if ok && n != "" && !(n[0] >= '0' && n[0] <= '9') {
		return n
	}
	return "|" + strings.ReplaceAll(n, "|", "_") + "|"
}

func intLit(v *big.Int) string {
	if v.Sign() < 0 {
		return "(- " + new(big.Int).Neg(v).String() + ")"
	}
	return v.String()
}

func bvLit(v *big.Int, w int) string {
	if w%4 == 0 {
		return fmt.Sprintf("#x%0*s", w/4, v.Text(16))
	}
	return fmt.Sprintf("#b%0*s", w, v.Text(2))
}

// ref returns the text by which t is referred to inside other terms; it emits
// the needed declarations/definitions into sb first.
func (s *Session) ref(sb *strings.Builder, t *Term) string {
	switch t.Op {
	case OpBoolConst:
		if t.B {
			return "true"
		}
		return "false"
	case OpBVConst:
		return bvLit(t.Val, t.Sort.W)
	case OpIntConst:
		return intLit(t.Val)
	case OpVar:
		n := symName(t.Name)
		if !s.declVar[t.Name] {
			s.markVar(t.Name)
			fmt.Fprintf(sb, "(declare-const %s %s)\n", n, t.Sort)
		}
		return n
	}
	name := fmt.Sprintf("t%d", t.ID)
	if s.defined[t.ID] {
		return name
	}
	// iterative post-order to avoid deep recursion on long chains
	type fr struct {
		t *Term
		i int
	}
	stack := []fr{{t, 0}}
	for len(stack) > 0 {
		f := &stack[len(stack)-1]
		if f.i < len(f.t.Args) {
			a := f.t.Args[f.i]
			f.i++
			if !a.IsConst() && a.Op != OpVar && !s.defined[a.ID] {
				stack = append(stack, fr{a, 0})
			} else if a.Op == OpVar && !s.declVar[a.Name] {
				s.markVar(a.Name)
				fmt.Fprintf(sb, "(declare-const %s %s)\n", symName(a.Name), a.Sort)
			}
			continue
		}
		x := f.t
		stack = stack[:len(stack)-1]
		if s.defined[x.ID] {
			continue
		}
		s.markDef(x.ID)
		fmt.Fprintf(sb, "(define-fun t%d () %s %s)\n", x.ID, x.Sort, s.body(sb, x))
	}
	return name
}

func (s *Session) leaf(t *Term) string {
	switch t.Op {
	case OpBoolConst:
		if t.B {
			return "true"
		}
		return "false"
	case OpBVConst:
		return bvLit(t.Val, t.Sort.W)
	case OpIntConst:
		return intLit(t.Val)
	case OpVar:
		return symName(t.Name)
	}
	return fmt.Sprintf("t%d", t.ID)
}

func (s *Session) body(sb *strings.Builder, t *Term) string {
	var b strings.Builder
	args := func() {
		for _, a := range t.Args {
			b.WriteByte(' ')
			b.WriteString(s.leaf(a))
		}
	}
	switch t.Op {
	case OpExtract:
		fmt.Fprintf(&b, "((_ extract %d %d)", t.I1, t.I2)
	case OpZExt:
		fmt.Fprintf(&b, "((_ zero_extend %d)", t.I1)
	case OpSExt:
		fmt.Fprintf(&b, "((_ sign_extend %d)", t.I1)
	case OpInt2BV:
		fmt.Fprintf(&b, "((_ int2bv %d)", t.I1)
	case OpApp:
		d := s.C.Funs[t.Name]
		if !s.declFun[t.Name] {
			s.markFun(t.Name)
			var as []string
			for _, a := range d.Args {
				as = append(as, a.String())
			}
			fmt.Fprintf(sb, "(declare-fun %s (%s) %s)\n", symName(t.Name), strings.Join(as, " "), d.Ret)
		}
		if len(t.Args) == 0 {
			return symName(t.Name)
		}
		fmt.Fprintf(&b, "(%s", symName(t.Name))
	default:
		n, ok := opNames[t.Op]
		if !ok {
			panic(fmt.Sprintf("smt: no printer for op %d", t.Op))
		}
		fmt.Fprintf(&b, "(%s", n)
	}
	args()
	b.WriteByte(')')
	return b.String()
}

// Assert adds t permanently (until Reset).
func (s *Session) Assert(t *Term) {
	if t.IsTrue() {
		return
	}
	var sb strings.Builder
	r := s.ref(&sb, t)
	fmt.Fprintf(&sb, "(assert %s)\n", r)
	s.send(sb.String())
}

func (s *Session) readUntilDone() []string {
	var lines []string
	if s.Dead {
		return lines
	}
	// watchdog: a solver that ignores its own time limit is killed
	done := make(chan struct{})
	go func(proc *os.Process) {
		select {
		case <-done:
		case <-time.After(time.Duration(s.TimeoutMs)*time.Millisecond*3/2 + 15*time.Second):
			_ = proc.Kill()
		}
	}(s.cmd.Process)
	defer close(done)
	for {
		line, err := s.out.ReadString('\n')
		if err != nil {
			s.Errors = append(s.Errors, "solver stream ended (killed by watchdog or crashed): "+err.Error())
			s.Dead = true
			return lines
		}
		line = strings.TrimRight(line, "\r\n")
		if strings.Contains(line, "~~done~~") {
			return lines
		}
		if strings.Contains(line, "(error") {
			s.Errors = append(s.Errors, line)
		}
		lines = append(lines, line)
	}
}

// Check asks whether the asserted facts plus extra are satisfiable.
func (s *Session) Check(extra ...*Term) Result {
	var sb strings.Builder
	var refs []string
	for _, e := range extra {
		refs = append(refs, s.ref(&sb, e))
	}
	if len(refs) > 0 {
		s.inScope = true
		sb.WriteString("(push 1)\n")
		for _, r := range refs {
			fmt.Fprintf(&sb, "(assert %s)\n", r)
		}
	}
	sb.WriteString("(check-sat)\n(echo \"~~done~~\")\n")
	t0 := time.Now()
	nerr := len(s.Errors)
	s.send(sb.String())
	lines := s.readUntilDone()
	s.SolverNs += time.Since(t0).Nanoseconds()
	s.Queries++
	res := Unknown
	for _, l := range lines {
		switch strings.TrimSpace(l) {
		case "sat":
			res = Sat
		case "unsat":
			res = Unsat
		}
	}
	if len(s.Errors) > nerr {
		res = Unknown
	}
	return res
}

// Pop must follow a Check(extra...) with len(extra)>0 once the model (if any) was read.
func (s *Session) Pop() {
	s.send("(pop 1)\n")
	for _, id := range s.scopeDefs {
		delete(s.defined, id)
	}
	for _, n := range s.scopeVars {
		delete(s.declVar, n)
	}
	for _, n := range s.scopeFuns {
		delete(s.declFun, n)
	}
	s.scopeDefs, s.scopeVars, s.scopeFuns, s.inScope = nil, nil, nil, false
}

// CheckPop = Check + Pop when extra is non-empty.
func (s *Session) CheckPop(extra ...*Term) Result {
	r := s.Check(extra...)
	if len(extra) > 0 {
		s.Pop()
	}
	return r
}

// Values evaluates terms in the current model (after a Sat Check, before Pop).
func (s *Session) Values(ts []*Term) ([]*Term, error) {
	if len(ts) == 0 {
		return nil, nil
	}
	var sb strings.Builder
	var refs []string
	for _, t := range ts {
		// only variables and already defined terms can be referenced inside a pushed scope safely
		refs = append(refs, s.ref(&sb, t))
	}
	if sb.Len() > 0 {
		// definitions/declarations issued after the last check-sat are not reliably evaluated in its
		// model (cvc5 returned stale values): define first, then re-establish the model
		sb.WriteString("(check-sat)\n(echo \"~~done~~\")\n")
		s.send(sb.String())
		sb.Reset()
		ok := false
		for _, l := range s.readUntilDone() {
			if strings.TrimSpace(l) == "sat" {
				ok = true
			}
		}
		s.Queries++
		if !ok {
			return nil, fmt.Errorf("model lost after defining the terms to evaluate")
		}
	}
	fmt.Fprintf(&sb, "(get-value (%s))\n(echo \"~~done~~\")\n", strings.Join(refs, " "))
	s.send(sb.String())
	lines := s.readUntilDone()
	txt := strings.Join(lines, "\n")
	sx, _, err := parseSexp(txt, 0)
	if err != nil {
		return nil, fmt.Errorf("get-value parse: %v in %q", err, txt)
	}
	if len(sx.list) != len(ts) {
		return nil, fmt.Errorf("get-value: %d results for %d terms: %q", len(sx.list), len(ts), txt)
	}
	out := make([]*Term, len(ts))
	for i, pair := range sx.list {
		if len(pair.list) != 2 {
			return nil, fmt.Errorf("get-value: bad pair %q", txt)
		}
		v, err := s.C.valueOf(pair.list[1], ts[i].Sort)
		if err != nil {
			return nil, err
		}
		out[i] = v
	}
	return out, nil
}

type sexp struct {
	atom string
	list []*sexp
	isL  bool
}

func parseSexp(s string, i int) (*sexp, int, error) {
	for i < len(s) && (s[i] == ' ' || s[i] == '\n' || s[i] == '\t' || s[i] == '\r') {
		i++
	}
	if i >= len(s) {
		return nil, i, fmt.Errorf("unexpected end")
	}
	if s[i] == '(' {
		i++
		n := &sexp{isL: true}
		for {
			for i < len(s) && (s[i] == ' ' || s[i] == '\n' || s[i] == '\t' || s[i] == '\r') {
				i++
			}
			if i >= len(s) {
				return nil, i, fmt.Errorf("unterminated list")
			}
			if s[i] == ')' {
				return n, i + 1, nil
			}
			c, j, err := parseSexp(s, i)
			if err != nil {
				return nil, j, err
			}
			n.list = append(n.list, c)
			i = j
		}
	}
	j := i
	if s[i] == '|' {
		j = i + 1
		for j < len(s) && s[j] != '|' {
			j++
		}
		j++
	} else {
		for j < len(s) && !strings.ContainsRune(" \n\t\r()", rune(s[j])) {
			j++
		}
	}
	return &sexp{atom: s[i:j]}, j, nil
}

func (c *Ctx) valueOf(x *sexp, srt Sort) (*Term, error) {
	switch srt.K {
	case KBool:
		return c.BoolConst(x.atom == "true"), nil
	case KBV:
		a := x.atom
		if x.isL && len(x.list) == 3 && x.list[0].atom == "_" && strings.HasPrefix(x.list[1].atom, "bv") {
			v, _ := new(big.Int).SetString(x.list[1].atom[2:], 10)
			return c.BVConst(v, srt.W), nil
		}
		if strings.HasPrefix(a, "#x") {
			v, ok := new(big.Int).SetString(a[2:], 16)
			if !ok {
				return nil, fmt.Errorf("bad bv %q", a)
			}
			return c.BVConst(v, srt.W), nil
		}
		if strings.HasPrefix(a, "#b") {
			v, ok := new(big.Int).SetString(a[2:], 2)
			if !ok {
				return nil, fmt.Errorf("bad bv %q", a)
			}
			return c.BVConst(v, srt.W), nil
		}
		return nil, fmt.Errorf("bad bv value %v", x)
	case KInt:
		if x.isL {
			if len(x.list) == 2 && x.list[0].atom == "-" {
				v, err := c.valueOf(x.list[1], srt)
				if err != nil {
					return nil, err
				}
				return c.INeg(v), nil
			}
			return nil, fmt.Errorf("bad int value")
		}
		v, ok := new(big.Int).SetString(x.atom, 10)
		if !ok {
			return nil, fmt.Errorf("bad int %q", x.atom)
		}
		return c.IntConst(v), nil
	case KStr:
		if !x.isL || len(x.list) < 2 {
			return nil, fmt.Errorf("bad str value %+v", x)
		}
		switch x.list[0].atom {
		case "lit":
			v, err := c.valueOf(x.list[1], Int)
			if err != nil {
				return nil, err
			}
			return c.StrLitI(v), nil
		case "hex":
			v, err := c.valueOf(x.list[1], BV(256))
			if err != nil {
				return nil, err
			}
			return c.StrHex(v), nil
		case "dec":
			v, err := c.valueOf(x.list[1], Int)
			if err != nil {
				return nil, err
			}
			return c.StrDec(v), nil
		case "opq":
			v, err := c.valueOf(x.list[1], Int)
			if err != nil {
				return nil, err
			}
			return c.StrOpq(v), nil
		case "cat":
			a, err := c.valueOf(x.list[1], Str)
			if err != nil {
				return nil, err
			}
			b, err := c.valueOf(x.list[2], Str)
			if err != nil {
				return nil, err
			}
			return c.StrCat(a, b), nil
		}
	}
	return nil, fmt.Errorf("cannot decode value %+v of sort %v", x, srt)
}
