package main

import (
	"encoding/json"
	"flag"
	"fmt"
	"os"
	"strconv"
	"time"

	"bhsverif/symex"
)

func main() {
	if len(os.Args) < 2 {
		fmt.Fprintln(os.Stderr, "usage: bhsverif run|check ...")
		os.Exit(2)
	}
	switch os.Args[1] {
	case "run":
		runCmd(os.Args[2:])
	case "check":
		os.Exit(checkCmd(os.Args[2:]))
	default:
		fmt.Fprintln(os.Stderr, "unknown command")
		os.Exit(2)
	}
}

func runCmd(args []string) {
	fs := flag.NewFlagSet("run", flag.ExitOnError)
	repo := fs.String("repo", "/repo", "repository")
	harness := fs.String("harness", "/verif/harness", "harness dir")
	workers := fs.Int("j", 8, "workers")
	solver := fs.String("solver", "cvc5", "solver")
	fs.Parse(args)
	rest := fs.Args()
	if len(rest) < 2 {
		fmt.Fprintln(os.Stderr, "usage: bhsverif run [flags] <pkg-suffix> <Func> [int args]")
		os.Exit(2)
	}
	t0 := time.Now()
	P, err := symex.Load(*repo, *harness)
	if err != nil {
		fmt.Fprintln(os.Stderr, err)
		os.Exit(2)
	}
	fmt.Fprintf(os.Stderr, "loaded in %v\n", time.Since(t0))
	P.Solver = *solver
	fn := P.Func(symex.RepoModule+"/"+rest[0], rest[1])
	if fn == nil {
		fmt.Fprintln(os.Stderr, "no such function")
		os.Exit(2)
	}
	var ia []int64
	for _, a := range rest[2:] {
		v, _ := strconv.ParseInt(a, 10, 64)
		ia = append(ia, v)
	}
	ex := &symex.Explorer{P: P, Name: rest[0] + "." + rest[1], Entry: fn, IntArgs: ia, Workers: *workers}
	rep := ex.Run()
	rep.Funcs = nil
	b, _ := json.MarshalIndent(rep, "", " ")
	fmt.Println(string(b))
}
