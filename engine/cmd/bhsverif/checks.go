package main

var commonTrusted = []string{
	"golang.org/x/tools v0.29.0 go/packages + go/ssa as the meaning of the source",
	"the bhsverif executor, its intrinsics and the sqlm SQL model (validated per run by native replay of path witnesses)",
	"z3 4.8.12",
}

func checks() map[string]CheckDef {
	m := map[string]CheckDef{}
	add := func(c CheckDef) {
		if c.TrustedBase == nil {
			c.TrustedBase = commonTrusted
		}
		m[c.ID] = c
	}
	add(CheckDef{
		ID: "C19", Level: "proof",
		Runs: []HRun{
			{Pkg: "internal/zzverif/c19", Func: "HarnessLog2", Labels: []string{"C19/log2-floor"}},
			{Pkg: "internal/zzverif/c19", Func: "HarnessCompact", Labels: []string{"C19/compact-to-big", "C19/compact-sign"}, Unwind: 600},
			{Pkg: "internal/zzverif/c19", Func: "HarnessWork", Labels: []string{"C19/work", "C19/work-nonneg"}, Unwind: 600},
		},
		Bounds:  []string{"none: bits and n range over all 2^32 values; the exponent byte is case-split into its 256 values, each case decided for all 2^24 mantissa/sign values"},
		Outside: []string{"monotonicity of work in the target is a consequence of the formula and is not re-proved", "math/big itself: Add/Mul/Neg/Lsh/Div/Quo/Cmp/Sign are modelled as exact integer arithmetic (Lsh by a constant = multiplication by 2^k, Div = Euclidean division)"},
		Stubs:   []string{"math/big.Int = SMT Int; big.NewInt(int64) = signed value of the 64-bit vector", "work is checked relative to CompactToBig's result (HarnessWork), CompactToBig against the specification (HarnessCompact)"},
	})
	return m
}
