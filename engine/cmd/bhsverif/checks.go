package main

var commonTrusted = []string{
	"golang.org/x/tools v0.29.0 go/packages + go/ssa as the meaning of the source",
	"the bhsverif executor, its intrinsics and the sqlm SQL model (validated per run by native replay of path witnesses)",
	"cvc5 1.0 (deciding solver); z3 4.8.12 / z3 5.1.0 used for cross-checks",
}

func checks() map[string]CheckDef {
	m := map[string]CheckDef{}
	add := func(c CheckDef) {
		if c.TrustedBase == nil {
			c.TrustedBase = commonTrusted
		}
		m[c.ID] = c
	}
	add(CheckDef{
		ID: "C19", Level: "proof",
		Runs: []HRun{
			{Pkg: "internal/zzverif/c19", Func: "HarnessLog2", Labels: []string{"C19/log2-floor"}, Solver: "z3"},
			{Pkg: "internal/zzverif/c19", Func: "HarnessCompact", Labels: []string{"C19/compact-to-big", "C19/compact-sign"}, Unwind: 600, Solver: "z3"},
			{Pkg: "internal/zzverif/c19", Func: "HarnessWork", Labels: []string{"C19/work", "C19/work-nonneg"}, Unwind: 600, Solver: "z3"},
			{Pkg: "internal/zzverif/c19", Func: "HarnessWorkRepeated", Labels: []string{"C19/work-independent-of-earlier-calls"}, Unwind: 600, Solver: "z3"},
		},
		Bounds:  []string{"call histories: one earlier call on one of 3 fixed encodings (positive / negative / zero target), then an arbitrary encoding evaluated twice (HarnessWorkRepeated); longer histories are outside", "none: bits and n range over all 2^32 values; the exponent byte is case-split into its 256 values, each case decided for all 2^24 mantissa/sign values"},
		Outside: []string{"monotonicity of work in the target is a consequence of the formula and is not re-proved", "math/big itself: Add/Mul/Neg/Lsh/Div/Quo/Cmp/Sign are modelled as exact integer arithmetic (Lsh by a constant = multiplication by 2^k, Div = Euclidean division)"},
		Stubs:   []string{"math/big.Int = SMT Int; big.NewInt(int64) = signed value of the 64-bit vector", "work is checked relative to CompactToBig's result (HarnessWork), CompactToBig against the specification (HarnessCompact)"},
	})
	add(CheckDef{
		ID: "C20", Level: "model_checking",
		Runs: []HRun{
			{Pkg: "internal/zzverif/c20", Func: "HarnessValidate", Labels: []string{"C20/unsupported-engine-refused", "C20/empty-sqlite-path-refused", "C20/incomplete-postgres-settings-refused", "C20/missing-prepared-database-file-refused"}},
			{Pkg: "internal/zzverif/c20", Func: "HarnessNoDbSection", Labels: []string{"C20/missing-database-section-refused"}},
			{Pkg: "internal/zzverif/c20", Func: "HarnessPrecedence", Quick: [][]int64{{0}, {1}, {2}, {3}}, Witness: 200,
				Labels: []string{"C20/leaf-keys-enumerated", "C20/set-defaults-succeeds", "C20/load-succeeds", "C20/environment-over-file-over-default", "C20/keys-not-overridden-keep-their-defaults"}},
			{Pkg: "internal/zzverif/c20", Func: "HarnessKeyAndFixedKey", Quick: [][]int64{{1, 2}, {2, 1}}, Witness: 200,
				Labels: []string{"C20/set-defaults-succeeds", "C20/load-succeeds", "C20/environment-over-file-over-default", "C20/keys-not-overridden-keep-their-defaults"}},
			{Pkg: "internal/zzverif/c20", Func: "HarnessTwoKeys", Thorough: [][]int64{{1, 1}, {1, 2}, {3, 1}}, Witness: 200,
				Labels: []string{"C20/set-defaults-succeeds", "C20/load-succeeds", "C20/environment-over-file-over-default", "C20/keys-not-overridden-keep-their-defaults"}},
		},
		Bounds: []string{"precedence: every leaf key of config.AppConfig (enumerated from the type of the working tree by its mapstructure tags: 36 keys today; string, int, bool, uint16 and duration leaves) x every subset of {environment variable, configuration file} providing an arbitrary value of the key's type (strings arbitrary non-empty space-free atoms, ints all int32, uint16 all, durations whole seconds below 2^20, the logging level one of 5 valid names); the real SetDefaults, Load, loadFromFile, envConfig, unmarshallToAppConfig and GetDefaultAppConfig run symbolically against a contract model of viper and mapstructure; every path (every key x source) is replayed natively against the real viper, the real process environment and a real YAML file on every run", "validation: AppConfig.Validate / DbConfig.Validate on an otherwise default configuration whose database section is arbitrary - engine an arbitrary string or one of the two supported names, SQLite path, schema path and all six Postgres fields arbitrary (incl. empty / zero), prepared-database flag arbitrary, prepared file path empty / naming a missing file / naming an existing file; no bound on values", "refusal is required when: the engine is neither sqlite nor postgres; sqlite with an empty path; postgres with an empty host, port 0, empty user or empty database name; prepared database enabled and the file missing (or no path)"},
		Outside: []string{"viper and mapstructure themselves (modelled by their documented contract: Set > environment (AutomaticEnv, prefix, key replacer, empty variable = unset) > file > default; Unmarshal fills only keys viper knows; struct -> nested map by tags) - the model is compared with the real libraries on every path of every run by the native replays", "the command-line binding of the config-file option (cli.LoadFlags, pflag): the harness sets the config_file key the way the bound flag does", "the default config.yaml in the working directory; YAML syntax; more than two keys overridden at once (two keys: thorough tier); values of a type other than the key's", "whether the defaults equal what README / config.example.yaml document (the default is what GetDefaultAppConfig returns)", "whether valid configurations are accepted by Validate (the statement only requires refusals)", "file permissions / unreadable files (os.Stat errors other than not-exist)"},
		Stubs:   []string{"github.com/spf13/viper (process-global instance) and mapstructure.Decode: contract model in engine/symex/vipermodel.go", "process environment: a name -> value map", "logging.CreateLogger / GetDefaultLogger return a logger (the harness supplies only valid level names)", "os.Stat / os.IsNotExist over the model file system (native replay: real files)"},
	})
	add(CheckDef{
		ID: "C01", Level: "model_checking",
		Runs: []HRun{
			{Pkg: "internal/zzverif/c01", Func: "HarnessAddStep", Quick: [][]int64{{1, 0}, {2, 1}, {3, 0}, {4, 0}}, Thorough: [][]int64{{1, 1}, {2, 2}, {3, 1}, {4, 0}, {5, 0}},
				Labels: []string{"C01/inv-preserved", "C01/frame", "C01/tip-is-greatest-work", "C01/rejected-submission-changes-nothing", "C01/new-row-fields"}},
		},
		Bounds: []string{"one Add from an arbitrary stored table of k rows satisfying INV-H (quick k<=4, thorough k<=5), every column of every row symbolic", "0..2 forbidden hashes", "difficulty bits of the submitted header from a menu of 6 encodings (zero, negative, maximal work, mainnet/regtest minimum, high exponent); work of stored headers: any non-negative integer", "heights < 2^30"},
		Outside: []string{"stores with more rows than the bound (the step is uniform in the row count, but that is an argument, not a solver result)", "PostgreSQL (row order and plans are SQLite's)", "real SHA-256: the submitted header's hash is an arbitrary 256-bit value, parent links are assumed acyclic", "stored headers with zero work other than genesis (see known finding C01-F2)", "reachability of the symbolic pre-state through the public API (replay inserts the pre-state rows directly)"},
		Stubs:  []string{"BlockHasher returns an arbitrary hash", "Notification records calls", "zerolog/metrics calls have no effect", "sqlx over the sqlm model of the SQL text with row order taken from EXPLAIN QUERY PLAN of the linked SQLite"},
	})
	add(CheckDef{
		ID: "C02", Level: "model_checking",
		Runs: []HRun{
			{Pkg: "transports/http/endpoints/api/merkleroots", Func: "HarnessVerify", Quick: [][]int64{{2, 1}, {3, 2}, {4, 2}}, Thorough: [][]int64{{3, 3}, {4, 2}, {5, 2}, {6, 1}},
				Labels: []string{"C02/verdict", "C02/overall-is-worst", "C02/block-hash", "C02/echo-in-order", "C02/store-untouched"}},
		},
		Bounds:  []string{"arbitrary INV-H store of k rows (quick k<=4, thorough k<=6), request lists of n items (quick n<=2, thorough n<=3), every root an arbitrary string, every height any int32, the configured excess any 64-bit int"},
		Outside: []string{"JSON binding of the request body and the gin handler shell (C16 covers the handler)", "'follows reorganisations' is the composition of this lemma (holds from every INV-H state) with C01 (Add maps INV-H to INV-H); the composition is an argument", "PostgreSQL"},
		Stubs:   []string{"zerolog calls have no effect", "sqlx over the sqlm model"},
	})
	add(CheckDef{
		ID: "C04", Level: "model_checking",
		Runs: []HRun{
			{Pkg: "internal/zzverif/c04", Func: "HarnessByHash", Quick: [][]int64{{3}}, Thorough: [][]int64{{5}}, Labels: []string{"C04/by-hash-found-iff-stored", "C04/by-hash-returns-that-header", "C04/absent-is-404", "C04/reads-never-modify"}},
			{Pkg: "internal/zzverif/c04", Func: "HarnessTips", Quick: [][]int64{{3}}, Thorough: [][]int64{{4}, {5}}, Labels: []string{"C04/tips-exact-set", "C04/tip-longest", "C04/tips-only-stored"}},
			{Pkg: "internal/zzverif/c04", Func: "HarnessAncestors", Quick: [][]int64{{3}, {4}}, Thorough: [][]int64{{5}}, Labels: []string{"C04/ancestors-error-iff-not-descendant", "C04/ancestors-exact-path"}},
			{Pkg: "internal/zzverif/c04", Func: "HarnessByHeight", Quick: [][]int64{{3}, {4}}, Thorough: [][]int64{{5}, {6}}, Labels: []string{"C04/by-height-answers", "C04/by-height-only-stored", "C04/by-height-only-from-window", "C04/by-height-no-duplicates", "C04/by-height-all-longest-in-window"}},
			{Pkg: "internal/zzverif/c04", Func: "HarnessCommonAncestor", Quick: [][]int64{{3, 1}, {3, 2}, {4, 2}}, Thorough: [][]int64{{3, 3}, {5, 2}, {5, 3}}, Labels: []string{"C04/common-ancestor-unknown-hash-is-an-error", "C04/common-ancestor-found-iff-one-exists", "C04/common-ancestor-is-the-highest-common-one"}},
			{Pkg: "internal/zzverif/c04", Func: "HarnessCommonAncestorFork", Thorough: [][]int64{{3}},
				Labels: []string{"C04/common-ancestor-found-iff-one-exists", "C04/common-ancestor-is-the-highest-common-one"}},
			{Pkg: "internal/zzverif/c04", Func: "HarnessFreshAnswers", Quick: [][]int64{{1, 0}, {1, 1}, {1, 2}, {1, 3}, {1, 4}, {1, 5}, {1, 6}, {1, 7}, {1, 8}, {2, 0}, {2, 4}, {2, 5}, {2, 7}}, Thorough: [][]int64{{2, 0}, {2, 1}, {2, 2}, {2, 3}, {2, 4}, {2, 5}, {2, 6}, {2, 7}, {2, 8}, {3, 5}, {3, 7}},
				Labels: []string{"C04/read-routes-registered", "C04/answer-after-ingestion-equals-a-fresh-process"}},
			{Pkg: "transports/http/endpoints/api/headers", Func: "HarnessMapHeader", Quick: [][]int64{{2}}, Thorough: [][]int64{{3}}, Labels: []string{"C04/header-response-carries-the-stored-fields", "C04/state-response-carries-the-stored-fields", "C04/list-response-keeps-length-and-order"}},
			{Pkg: "transports/http/endpoints/api/tips", Func: "HarnessMapTip", Quick: [][]int64{{2}}, Thorough: [][]int64{{3}}, Labels: []string{"C04/tip-response-carries-the-stored-fields", "C04/tips-response-keeps-length-and-order"}},
			{Pkg: "transports/http/endpoints/api/headers", Func: "HarnessByHeightRoute", Quick: [][]int64{{2}}, Thorough: [][]int64{{3}},
				Labels: []string{"C04/by-height-route-answers-with-the-window"}},
			{Pkg: "transports/http/endpoints/api/headers", Func: "HarnessHashRoutes", Quick: [][]int64{{2}}, Thorough: [][]int64{{3}},
				Labels: []string{"C04/hash-routes-answer-with-the-service-result"}},
		},
		Bounds:  []string{"arbitrary INV-H store of k rows (quick k<=4, thorough k<=5), every column symbolic; query hash an arbitrary string (by-hash/state) or any ordered pair of distinct stored headers (ancestors); by-height: any height and count with |.| < 2^40; common-ancestor: every list of n stored-or-unknown hashes (quick k<=4 n<=2; thorough k=3 n=3, k=5 n<=3, and the two-branch shape of 5 rows with n=3), on stores without a parent stored after its child", "no state outside the store: for each of the 9 routes under /api/v1/chain (enumerated from the routing table; auth off) one arbitrary request, then one arbitrary new header ingested through the same process, then the same request again - its answer (status and documents) equals that of a freshly assembled application over the same database; k=1 for every route and k=2 for header by hash, header state, the merkle-root listing and tips (quick), k=2 for every route and k=3 for those two (thorough)"},
		Outside: []string{"JSON encoding of the response structs (field names / tags); the struct-level mapping is checked for every header with a timestamp within uint32 seconds", "PostgreSQL", "tips: the row order of the UNION is unspecified, the result is compared as a set"},
		Stubs:   []string{"zerolog calls have no effect", "sqlx over the sqlm model"},
	})
	add(CheckDef{
		ID: "C08", Level: "model_checking",
		Runs: []HRun{
			{Pkg: "internal/zzverif/c08", Func: "HarnessPage", Quick: [][]int64{{2}, {3}, {4}}, Thorough: [][]int64{{4}, {5}, {6}},
				Labels: []string{"C08/ok-iff-key-empty-or-longest", "C08/page-length", "C08/ascending-consecutive", "C08/only-longest-chain-rows", "C08/last-key", "C08/unknown-key-404", "C08/non-longest-key-409"}},
			{Pkg: "internal/zzverif/c08", Func: "HarnessPageAfterAdd", Quick: [][]int64{{2}}, Thorough: [][]int64{{3}, {4}},
				Labels: []string{"C08/ok-iff-key-empty-or-longest", "C08/page-length", "C08/ascending-consecutive", "C08/last-key"}},
			{Pkg: "transports/http/endpoints/api/merkleroots", Func: "HarnessListRoute", Quick: [][]int64{{2, 0}, {4, 1}}, Thorough: [][]int64{{3, 0}, {5, 1}},
				Labels: []string{"C08/listing-route-answers-with-the-requested-page"}},
		},
		Bounds:  []string{"arbitrary INV-H store of k rows with pairwise distinct merkle roots (quick k<=4 for one page, k=2 for the page-after-ingestion composition; thorough k<=6 / k<=4); page size any int >= 0; key any string", "walk interleaved with ingestion: page request, one arbitrary Add (incl. reorganisations), page request with an arbitrary (possibly identical) key, from stores of k rows (quick k=2, thorough k<=4)"},
		Outside: []string{"the walk over several pages follows from the page lemma by induction on pages (argument, not a solver result)", "parsing of batchSize in the handler (C16)", "PostgreSQL"},
		Stubs:   []string{"zerolog calls have no effect", "sqlx over the sqlm model"},
	})
	add(CheckDef{
		ID: "C13", Level: "model_checking",
		Runs: []HRun{
			{Pkg: "internal/zzverif/c13", Func: "HarnessLocator", Unwind: 100, Labels: []string{"C13/locator-starts-at-tip", "C13/locator-ends-at-genesis", "C13/locator-strictly-descending", "C13/locator-step-pattern", "C13/locator-length-bound", "C13/locator-only-longest-chain-hashes"}},
			{Pkg: "internal/zzverif/c13", Func: "HarnessRange", Labels: []string{"C13/range-bounds", "C13/range-at-most-2000", "C13/range-nothing-when-stop-not-ahead"}},
			{Pkg: "internal/zzverif/c13", Func: "HarnessGetHeaders", Quick: [][]int64{{3, 1}, {3, 2}, {4, 2}}, Thorough: [][]int64{{4, 2}, {5, 2}, {4, 3}},
				Labels: []string{"C13/answer-length", "C13/ascending-longest-chain-headers-after-start", "C13/nothing-when-stop-at-or-below-start"}},
		},
		Bounds:  []string{"locator algorithm: EVERY tip height 0..2^31-1 over an abstract longest chain (one header per height)", "range arithmetic: every start/stop height", "end to end: arbitrary INV-H store of k rows (quick k<=3, thorough k<=5), locators of 0..3 arbitrary hashes, arbitrary stop hash"},
		Outside: []string{"the 2000-header cap is decided by the range lemma on abstract heights, not end to end (a store of 2001 rows is outside the row bound)", "wire encoding of the answer (C14)", "PostgreSQL"},
		Stubs:   []string{"HarnessLocator/HarnessRange replace repository.Headers by an abstract chain whose contract (one longest-chain header per height; start/stop heights) is what HarnessGetHeaders, C01 and C04 decide on symbolic stores"},
	})
	add(CheckDef{
		ID: "C03", Level: "model_checking",
		Runs: []HRun{
			{Pkg: "internal/zzverif/c03", Func: "HarnessHash", Labels: []string{"C03/hash-is-double-sha256-of-80-byte-layout", "C03/serialisation-is-80-bytes"}},
			{Pkg: "internal/zzverif/c03", Func: "HarnessDerived", Labels: []string{"C03/received-fields-kept", "C03/own-work", "C03/height-is-parent-plus-one", "C03/cumulative-work-is-parents-plus-own", "C03/state-follows-parent", "C03/unknown-parent-height-1", "C03/unknown-parent-own-work-only"}},
			{Pkg: "internal/zzverif/c03", Func: "HarnessRoundTrip", Quick: [][]int64{{1}, {2}}, Thorough: [][]int64{{1}, {3}, {5}}, Labels: []string{"C03/round-trip-exact", "C03/exactly-one-row-added", "C03/other-rows-untouched"}},
			{Pkg: "internal/zzverif/c03", Func: "HarnessWriteStatements", Quick: [][]int64{{2}}, Thorough: [][]int64{{4}}, Labels: []string{"C03/no-header-disappears", "C03/only-state-label-changes", "C03/write-statements-found"}},
			{Pkg: "database", Func: "HarnessRealBatches", Quick: [][]int64{{3, 1}, {3, 2}}, Thorough: [][]int64{{4, 1}, {4, 3}},
				Labels: []string{"C17/same-hash-at-same-height", "C17/same-fields", "C17/same-cumulative-work"}},
			// the work clause of the statement: HarnessDerived compares the stored work with CalculateWork's own result,
			// so CalculateWork and CompactToBig are decided against the formula here as well (same harnesses as C19)
			{Pkg: "internal/zzverif/c19", Func: "HarnessCompact", Labels: []string{"C19/compact-to-big", "C19/compact-sign"}, Unwind: 600, Solver: "z3"},
			{Pkg: "internal/zzverif/c19", Func: "HarnessWork", Labels: []string{"C19/work", "C19/work-nonneg"}, Unwind: 600, Solver: "z3"},
		},
		Bounds:  []string{"own work = floor(2^256/(target+1)), zero for non-positive targets: all 2^32 values of bits (the C19 harnesses for CompactToBig and CalculateWork, exponent byte case-split)", "the import write path: the real sqLiteAdapter.importHeaders batch loop over k exported rows (quick k=3, thorough k=4) with the batch size set to 1..3 through the verification overlay (the constant 500 becomes a variable in the overlay only): hash, height, fields and cumulative work of every imported header equal the exported chain", "hash and derived fields: full field domain (all int32 versions, uint32 bits/nonce, 32-byte hashes, timestamps over the uint32 epoch range); bits of the derived-field harness from a 6-entry menu (work exactness on all 2^32 encodings is C19)", "round trip next to k arbitrary rows (quick k<=2, thorough k<=5)", "every INSERT/UPDATE/DELETE statement constant of the database packages that names the headers table, with arbitrary arguments, on k arbitrary rows"},
		Outside: []string{"SHA-256 itself (uninterpreted)", "sub-second timestamps", "driver value conversions of go-sqlite3 (exercised by the native witness replays, not by the solver)", "restarts: the service keeps no header state in memory; persistence is SQLite's", "statements assembled at run time with fmt.Sprintf are not enumerated"},
		Stubs:   []string{"crypto/sha256.Sum256 = uninterpreted function per input length", "bytes.Buffer, io, encoding/binary are executed from their Go source"},
	})
	add(CheckDef{
		ID: "C05", Level: "model_checking",
		Runs: []HRun{
			{Pkg: "internal/zzverif/c05", Func: "HarnessFaultyAdd", Quick: [][]int64{{2}, {3}}, Thorough: [][]int64{{3}, {4}},
				Labels: []string{"C05/structurally-valid-after-fault", "C05/acknowledged-headers-unaltered", "C05/redelivery-not-stuck", "C05/redelivery-reaches-uninterrupted-state", "C05/failed-store-reports-error-and-no-event"}},
			{Pkg: "database", Func: "HarnessInitRestart", Quick: [][]int64{{1}, {3}}, Thorough: [][]int64{{4}, {5}},
				Labels: []string{"C05/first-start-succeeds", "C05/first-start-creates-exactly-genesis", "C05/restart-succeeds", "C05/restart-changes-nothing"}},
			{Pkg: "database", Func: "HarnessRestart", Quick: [][]int64{{0}, {1}, {3}}, Thorough: [][]int64{{0}, {4}, {5}},
				Labels: []string{"C05/genesis-row-wellformed", "C05/restart-succeeds", "C05/empty-store-gets-exactly-genesis", "C05/restart-changes-nothing"}},
			{Pkg: "internal/zzverif/c05", Func: "HarnessFaultyReorg", Quick: [][]int64{{4}}, Thorough: [][]int64{{5}},
				Labels: []string{"C05/structurally-valid-after-fault", "C05/redelivery-reaches-uninterrupted-state"}},
		},
		Bounds:  []string{"the slice 'submitted header is new and its parent is a stored STALE header' (the submissions that can reorganise) one row further: k=4 quick, k=5 thorough", "one ingestion step from an arbitrary INV-H store of k rows (quick k<=3, thorough k<=4) with ONE fault: kill right after, or failure of, the j-th write-transaction commit, j in 1..3 (every write boundary of an Add incl. both state updates of a reorganisation and the insert); then restart (new connection) and redelivery of the same header, compared row by row with the uninterrupted run from the same store", "bits of the submitted header from a 3-entry menu; stored works arbitrary positive"},
		Outside: []string{"torn writes inside one SQLite transaction (SQLite's atomicity is trusted)", "opening the file and the migration library at restart (sqlx.Open / golang-migrate are stubbed: the schema is in place); the rest of database.Init IS executed from source (HarnessInitRestart: a first start creates exactly genesis; a restart on any table of k rows with distinct hashes succeeds and changes nothing)", "several faults in one history; redelivery of a whole interrupted branch in another order", "genesis insertion / import at restart (see C17 kernels)"},
		Stubs:   []string{"commit fault injection: symbolically a counter in the sqlx model; natively (witness and counterexample replays) a database/sql driver wrapper around go-sqlite3 that fails or panics at the chosen commit"},
	})
	add(CheckDef{
		ID: "C09", Level: "model_checking",
		Runs: []HRun{
			{Pkg: "internal/zzverif/c09", Func: "HarnessRouteTable", Quick: [][]int64{{1, 1}, {1, 0}, {0, 1}, {0, 0}}, Labels: []string{"C09/only-allowed-routes-outside-api-prefix", "C09/profiling-only-when-enabled", "C09/routes-registered"}},
			{Pkg: "internal/zzverif/c09", Func: "HarnessAuth", Quick: [][]int64{{1, 1, 1}, {0, 0, 1}}, Thorough: [][]int64{{1, 1, 2}, {1, 0, 3}, {0, 1, 1}, {0, 0, 2}},
				Labels: []string{"C09/unauthenticated-gets-structured-401-before-any-handler-logic", "C09/authenticated-is-let-through", "C09/auth-disabled-routes-reachable-without-credentials", "C09/api-routes-registered"}},
			{Pkg: "internal/zzverif/c09", Func: "HarnessRevokedLater", Quick: [][]int64{{1}}, Thorough: [][]int64{{2}, {3}},
				Labels: []string{"C09/administrator-can-revoke", "C09/revoked-token-gets-structured-401-on-the-next-request"}},
			{Pkg: "internal/zzverif/c09", Func: "HarnessNearMissTokens",
				Labels: []string{"C09/unauthenticated-gets-structured-401-before-any-handler-logic", "C09/authenticated-is-let-through", "C09/api-routes-registered"}},
		},
		Bounds:  []string{"every route that endpoints.SetupRoutes / metrics.Register / websocket.SetupEntrypoint register on the working tree (enumerated at run time) x {use_auth} x {debug_profiling}", "Authorization header = 0..3 space-separated space-free atoms, each an arbitrary string (this is every header value with at most two spaces, incl. empty parts)", "admin token an arbitrary non-empty space-free string; tokens table of k arbitrary rows (quick k=1, thorough k<=3)", "16 other request headers (Origin, Access-Control-Request-*, X-Forwarded-For, X-Api-Key, Cookie, Upgrade, ...) carry arbitrary values or are absent; header names outside that list are absent", "strings are atoms in the encoding, so byte-level near misses come from a menu: 16 concrete variants (proper prefixes incl. empty, extensions, case variants, suffixes, SQL wildcards, concatenation) of one concrete admin token and one concrete stored token, on every API route"},
		Outside: []string{"gin's own route matching and net/http (routes are addressed by their pattern)", "metrics route (metrics are disabled in the harness)", "the websocket connect handshake (C10)", "header values with three or more spaces (all are refused by the same len(parts) != 2 test)"},
		Stubs:   []string{"gin.Context modelled (Param/Query/GetHeader/Bind*/JSON/Abort*/Set/Get/Next); gin's RouterGroup code runs from source, Engine.addRoute is intercepted", "wrapped net/http handlers (swagger, pprof, websocket) are opaque handlers answering 200"},
	})
	add(CheckDef{
		ID: "C16", Level: "model_checking",
		Runs: []HRun{
			{Pkg: "internal/zzverif/c16", Func: "HarnessRouteCount", Labels: []string{"C16/route-table-within-runner-range"}},
			{Pkg: "internal/zzverif/c16", Func: "HarnessNo5xx", Quick: [][]int64{{2, 0}, {2, 1}, {2, 2}, {2, 3}, {2, 4}, {2, 5}, {2, 6}, {2, 7}, {2, 8}, {2, 9}, {2, 10}, {2, 11}, {2, 12}, {2, 13}, {2, 14}, {2, 15}, {2, 16}, {2, 17}, {2, 18}, {2, 19}, {2, 20}, {2, 21}, {2, 22}, {2, 23}}, Thorough: [][]int64{{3, 0}, {3, 1}, {3, 2}, {3, 3}, {3, 4}, {3, 5}, {3, 6}, {3, 7}, {3, 8}, {3, 9}, {3, 10}, {3, 11}, {3, 12}, {3, 13}, {3, 14}, {3, 15}, {3, 16}, {3, 17}, {3, 18}, {3, 19}, {3, 20}, {3, 21}, {3, 22}, {3, 23}},
				Labels: []string{"C16/no-crash", "C16/no-5xx", "C16/single-document", "C16/client-error-is-structured", "C16/header-store-untouched"}},
		},
		Bounds:  []string{"every route registered under /api/v1 on the working tree (enumerated at run time; the runner covers table indexes 0..23 and the route-count harness fails if there are more), authentication off", "one arbitrary request per run: every path parameter and query value an arbitrary string (numeric, non-numeric, empty, hash-shaped, stored or unknown), query values present or absent, bodies either unbindable or an arbitrary value of the bound type with lists of 0..2 elements", "stores: arbitrary INV-H headers table of k rows (quick k=2, thorough k=3), one arbitrary token row, one arbitrary webhook row"},
		Outside: []string{"gin's route matching (a path parameter equal to a static sibling segment such as 'byHeight' is routed to the parameter route here)", "JSON encoding of response bodies; malformed JSON is modelled as 'binding fails'", "numerals in non-canonical form ('+5', '007') are outside the string model", "storage failures (none injected: a 5xx would then be legitimate)"},
		Stubs:   []string{"gin.Context model, sqlx over sqlm, webhook target client never called"},
	})
	add(CheckDef{
		ID: "C10", Level: "model_checking",
		Runs: []HRun{
			{Pkg: "internal/zzverif/c10", Func: "HarnessOps", Quick: [][]int64{{1, 2}, {2, 3}}, Thorough: [][]int64{{2, 4}, {3, 3}, {4, 2}},
				Labels: []string{"C10/authenticates-iff-admin-or-issued-and-not-revoked", "C10/admin-flag-exact", "C10/admin-always-authenticates-as-admin", "C10/issued-token-authenticates-at-once", "C10/create-succeeds"}},
			{Pkg: "internal/zzverif/c10", Func: "HarnessRevokeRace", Quick: [][]int64{{2}}, Thorough: [][]int64{{3}},
				Labels: []string{"C10/revoked-token-never-authenticates-afterwards", "C10/other-tokens-unaffected-by-revocation", "C10/revoke-succeeds"}},
			{Pkg: "internal/zzverif/c10", Func: "HarnessOddValues",
				Labels: []string{"C10/authenticates-iff-admin-or-issued-and-not-revoked", "C10/other-tokens-unaffected-by-revocation", "C10/admin-always-authenticates-as-admin"}},
			{Pkg: "transports/websocket", Func: "HarnessConnect", Quick: [][]int64{{1, 1}, {1, 0}}, Thorough: [][]int64{{3, 1}, {2, 0}},
				Labels: []string{"C10/websocket-handshake-accepts-iff-token-valid", "C10/websocket-handshake-open-when-auth-off"}},
			{Pkg: "transports/websocket", Func: "HarnessConnectAfterRevocation", Quick: [][]int64{{1}, {2}}, Thorough: [][]int64{{3}},
				Labels: []string{"C10/websocket-handshake-accepts-iff-token-valid", "C10/revoke-succeeds", "C10/revoked-token-never-authenticates-afterwards", "C10/other-tokens-unaffected-by-revocation"}},
		},
		Bounds:  []string{"every sequence of n operations (quick n<=3, thorough n<=4) drawn from create / revoke(arbitrary value) / authenticate(arbitrary value), from an arbitrary tokens table of k rows (k<=4), arbitrary non-empty admin token; validity is checked through an arbitrary probe token against a set model", "websocket connect handshake: arbitrary token against the same stores, authentication on and off"},
		Outside: []string{"pairwise distinctness of issued tokens is a property of uniuri's randomness: it is ASSUMED (a colliding token would be dropped silently by ON CONFLICT DO NOTHING)", "restarts: TokenService holds no state but the configured admin token, the table is SQLite's", "operations overlapping in time, except: one authentication of the same token served at any storage-operation boundary inside a revocation (HarnessRevokeRace)", "the centrifuge transport; only the OnConnecting handler registered by setupNode is executed"},
		Stubs:   []string{"uniuri.NewLen returns an arbitrary string", "centrifuge.Node: OnConnecting stores the handler, which the harness invokes (natively read back from the node by reflection)"},
	})
	add(CheckDef{
		ID: "C11", Level: "model_checking",
		Runs: []HRun{
			{Pkg: "internal/zzverif/c11", Func: "HarnessEvents", Quick: [][]int64{{2}, {3}}, Thorough: [][]int64{{3}, {4}},
				Labels: []string{"C11/exactly-one-event-per-stored-header-on-every-channel", "C11/event-fields-equal-stored-header", "C11/event-is-an-ADD-event", "C11/reported-stored-iff-stored", "C11/slow-channel-does-not-block-ingestion"}},
			{Pkg: "internal/zzverif/c11", Func: "HarnessWebsocketChannel", Labels: []string{"C11/websocket-publishes-once-to-headers", "C11/websocket-payload-is-the-event"}},
		},
		Bounds:  []string{"one Add from an arbitrary INV-H store of k rows (quick k<=3, thorough k<=4): stored, duplicate, forbidden, or failing at the j-th write transaction (j=1..3); real Notifier with three channels, the middle one blocking forever", "websocket channel: arbitrary event fields, arbitrary history settings, publish succeeding or failing"},
		Outside: []string{"goroutine interleavings: a goroutine started with `go` runs at its spawn point until it finishes or blocks forever (then it is parked); other schedules are not explored", "centrifuge delivery to real clients; the JSON text (json.Marshal is a blob tagged with the encoded value)", "a panicking channel", "webhook delivery is C12"},
		Stubs:   []string{"recording channels, recording publisher", "encoding/json.Marshal = opaque blob of its argument"},
	})
	add(CheckDef{
		ID: "C12", Level: "model_checking",
		Runs: []HRun{
			{Pkg: "internal/zzverif/c12", Func: "HarnessNotifyStep", Quick: [][]int64{{1}, {2}}, Thorough: [][]int64{{2}, {3}},
				Labels: []string{"C12/one-POST-per-active-webhook", "C12/carries-exactly-its-authorisation-header", "C12/success-resets-count-and-keeps-active", "C12/failure-increments-count", "C12/inactive-exactly-when-count-reaches-max-tries", "C12/inactive-webhooks-are-not-called", "C12/inactive-row-untouched"}},
			{Pkg: "internal/zzverif/c12", Func: "HarnessRegister", Quick: [][]int64{{1}, {2}}, Thorough: [][]int64{{3}},
				Labels: []string{"C12/re-registering-an-active-url-is-refused", "C12/inactive-url-is-reactivated-with-zero-count", "C12/new-url-is-stored", "C12/stored-authorisation-is-the-documented-header", "C12/delete-removes-exactly-that-webhook"}},
			{Pkg: "internal/zzverif/c12", Func: "HarnessReport", Quick: [][]int64{{1}, {2}}, Thorough: [][]int64{{3}},
				Labels: []string{"C12/report-active-flag-and-error-count", "C12/report-time-and-status-of-last-attempt", "C12/unknown-webhook-is-an-error"}},
			{Pkg: "internal/zzverif/c12", Func: "HarnessHistory", Quick: [][]int64{{1, 2}}, Thorough: [][]int64{{1, 3}, {2, 2}},
				Labels: []string{"C12/history-leaves-no-state-outside-the-store"}},
		},
		Bounds:  []string{"one event delivered to an arbitrary webhooks table of k rows (quick k<=2, thorough k<=3): every column arbitrary, every per-call outcome in {200, other status 100..599, transport error, unreadable body}, max_tries any int >= 1; the step covers any history because the pre-state is arbitrary", "registration (bearer | custom header | none) / re-registration / deletion of an arbitrary URL against an arbitrary table", "report of an arbitrary stored row", "histories: n operations (event with outcomes 200 / transport error per delivery, registration of a stored or new url, deletion) on one long-lived service from an arbitrary table of k rows (quick k=1, n=2; thorough k=1, n=3 and k=2, n=2), then one more event delivered by that service and by a freshly assembled one over a copy of the store: same requests, same resulting store"},
		Outside: []string{"a custom header literally named Content-Type (the sender sets that name itself; assumed different)", "the net/http client in transports/http/client (the header map handed to it is what is asserted)", "events delivered concurrently; the HTTP shell of the webhook endpoints is C16", "restart: the service keeps no webhook state in memory"},
		Stubs:   []string{"WebhookTargetClient: recording stub with symbolic outcomes; http.Response bodies are harness readers", "time.Now arbitrary non-decreasing"},
	})
	add(CheckDef{
		ID: "C07", Level: "model_checking",
		Runs: []HRun{
			{Pkg: "internal/zzverif/c01", Func: "HarnessAddStep", Quick: [][]int64{{2, 1}, {2, 2}}, Thorough: [][]int64{{3, 2}, {4, 1}},
				Labels: []string{"C01/known-or-forbidden-never-stored", "C01/nothing-stored-only-when-known-or-forbidden", "C01/rejected-submission-changes-nothing", "C01/inv-preserved"}},
			{Pkg: "transports/p2p/p2psync", Func: "HarnessNextCheckpoint", Quick: [][]int64{{0}, {1}, {2}, {3}}, Thorough: [][]int64{{0}, {1}, {2}, {3}, {4}, {5}},
				Labels: []string{"C07/next-checkpoint-is-the-first-one-above", "C07/no-checkpoint-after-the-last"}},
			{Pkg: "transports/p2p/p2psync", Func: "HarnessHeadersBatch", Quick: [][]int64{{1, 0}, {2, 1}, {2, 2}, {3, 1}}, Thorough: [][]int64{{3, 2}, {4, 1}, {3, 3}, {4, 2}},
				Labels: []string{"C07/nothing-submitted-after-a-forbidden-or-checkpoint-violating-header", "C07/offending-peer-is-disconnected", "C07/nothing-further-requested-from-offending-peer", "C07/forbidden-header-bans-the-peer-once",
					"C07/request-stops-at-the-next-checkpoint", "C07/after-the-last-checkpoint-requests-are-unbounded", "C07/matching-checkpoint-advances-sync-from-it", "C07/exactly-one-follow-up-request"}},
			{Pkg: "internal/transports/p2p/peer", Func: "HarnessCheckpointCursor", Quick: [][]int64{{0}, {1}, {2}, {3}}, Thorough: [][]int64{{0}, {1}, {2}, {3}, {4}},
				Labels: []string{"C07x/cursor-starts-at-first-checkpoint-above-tip", "C07x/matching-header-advances-to-exactly-the-next-checkpoint", "C07x/contradicting-or-skipping-header-refused", "C07x/after-the-last-checkpoint-unbounded", "C07x/no-checkpoint-left-means-unbounded"}},
			{Pkg: "internal/transports/p2p/peer", Func: "HarnessExpHeadersBatch", Quick: [][]int64{{1, 1}, {2, 1}, {2, 2}, {3, 1}}, Thorough: [][]int64{{3, 2}, {4, 1}, {3, 3}},
				Labels: []string{"C07x/offending-peer-is-disconnected", "C07x/nothing-submitted-after-the-offending-header", "C07x/nothing-requested-from-the-offending-peer", "C07x/honest-batch-keeps-the-peer", "C07x/every-header-of-an-honest-batch-is-submitted"}},
		},
		Bounds:  []string{"storage: the C01 step with 1..2 arbitrary forbidden hashes (a forbidden hash is never stored; INV-H incl. 'no stored forbidden hash' is preserved, so its descendants can only be orphans)", "default engine: handleHeadersMsg on batches of m headers (quick m<=3, thorough m<=4) with an arbitrary outcome per header (stored on the longest chain / stored elsewhere / known / forbidden / save failure), arbitrary heights and hashes, checkpoint lists of n<=3 ascending arbitrary checkpoints and every cursor position", "checkpoint search (both engines): every list of n ascending checkpoints (n<=5), every height"},
		Outside: []string{"'still converges afterwards' (C06)", "ban bookkeeping and peer admission (C18)", "the experimental engine's goroutines and sockets (its Peer.handleHeadersMsg step IS checked on batches of m<=3 (quick) / 4 (thorough) headers with arbitrary outcomes and n<=3 checkpoints)", "serving endpoints never return a forbidden header because none is ever stored (INV-H), not checked per endpoint"},
		Stubs:   []string{"service.Chains replaced by a stub returning an arbitrary outcome per header (each outcome is one C01 allows)", "service.Headers stub supplies the locator", "peer: a real peerpkg.Peer marked connected with a no-op connection; queued messages and Disconnect are observed through in-package helpers", "SyncManager.logSyncState (logging) is a no-op"},
	})
	add(CheckDef{
		ID: "C06", Level: "model_checking",
		Runs: []HRun{
			{Pkg: "transports/p2p/p2psync", Func: "HarnessStartSync", Quick: [][]int64{{1, 0, 0}, {1, 1, 0}, {2, 1, 0}, {1, 0, 1}, {2, 1, 1}}, Thorough: [][]int64{{2, 2, 0}, {3, 1, 0}, {3, 2, 0}, {2, 2, 1}, {3, 0, 1}},
				Labels: []string{"C06/manager-created", "C06/no-sync-peer-when-all-peers-are-behind", "C06/a-peer-at-or-above-our-height-is-chosen", "C06/only-the-sync-peer-is-asked", "C06/exactly-one-initial-request",
					"C06/initial-request-from-our-tip-to-next-checkpoint", "C06/answering-sync-peer-is-kept", "C06/answer-with-progress-is-followed-by-one-request", "C06/follow-up-request-from-new-tip-to-next-checkpoint"}},
			{Pkg: "transports/p2p/p2psync", Func: "HarnessInvAfterSync", Quick: [][]int64{{0, 0}, {1, 0}, {0, 1}}, Thorough: [][]int64{{2, 0}, {3, 0}, {2, 1}},
				Labels: []string{"C06/empty-answer-sends-nothing", "C06/announced-unknown-block-is-requested", "C06/sync-peer-kept-when-another-connects"}},
			{Pkg: "transports/p2p/p2psync", Func: "HarnessSyncPeerLost", Quick: [][]int64{{0, 0}, {1, 0}, {0, 1}}, Thorough: [][]int64{{2, 0}, {3, 0}, {2, 1}},
				Labels: []string{"C06/another-candidate-takes-over", "C06/new-sync-peer-is-asked"}},
			{Pkg: "transports/p2p/p2psync", Func: "HarnessInvWithoutSyncPeer", Quick: [][]int64{{0, 0}, {1, 0}, {0, 1}}, Thorough: [][]int64{{2, 0}, {3, 0}, {2, 1}},
				Labels: []string{"C06/announced-unknown-block-is-requested", "C06/answer-to-our-own-request-is-processed"}},
			{Pkg: "transports/p2p/p2psync", Func: "HarnessSyncInvariantStep", Quick: [][]int64{{1, 0, 0}, {1, 1, 0}, {2, 0, 1}}, Thorough: [][]int64{{2, 1, 0}, {2, 2, 0}, {3, 0, 1}},
				Labels: []string{"C06/sync-invariant-preserved-by-every-event"}},
			{Pkg: "internal/transports/p2p/peer", Func: "HarnessExpHeadersBatch", Quick: [][]int64{{1, 1}, {2, 1}, {2, 2}, {3, 1}}, Thorough: [][]int64{{3, 2}, {4, 1}, {3, 3}},
				Labels: []string{"C06x/no-progress-no-request", "C06x/progress-is-followed-by-exactly-one-request", "C06x/follow-up-carries-the-locator-and-the-next-checkpoint"}},
			{Pkg: "internal/transports/p2p/peer", Func: "HarnessExpInv",
				Labels: []string{"C06x/announced-unknown-block-is-requested", "C06x/nothing-requested-otherwise"}},
			{Pkg: "transports/p2p/p2psync", Func: "HarnessStalledSyncPeer", Quick: [][]int64{{1, 0}, {0, 1}}, Thorough: [][]int64{{2, 0}, {3, 0}, {1, 1}},
				Labels: []string{"C06/stalled-sync-peer-is-disconnected", "C06/a-sync-peer-is-chosen-after-a-stall", "C06/sync-peer-within-the-stall-limit-or-caught-up-is-kept"}},
			{Pkg: "transports/p2p/p2psync", Func: "HarnessHeadersBatch", Quick: [][]int64{{2, 1}, {2, 2}}, Thorough: [][]int64{{3, 2}, {4, 1}},
				Labels: []string{"C07/exactly-one-follow-up-request", "C07/request-stops-at-the-next-checkpoint", "C07/after-the-last-checkpoint-requests-are-unbounded", "C07/matching-checkpoint-advances-sync-from-it"}},
		},
		Bounds: []string{"inductive step: the invariant 'a sync peer is a registered peer with its bookkeeping and headers are expected; whenever a registered candidate is strictly ahead of our tip there is a sync peer; while a request of ours to a registered peer is unanswered headers are expected' is preserved by one arbitrary event (peer connects / leaves, headers from any peer with any outcome, inv from any peer, periodic check with any idle time) from every manager state of m registered peers (quick m<=2, thorough m<=3) satisfying it", "C06 is claimed as step obligations of the default sync engine, not as a liveness proof: P1 choice of the sync peer and the first request (m<=3 candidate peers connecting in turn with arbitrary best heights, arbitrary own tip, n<=2 arbitrary ascending checkpoints or checkpoints disabled, manager built by the real constructor); P2 an answer that makes progress keeps the peer and is followed by exactly one request from the new tip; P3 batch continuation incl. checkpoint hand-over (HarnessHeadersBatch, shared with C07); P4 a block announced by inv (by the sync peer or by another connected peer, the node being current) after an answer that brought nothing new is requested from the announcer and the request really reaches the peer's send queue (through the real duplicate-request filter of peer.Peer); P5 when the sync peer leaves, another candidate takes over and is asked; P7 with no sync peer ever chosen (all peers behind) a caught-up peer's inv is followed by a request whose answer is processed, not dropped as unrequested; P6 the periodic check disconnects a sync peer that delivered nothing for more than the stall limit (any idle time up to 2^20 s except within 10 s of the 180 s limit) while we are below its height and asks another candidate, and keeps one within the limit or caught up",
			"the convergence argument built from the steps (each answered request either adds headers or ends at the peer's tip; every such state has exactly one outstanding request or is current) is an argument, not solver-checked"},
		Outside: []string{"the ticker and the blockHandler select loop, sockets and goroutines; the network-speed half of the periodic check (bytes received per tick)", "the experimental engine's goroutines and sockets (its headers-batch step IS checked: HarnessExpHeadersBatch - progress is followed by exactly one request carrying the locator and the next checkpoint)", "reorganisation to a more-work chain is C01/C03 (storage) - the engine only has to keep asking", "headers arriving from a peer that is not the sync peer", "map iteration order in startSync is insertion order in the encoder (the choice among equal candidates is by crypto/rand, modelled as arbitrary)"},
		Stubs:   []string{"service.Headers replaced by a stub with an arbitrary tip (height, hash, IsCurrent)", "service.Chains stub returning the stated outcome per header", "real peerpkg.Peer objects marked connected with a no-op connection; queued messages and Disconnect observed through in-package helpers", "crypto/rand.Int returns an arbitrary value in [0, max)", "SyncManager.logSyncState (logging) is a no-op"},
	})
	add(CheckDef{
		ID: "C15", Level: "model_checking",
		Runs: []HRun{
			{Pkg: "internal/zzverif/c15", Func: "HarnessTwoSubmitters", Quick: [][]int64{{1, 1}, {1, 2}}, Thorough: [][]int64{{1, 3}, {2, 1}, {2, 2}},
				Labels: []string{"C15/rows-wellformed", "C15/both-submissions-stored-once", "C15/old-rows-keep-everything-but-state", "C15/one-longest-header-per-height", "C15/store-is-a-sequential-outcome", "C15/one-event-per-stored-header"}},
			{Pkg: "internal/zzverif/c15", Func: "HarnessForkBelowTip", Quick: [][]int64{{2, 1}, {2, 2}}, Thorough: [][]int64{{3, 1}, {2, 3}},
				Labels: []string{"C15/both-submissions-stored-once", "C15/one-longest-header-per-height", "C15/store-is-a-sequential-outcome"}},
			{Pkg: "internal/zzverif/c15", Func: "HarnessTwoBranches", Quick: [][]int64{{3, 1}}, Thorough: [][]int64{{3, 2}},
				Labels: []string{"C15/both-submissions-stored-once", "C15/one-longest-header-per-height", "C15/store-is-a-sequential-outcome"}},
			{Pkg: "internal/zzverif/c15", Func: "HarnessReaderDuringAdd", Quick: [][]int64{{2}, {3}}, Thorough: [][]int64{{3}, {4}},
				Labels: []string{"C15/reader-gets-a-tip", "C15/observed-tip-is-stored", "C15/observed-tip-is-the-highest-longest-chain-header", "C15/observed-longest-chain-is-one-path-from-genesis"}},
			{Pkg: "internal/transports/p2p/peer", Func: "HarnessTwoPeers", Quick: [][]int64{{1, 1}}, Thorough: [][]int64{{1, 2}, {2, 1}},
				Labels: []string{"C15/rows-wellformed", "C15/both-submissions-stored-once", "C15/one-longest-header-per-height", "C15/store-is-a-sequential-outcome", "C15/one-event-per-stored-header"}},
		},
		Bounds:  []string{"two concurrent Add calls with two different new headers (arbitrary parents: stored or not, each other, equal or different) on an arbitrary INV-H store of k rows (quick k=1, thorough k<=2), interleaved in every way at repository-method granularity with at most p preemptions (quick p<=2, thorough p<=3 at k=1, p<=2 at k=2); the schedule is a vector of solver variables; the outcome is compared with both sequential orders run on copies of the same store", "the slice 'one header extends the longest chain, the other a stored stale branch' one row further: k=3, p=1 (quick) / p=2 (thorough)", "the slice 'one header extends the tip, the other forks off a longest-chain header below the tip': k=2, p<=2 (quick) / k=3 (thorough)", "one tip reader at an arbitrary storage-operation boundary of one Add on an arbitrary INV-H store (quick k<=3, thorough k<=4: includes a reorganisation)"},
		Outside: []string{"data-race freedom (a property of unsynchronised memory accesses, not of values: the race detector's job, not expressible as an assertion over this execution)", "free-running goroutine schedules, peers connecting and disconnecting, the shared peers map, notification delivery concurrency", "three or more submitters; preemption inside a repository method (each is one statement or one single-statement transaction)", "submissions of an already stored or forbidden header (sequential behaviour is C01)"},
		Stubs:   []string{"scheduling points (vh.Yield) are placed in front of every repository.Headers method that Add uses by a wrapper in the harness", "sync.Mutex modelled for the two threads (a thread that blocks hands control to the holder)", "hasher returns an arbitrary distinct hash per submitted header", "notifier counts events"},
	})
	add(CheckDef{
		ID: "C18", Level: "model_checking",
		Runs: []HRun{
			{Pkg: "transports/p2p", Func: "HarnessAdmission",
				Labels: []string{"C18/admitted-iff-not-banned-and-below-both-limits", "C18/refused-peer-is-disconnected", "C18/refusal-changes-no-counter", "C18/refused-peer-leaving-changes-no-counter", "C18/never-above-total-limit", "C18/never-above-per-host-limit",
					"C18/admission-counts-host-and-group", "C18/counters-return-when-peer-leaves", "C18/ban-lasts-the-configured-duration", "C18/expired-ban-is-dropped-on-admission", "C18/ban-kept-until-expiry-then-dropped"}},
			{Pkg: "transports/p2p", Func: "HarnessBan",
				Labels: []string{"C18/ban-runs-from-the-latest-ban", "C18/ban-changes-no-counter", "C18/banned-host-is-refused-while-the-ban-runs"}},
			{Pkg: "transports/p2p", Func: "HarnessBanOtherHost",
				Labels: []string{"C18/ban-of-one-host-leaves-running-bans-of-others", "C18/banned-host-is-refused-while-the-ban-runs"}},
			{Pkg: "transports/p2p", Func: "HarnessPeerStateStep", Quick: [][]int64{{0}, {1}, {2}}, Thorough: [][]int64{{3}, {4}},
				Labels: []string{"C18/counters-always-match-the-peer-lists", "C18/never-above-per-host-limit"}},
		},
		Bounds:  []string{"one add / done / ban step of the server's peer handler from an arbitrary peer state around one host: total peers in {0, 1, MaxPeers-1, MaxPeers, MaxPeers+1}, the host's connection counter and the group counter any value < 2^20, ban entry absent or ending any number of seconds (|delta| in 2..100000) before or after now, ban duration 0/1/2 h, server shutting down or not, peer inbound / outbound / persistent", "bookkeeping invariant, inductive step: from every state of k listed peers (quick k<=2, thorough k<=4; each inbound / outbound / persistent, on one of two hosts) whose counters match the lists, one arbitrary event (admission request of a new peer of any kind and, if refused, its done event; a listed peer leaving; a never-admitted peer leaving; a ban) leaves the counters matching the lists - 'counters return to zero when all peers have left' follows by induction over events"},
		Outside: []string{"the connection manager half of the property (outbound target kept, redial after failure): connmgr.connHandler is a select loop over channels and timers, not encodable", "ban boundaries within one second of now (left out so that replays on the real clock are deterministic)", "addrmgr.GroupKey is an uninterpreted function of the address", "per-host limit counts non-persistent peers only (persistent peers are operator-added and deliberately not counted)"},
		Stubs:   []string{"real server / serverPeer / peer.Peer objects without sockets (in-package constructors)", "time.Now arbitrary non-decreasing; the step is assumed to take at most one second"},
	})
	add(CheckDef{
		ID: "C17", Level: "model_checking",
		Runs: []HRun{
			{Pkg: "database", Func: "HarnessRoundTrip", Quick: [][]int64{{1}, {2}, {3}}, Thorough: [][]int64{{3}, {4}},
				Labels: []string{"C17/same-hash-at-same-height", "C17/same-fields", "C17/same-cumulative-work", "C17/all-on-the-longest-chain", "C17/stale-and-orphan-headers-left-out", "C17/import-succeeds", "C17/import-count-reported"}},
			{Pkg: "database", Func: "HarnessBatches", Quick: [][]int64{{2}, {3}}, Thorough: [][]int64{{3}, {4}},
				Labels: []string{"C17/same-hash-at-same-height", "C17/same-cumulative-work", "C17/stale-and-orphan-headers-left-out", "C17/batch-import-succeeds"}},
			{Pkg: "database", Func: "HarnessRealBatches", Quick: [][]int64{{3, 1}, {3, 2}}, Thorough: [][]int64{{4, 1}, {4, 2}, {4, 3}},
				Labels: []string{"C17/import-succeeds", "C17/same-hash-at-same-height", "C17/same-fields", "C17/same-cumulative-work", "C17/stale-and-orphan-headers-left-out"}},
			{Pkg: "database", Func: "HarnessFileRoundTrip", Quick: [][]int64{{2}, {3}}, Thorough: [][]int64{{4}},
				Labels: []string{"C17/export-succeeds", "C17/import-succeeds", "C17/same-hash-at-same-height", "C17/same-fields", "C17/same-cumulative-work", "C17/stale-and-orphan-headers-left-out"}},
			{Pkg: "database", Func: "HarnessCheckpointMismatch", Quick: [][]int64{{1}, {3}}, Thorough: [][]int64{{2}, {4}},
				Labels: []string{"C17/export-succeeds", "C17/checkpoint-mismatch-fails-the-start"}},
			{Pkg: "database", Func: "HarnessExportOverEarlierFile", Quick: [][]int64{{1, 1}, {2, 1}}, Thorough: [][]int64{{2, 2}, {3, 1}},
				Labels: []string{"C17/export-succeeds", "C17/import-succeeds", "C17/same-hash-at-same-height", "C17/same-fields", "C17/same-cumulative-work", "C17/stale-and-orphan-headers-left-out"}},
			{Pkg: "database", Func: "HarnessSecondStart", Quick: [][]int64{{1}, {2}}, Thorough: [][]int64{{3}},
				Labels: []string{"C17/existing-headers-never-overwritten", "C17/start-on-inconsistent-leftover-is-refused"}},
		},
		Bounds:  []string{"export (real selectHeadersSQL, sqlx.Rows scanning, record writing) of an arbitrary INV-H store of k rows (quick k<=3, thorough k<=4) whose longest-chain headers are real headers (hash = block hash of the fields, genesis previous hash zero, work of the bits), followed by the real sqLiteAdapter.importHeaders / insertHeaders / prepareRecord / calculateFields / CreateMultiple into an empty database; every field symbolic (negative versions, maximal nonce, timestamps over the epoch range), difficulty bits of every row from a 2-entry menu", "batch boundaries: the same records imported with batch size 1 through insertHeaders, threading the state like importHeaders does", "second start: importHeaders on an arbitrary non-empty table (k<=3 rows) with an arbitrary newest checkpoint"},
		Outside: []string{"files, gzip, CSV text and quoting (a csv.Writer/Reader/os.File is a list of records)", "PRAGMA changes and index drop/restore have no effect on the relational content", "the production batch size of 500 (a chain longer than one production batch is outside the row bound; the batch-size-1 harness covers the threading between batches)", "malformed rows: only the refusal of an inconsistent table by validateDbConsistency enters (through the second-start harness)", "SHA-256 uninterpreted"},
		Stubs:   []string{"encoding/csv and *os.File as record lists; sqlx.Rows over the sqlm result; sqlite_master index listing from the probed schema"},
	})
	add(CheckDef{
		ID: "C14", Level: "model_checking",
		Runs: []HRun{
			{Pkg: "internal/zzverif/c14", Func: "HarnessRoundTrip", Quick: [][]int64{{0, 0}, {0, 1}, {0, 2}, {1, 0}, {1, 1}, {1, 2}, {2, 0}, {2, 1}, {2, 2}, {3, 0}, {3, 1}, {3, 2}, {4, 0}, {4, 1}, {4, 2}, {5, 0}, {5, 1}, {5, 2}, {6, 0}, {6, 1}, {6, 2}, {7, 0}, {7, 1}, {7, 2}, {8, 0}, {8, 1}, {8, 2}, {9, 0}, {9, 1}, {9, 2}, {10, 0}, {10, 1}, {10, 2}, {11, 0}, {11, 1}, {11, 2}, {12, 0}, {12, 1}, {12, 2}, {13, 0}, {13, 1}, {13, 2}, {14, 0}, {14, 1}, {14, 2}, {15, 0}, {15, 1}, {15, 2}}, Thorough: [][]int64{{0, 0}, {0, 1}, {0, 2}, {0, 3}, {0, 4}, {1, 0}, {1, 1}, {1, 2}, {1, 3}, {1, 4}, {2, 0}, {2, 1}, {2, 2}, {2, 3}, {2, 4}, {3, 0}, {3, 1}, {3, 2}, {3, 3}, {3, 4}, {4, 0}, {4, 1}, {4, 2}, {4, 3}, {4, 4}, {5, 0}, {5, 1}, {5, 2}, {5, 3}, {5, 4}, {6, 0}, {6, 1}, {6, 2}, {6, 3}, {6, 4}, {7, 0}, {7, 1}, {7, 2}, {7, 3}, {7, 4}, {8, 0}, {8, 1}, {8, 2}, {8, 3}, {8, 4}, {9, 0}, {9, 1}, {9, 2}, {9, 3}, {9, 4}, {10, 0}, {10, 1}, {10, 2}, {10, 3}, {10, 4}, {11, 0}, {11, 1}, {11, 2}, {11, 3}, {11, 4}, {12, 0}, {12, 1}, {12, 2}, {12, 3}, {12, 4}, {13, 0}, {13, 1}, {13, 2}, {13, 3}, {13, 4}, {14, 0}, {14, 1}, {14, 2}, {14, 3}, {14, 4}, {15, 0}, {15, 1}, {15, 2}, {15, 3}, {15, 4}},
				Labels: []string{"C14/encoded-message-decodes", "C14/decode-encode-is-identity-on-messages", "C14/reencoding-reproduces-the-bytes"}},
			{Pkg: "internal/zzverif/c14", Func: "HarnessLargeLists", Quick: [][]int64{{0, 1001}, {1, 1001}, {2, 1001}, {3, 2000}, {3, 2001}, {4, 500}, {4, 501}, {5, 1000}, {5, 1001}}, Thorough: [][]int64{{0, 50000}, {0, 50001}, {1, 50000}, {2, 50000}, {3, 1999}, {5, 999}},
				Labels: []string{"C14/list-beyond-the-limit-is-refused-when-built"}},
			{Pkg: "internal/wire", Func: "HarnessVarInt", Labels: []string{"C14/varint-round-trip", "C14/only-canonical-varints-accepted", "C14/varint-size"}},
			{Pkg: "internal/wire", Func: "HarnessFraming", Quick: [][]int64{{4}}, Thorough: [][]int64{{4}, {8}},
				Labels: []string{"C14/accepted-frame-has-our-magic", "C14/accepted-frame-has-known-command", "C14/accepted-frame-length-within-limits", "C14/accepted-frame-checksum-matches", "C14/wrong-magic-rejected", "C14/unknown-command-rejected", "C14/oversize-length-rejected", "C14/frame-allocations-bounded"}},
			{Pkg: "internal/wire", Func: "HarnessCommandField",
				Labels: []string{"C14/accepted-command-field-is-a-known-name-with-nul-padding", "C14/accepted-frame-has-known-command"}},
			{Pkg: "internal/wire", Func: "HarnessDecode", Unwind: 200, Quick: [][]int64{{0, 12}, {1, 12}, {2, 12}, {3, 12}, {4, 12}, {5, 12}, {6, 12}, {7, 12}, {8, 12}, {9, 12}, {10, 12}, {11, 12}, {12, 12}, {13, 12}, {14, 12}, {15, 12}, {16, 12}, {17, 12}, {18, 12}, {19, 12}, {20, 12}, {21, 12}, {28, 12}, {29, 12}}, Thorough: [][]int64{{0, 12}, {0, 28}, {0, 40}, {1, 12}, {1, 28}, {1, 40}, {2, 12}, {2, 28}, {2, 40}, {3, 12}, {3, 28}, {3, 40}, {4, 12}, {4, 28}, {4, 40}, {5, 12}, {5, 28}, {5, 40}, {6, 12}, {6, 28}, {6, 40}, {7, 12}, {7, 28}, {7, 40}, {8, 12}, {8, 28}, {8, 40}, {9, 12}, {10, 12}, {10, 28}, {10, 40}, {11, 12}, {11, 28}, {11, 40}, {12, 12}, {12, 28}, {12, 40}, {13, 12}, {13, 28}, {13, 40}, {14, 12}, {14, 28}, {14, 40}, {15, 12}, {15, 28}, {15, 40}, {16, 12}, {16, 28}, {16, 40}, {17, 12}, {17, 28}, {17, 40}, {18, 12}, {18, 28}, {18, 40}, {19, 12}, {19, 28}, {19, 40}, {20, 12}, {20, 28}, {20, 40}, {21, 12}, {21, 28}, {21, 40}, {28, 12}, {28, 28}, {28, 40}, {29, 12}, {29, 28}, {29, 40}},
				Labels: []string{"C14/decoder-allocations-bounded-by-payload-limit", "C14/command-table-complete"}},
		},
		Bounds:  []string{"round trip: each of the 16 message kinds with every field symbolic, list sizes / string lengths n (quick n<=2, thorough n<=4), IPv4 addresses in Go's 4-byte and 16-byte forms and nil, on 8 protocol versions (each class of the codec's version tests and its boundaries)", "varint: all 2^64 values; all 9-byte inputs", "list-carrying messages (inv, getdata, notfound, headers, getheaders locator, addr) at realistic sizes: 1001 elements and the protocol limit of the kind (thorough: 50000 inv vectors), first and last element arbitrary, the rest concrete - exact round trip up to the limit, refusal of one element more", "command field: 12 arbitrary ASCII bytes (below 0x80) with our magic, empty payload and its checksum: accepted only if exactly a known command name followed by NUL padding (compact-filter names excluded)", "framing: arbitrary magic, length, checksum (the right one or any wrong one); command in {ping, headers, verack (empty payload), unknown}; n payload bytes (quick 4, thorough 8); lengths either within the supplied bytes or above the global maximum", "decoders: every command of the table except the six compact-filter ones, arbitrary payloads of 12 (quick) / up to 40 (thorough) bytes (tx: 12 bytes in both tiers - its decoder does not finish within 5 minutes on 20 bytes), 4 protocol versions"},
		Outside: []string{"SHA-256 (uninterpreted: the checksum that is compared is the hash of the payload that was read)", "the compact-filter messages getcfilters/getcfheaders/getcfcheckpt/cfilter/cfheaders/cfcheckpt (their decoders go through encoding/binary's reflection path; not among the kinds the statement lists)", "frames whose length lies between the supplied bytes and the global maximum with a wrong magic/command (discardInput then loops length/10240 times over a dead reader: long but finite)", "payloads longer than the bound: a count guard that is missing is already visible with a 9-byte payload, since the allocation is made before the elements are read", "natively 'allocation' is the total allocated since the start of the decode (an upper bound of the largest single allocation the executor tracks)"},
		Stubs:   []string{"bytes, io, encoding/binary, unicode/utf8 executed from source", "net.IP To4/To16/Equal modelled on byte vectors", "an allocation larger than the harness's allocation view is represented by its first view+1 elements"},
	})
	return m
}
