package main

func checkCmd(args []string) int { return 2 }
