package main

import (
	"bufio"
	"encoding/json"
	"flag"
	"fmt"
	"os"
	"os/exec"
	"path/filepath"
	"regexp"
	"sort"
	"strconv"
	"strings"
	"time"

	"bhsverif/symex"
)

// HRun is one harness entry point with its per-tier argument vectors.
type HRun struct {
	Pkg      string // package path suffix below the module
	Func     string
	Quick    [][]int64
	Thorough [][]int64
	Labels   []string // assertion labels that must be evaluated at least once
	Unwind   int
	Solver   string
	Witness  int // path witnesses replayed natively per run (0: 6 quick / 24 thorough)
}

type CheckDef struct {
	ID          string
	Level       string
	Runs        []HRun
	Bounds      []string
	Outside     []string
	Stubs       []string
	TrustedBase []string
}

type KnownFinding struct {
	Property string `json:"property"`
	ID       string `json:"id"`
	Assert   string `json:"assert"`
	Class    string `json:"class"`
	What     string `json:"what"`
	Fixed    bool   `json:"fixed,omitempty"`
	Commit   string `json:"commit,omitempty"`
}

type replayEntry struct {
	Harness string              `json:"harness"`
	Label   string              `json:"label"`
	Args    []int64             `json:"args"`
	Values  []symex.NondetValue `json:"values"`
	Pkg     string              `json:"pkg"`
	Known   string              `json:"known,omitempty"`
	Obs     []symex.Observation `json:"observations,omitempty"`
	Panic   string              `json:"panic,omitempty"`
}

type replaySet struct {
	Entries []replayEntry `json:"entries"`
}

const verifDir = "/verif"

func loadKnown() []KnownFinding {
	var ks []KnownFinding
	b, err := os.ReadFile(filepath.Join(verifDir, "known_findings.json"))
	if err != nil {
		return nil
	}
	if err := json.Unmarshal(b, &ks); err != nil {
		fmt.Fprintln(os.Stderr, "known_findings.json:", err)
		os.Exit(2)
	}
	return ks
}

func checkCmd(args []string) int {
	fs := flag.NewFlagSet("check", flag.ExitOnError)
	repo := fs.String("repo", "/repo", "repository working tree")
	harness := fs.String("harness", filepath.Join(verifDir, "harness"), "harness dir")
	tier := fs.String("tier", os.Getenv("VERIF_TIER"), "quick|thorough")
	workers := fs.Int("j", 14, "workers")
	noEvidence := fs.Bool("no-evidence", false, "do not write evidence (scratch trials)")
	only := fs.String("only", "", "run only the harness function with this name")
	forceSolver := fs.String("solver", "", "use this solver (cvc5, z3, z3-new) for every run instead of the registered one (cross-checking)")
	workName := fs.String("work", "work", "name of the scratch directory under /verif (separate concurrent runs of one property)")
	fs.Parse(args[1:])
	id := args[0]
	if *tier == "" {
		*tier = "quick"
	}
	seed, _ := strconv.ParseInt(os.Getenv("VERIF_SEED"), 10, 64)
	def, ok := checks()[id]
	if !ok {
		fmt.Fprintf(os.Stderr, "no check for %s\n", id)
		return 2
	}
	t0 := time.Now()
	P, err := symex.Load(*repo, *harness)
	if err != nil {
		fmt.Printf("INCONCLUSIVE property=%s reason=load-failed\n%v\n", id, err)
		writeFailEvidence(id, *tier, seed, def, "load failed: "+err.Error(), time.Since(t0), *noEvidence)
		return 2
	}
	loadS := time.Since(t0).Seconds()
	nativeSkipOptional = P.DroppedOptional != ""
	if P.DroppedOptional != "" {
		fmt.Printf("NOTE optional harness files dropped (they no longer compile against the working tree): %s\n", strings.SplitN(P.DroppedOptional, "\n", 3)[1])
	}
	known := loadKnown()
	for _, k := range known {
		if k.Property == id && !k.Fixed {
			P.Known[k.Assert] = append(P.Known[k.Assert], k.Class)
		}
	}
	if *tier == "thorough" {
		P.TimeoutMs = 120000
	}

	var reps []*symex.Report
	var inconclusive []string
	var entries []replayEntry   // counterexamples
	var witnesses []replayEntry // path witnesses for native validation
	for _, r := range def.Runs {
		if *only != "" && r.Func != *only {
			continue
		}
		argsets := r.Quick
		if *tier == "thorough" && r.Thorough != nil {
			argsets = r.Thorough
		}
		if *tier != "thorough" && r.Quick == nil && r.Thorough != nil {
			continue // a run registered for the thorough tier only
		}
		if argsets == nil {
			argsets = [][]int64{nil}
		}
		fn := P.Func(symex.RepoModule+"/"+r.Pkg, r.Func)
		if fn == nil {
			inconclusive = append(inconclusive, "missing harness "+r.Pkg+"."+r.Func)
			continue
		}
		reachedByRun := map[string]bool{}
		for _, as := range argsets {
			P.Unwind = 64
			if r.Unwind > 0 {
				P.Unwind = r.Unwind
			}
			P.Solver = "cvc5"
			if r.Solver != "" {
				P.Solver = r.Solver
			}
			if *forceSolver != "" {
				P.Solver = *forceSolver
			}
			nw := 6
			if *tier == "thorough" {
				nw = 24
			}
			if r.Witness > 0 {
				nw = r.Witness
			}
			ex := &symex.Explorer{P: P, Name: fmt.Sprintf("%s.%s%v", filepath.Base(r.Pkg), r.Func, as), Entry: fn, IntArgs: as, Workers: *workers, Witness: nw}
			rep := ex.Run()
			reps = append(reps, rep)
			fmt.Printf("  %s: paths=%d completed=%d queries=%d solver=%.1fs wall=%.1fs\n", rep.Harness, rep.Paths, rep.Completed, rep.Queries, float64(rep.SolverNs)/1e9, float64(rep.WallNs)/1e9)
			for u, n := range rep.Unsupported {
				inconclusive = append(inconclusive, fmt.Sprintf("%s: UNSUPPORTED x%d: %s", rep.Harness, n, u))
			}
			for _, e := range rep.SolverErrors {
				inconclusive = append(inconclusive, rep.Harness+": solver error: "+e)
			}
			for l, st := range rep.Labels {
				if st.Unknown > 0 {
					inconclusive = append(inconclusive, fmt.Sprintf("%s: solver unknown on %s x%d", rep.Harness, l, st.Unknown))
				}
			}
			if rep.FeasUnknown > 0 {
				inconclusive = append(inconclusive, fmt.Sprintf("%s: %d paths with unknown feasibility checks", rep.Harness, rep.FeasUnknown))
			}
			if rep.Completed == 0 {
				inconclusive = append(inconclusive, rep.Harness+": VACUOUS no path completed")
			}
			for l, st := range rep.Labels {
				if st.Reached > 0 {
					reachedByRun[l] = true
				}
			}
			seen := map[string]int{}
			for _, v := range rep.Violations {
				k := v.Label + "|" + v.Known
				if seen[k] >= 2 {
					continue
				}
				seen[k]++
				entries = append(entries, replayEntry{Harness: r.Func, Pkg: r.Pkg, Label: v.Label, Args: as, Values: v.Values, Known: v.Known, Panic: v.PanicMsg})
			}
			for _, w := range rep.Witnesses {
				witnesses = append(witnesses, replayEntry{Harness: r.Func, Pkg: r.Pkg, Args: as, Values: w.Values, Obs: w.Observations})
			}
		}
		for _, l := range r.Labels {
			if !reachedByRun[l] {
				inconclusive = append(inconclusive, fmt.Sprintf("%s.%s: VACUOUS label %s never evaluated", filepath.Base(r.Pkg), r.Func, l))
			}
		}
	}

	// ---- native validation of path witnesses (encoder validation) and replay of counterexamples
	validated, mismatches := 0, []string{}
	if len(witnesses) > 0 {
		res, err := runNative(*repo, *harness, witnesses, filepath.Join(verifDir, *workName, id+"-witness.json"))
		if err != nil {
			inconclusive = append(inconclusive, "native witness run failed: "+err.Error())
		} else {
			for i, w := range witnesses {
				r := res[i]
				okk := r.status == "CLEAN"
				if len(r.obs) != len(w.Obs) {
					okk = false
					r.detail += fmt.Sprintf(" %d native observations vs %d symbolic", len(r.obs), len(w.Obs))
				} else {
					for oi, o := range w.Obs {
						if r.obs[oi][0] != o.Name || r.obs[oi][1] != o.Val {
							okk = false
							r.detail += fmt.Sprintf(" obs #%d %s: native=%s=%q symbolic=%q", oi, o.Name, r.obs[oi][0], r.obs[oi][1], o.Val)
						}
					}
				}
				if okk {
					validated++
				} else {
					mismatches = append(mismatches, fmt.Sprintf("%s%v: native %s %s values=%v", w.Harness, w.Args, r.status, r.detail, w.Values))
				}
			}
		}
	}
	for _, m := range mismatches {
		inconclusive = append(inconclusive, "ENCODING-MISMATCH (witness): "+m)
	}

	violations := 0
	var outLines []string
	knownSeen := map[string]bool{}
	if len(entries) > 0 {
		os.MkdirAll(filepath.Join(verifDir, "replays"), 0o755)
		res, err := runNative(*repo, *harness, entries, filepath.Join(verifDir, *workName, id+"-cex.json"))
		if err != nil {
			inconclusive = append(inconclusive, "native replay run failed: "+err.Error())
		} else {
			n := 0
			for i, e := range entries {
				r := res[i]
				reproduced := false
				if e.Label == "no-panic" {
					reproduced = r.status == "PANIC"
				} else {
					reproduced = (r.status == "VIOLATED" || r.status == "PANIC") && strings.Contains(r.detail, e.Label)
				}
				if !reproduced {
					inconclusive = append(inconclusive, fmt.Sprintf("ENCODING-MISMATCH: counterexample for %s in %s%v did not reproduce natively (%s %s) values=%v", e.Label, e.Harness, e.Args, r.status, r.detail, e.Values))
					continue
				}
				if e.Known != "" {
					for _, k := range known {
						if k.Property == id && k.Class == e.Known && k.Assert == e.Label && !knownSeen[k.ID] {
							knownSeen[k.ID] = true
							outLines = append(outLines, fmt.Sprintf("KNOWN-FINDING: property=%s %s", id, k.What))
						}
					}
					continue
				}
				n++
				path := filepath.Join(verifDir, "replays", fmt.Sprintf("%s-%d.json", id, n))
				b, _ := json.MarshalIndent(replaySet{Entries: []replayEntry{e}}, "", " ")
				os.WriteFile(path, b, 0o644)
				violations++
				outLines = append(outLines, fmt.Sprintf("VIOLATION property=%s replay=%s", id, path))
				outLines = append(outLines, fmt.Sprintf("  assertion %s in %s%v: native %s %s", e.Label, e.Harness, e.Args, r.status, r.detail))
			}
		}
	}

	wall := time.Since(t0)
	if !*noEvidence {
		writeEvidence(id, *tier, seed, def, reps, validated, len(witnesses), violations, inconclusive, knownSeen, wall, loadS)
	}
	for _, l := range outLines {
		fmt.Println(l)
	}
	if violations > 0 {
		return 1
	}
	if len(inconclusive) > 0 {
		sort.Strings(inconclusive)
		for i, s := range inconclusive {
			if i > 20 {
				fmt.Printf("  ... %d more\n", len(inconclusive)-i)
				break
			}
			fmt.Printf("INCONCLUSIVE property=%s reason=%s\n", id, s)
		}
		return 2
	}
	tot, proved := 0, 0
	for _, r := range reps {
		for l, st := range r.Labels {
			if strings.HasPrefix(l, "reach:") {
				continue
			}
			tot += st.Reached
			proved += st.Proved
		}
	}
	fmt.Printf("OK property=%s tier=%s obligations=%d discharged=%d witnesses_validated=%d/%d wall=%.1fs\n", id, *tier, tot, proved, validated, len(witnesses), wall.Seconds())
	return 0
}

type nativeResult struct {
	status string
	detail string
	obs    [][2]string
}

var resRe = regexp.MustCompile(`^REPLAY-RESULT (\d+) (\S+) ?(.*)$`)
var obsRe = regexp.MustCompile(`^REPLAY-OBS (\d+) ([^=]+)=(.*)$`)

// nativeSkipOptional mirrors Program.DroppedOptional for the native builds of this run.
var nativeSkipOptional bool

// runNative compiles the harness packages natively (go test -overlay) and runs the entries.
func runNative(repo, harnessDir string, entries []replayEntry, file string) ([]nativeResult, error) {
	os.MkdirAll(filepath.Dir(file), 0o755)
	out := make([]nativeResult, len(entries))
	for i := range out {
		out[i] = nativeResult{status: "NOTRUN"}
	}
	byPkg := map[string][]int{}
	for i, e := range entries {
		byPkg[e.Pkg] = append(byPkg[e.Pkg], i)
	}
	ovFile, err := writeNativeOverlay(repo, harnessDir, filepath.Dir(file), nativeSkipOptional)
	if err != nil {
		return nil, err
	}
	for pkg, idx := range byPkg {
		var set replaySet
		for _, i := range idx {
			set.Entries = append(set.Entries, entries[i])
		}
		b, _ := json.Marshal(set)
		f := strings.TrimSuffix(file, ".json") + "-" + strings.ReplaceAll(pkg, "/", "_") + ".json"
		if err := os.WriteFile(f, b, 0o644); err != nil {
			return nil, err
		}
		bin := strings.TrimSuffix(f, ".json") + ".test"
		bcmd := exec.Command("go", "test", "-c", "-vet=off", "-overlay", ovFile, "-o", bin, "./"+pkg)
		bcmd.Dir = repo
		bcmd.Env = append(os.Environ(), "GOFLAGS=-mod=mod", "GOPROXY=off")
		if bo, berr := bcmd.CombinedOutput(); berr != nil {
			tail := string(bo)
			if len(tail) > 3000 {
				tail = tail[len(tail)-3000:]
			}
			return out, fmt.Errorf("native build of %s failed: %v\n%s", pkg, berr, tail)
		}
		cmd := exec.Command(bin, "-test.run", "^TestZZReplay$", "-test.v", "-test.timeout", "20m")
		cmd.Dir = repo
		if st, serr := os.Stat(filepath.Join(repo, pkg)); serr == nil && st.IsDir() {
			cmd.Dir = filepath.Join(repo, pkg)
		}
		cmd.Env = append(os.Environ(), "VH_REPLAY="+f, "VH_REPO="+repo)
		ob, err := cmd.CombinedOutput()
		os.Remove(bin)
		sc := bufio.NewScanner(strings.NewReader(string(ob)))
		sc.Buffer(make([]byte, 1<<20), 1<<24)
		got := 0
		for sc.Scan() {
			line := sc.Text()
			if m := resRe.FindStringSubmatch(line); m != nil {
				k, _ := strconv.Atoi(m[1])
				if k < len(idx) {
					out[idx[k]].status = m[2]
					out[idx[k]].detail = m[3]
					got++
				}
			} else if m := obsRe.FindStringSubmatch(line); m != nil {
				k, _ := strconv.Atoi(m[1])
				if k < len(idx) {
					out[idx[k]].obs = append(out[idx[k]].obs, [2]string{m[2], m[3]})
				}
			}
		}
		if got < len(idx) {
			tail := string(ob)
			if len(tail) > 3000 {
				tail = tail[len(tail)-3000:]
			}
			return out, fmt.Errorf("native run of %s produced %d/%d results (err=%v):\n%s", pkg, got, len(idx), err, tail)
		}
	}
	return out, nil
}

// writeNativeOverlay maps every harness file (incl. native-only ones) plus a generated
// replay test per harness package into the repository tree.
func writeNativeOverlay(repo, harnessDir, workDir string, skipOptional bool) (string, error) {
	repl := map[string]string{}
	pkgDirs := map[string]string{} // virtual dir -> package name
	err := filepath.Walk(harnessDir, func(p string, info os.FileInfo, err error) error {
		if err != nil || info.IsDir() || !strings.HasSuffix(p, ".go") {
			return err
		}
		rel, _ := filepath.Rel(harnessDir, p)
		if skipOptional {
			if b, err := os.ReadFile(p); err == nil && symex.IsOptionalHarness(b) {
				return nil
			}
		}
		var virt string
		if strings.HasPrefix(rel, "_inpkg/") {
			sub := strings.TrimPrefix(rel, "_inpkg/")
			dir, file := filepath.Split(sub)
			virt = filepath.Join(repo, dir, "zz_"+file)
		} else {
			virt = filepath.Join(repo, "internal/zzverif", rel)
		}
		repl[virt] = p
		if filepath.Base(p) == "registry.go" {
			b, _ := os.ReadFile(p)
			m := regexp.MustCompile(`(?m)^package (\w+)`).FindSubmatch(b)
			if m != nil {
				pkgDirs[filepath.Dir(virt)] = string(m[1])
			}
		}
		return nil
	})
	if err != nil {
		return "", err
	}
	for dir, name := range pkgDirs {
		src := fmt.Sprintf("package %s\n\nimport (\n\t\"testing\"\n\n\t\"%s/internal/zzverif/vh\"\n)\n\nfunc TestZZReplay(t *testing.T) { vh.RunReplay(Registry) }\n", name, symex.RepoModule)
		real := filepath.Join(workDir, "replaytest_"+strings.ReplaceAll(strings.TrimPrefix(dir, repo+"/"), "/", "_")+".go")
		if err := os.WriteFile(real, []byte(src), 0o644); err != nil {
			return "", err
		}
		repl[filepath.Join(dir, "zz_replay_test.go")] = real
	}
	i := 0
	for virt, content := range symex.Rewrites(repo) {
		real := filepath.Join(workDir, fmt.Sprintf("rewrite_%d.go", i))
		i++
		if err := os.WriteFile(real, content, 0o644); err != nil {
			return "", err
		}
		repl[virt] = real
	}
	b, _ := json.MarshalIndent(map[string]interface{}{"Replace": repl}, "", " ")
	f := filepath.Join(workDir, "overlay.json")
	return f, os.WriteFile(f, b, 0o644)
}

// ---------------------------------------------------------------- evidence

func writeFailEvidence(id, tier string, seed int64, def CheckDef, why string, wall time.Duration, skip bool) {
	if skip {
		return
	}
	ev := map[string]interface{}{
		"property_id": id, "tier": tier, "seed": seed, "level": "other",
		"coverage":   map[string]interface{}{"explanation": "check could not run: " + why, "evaluations": 0, "distinct_nontrivial": 0},
		"wall_s":     wall.Seconds(),
		"violations": 0,
	}
	b, _ := json.MarshalIndent(ev, "", " ")
	os.MkdirAll(filepath.Join(verifDir, "evidence"), 0o755)
	os.WriteFile(filepath.Join(verifDir, "evidence", id+".json"), b, 0o644)
}

func solverVersions() map[string]string {
	out := map[string]string{}
	for _, s := range [][]string{{"z3", "--version"}, {"z3-new", "--version"}, {"cvc5", "--version"}} {
		b, err := exec.Command(s[0], s[1:]...).Output()
		if err == nil {
			out[s[0]] = strings.SplitN(strings.TrimSpace(string(b)), "\n", 2)[0]
		}
	}
	return out
}

func writeEvidence(id, tier string, seed int64, def CheckDef, reps []*symex.Report, validated, nwit, violations int, inconclusive []string, knownSeen map[string]bool, wall time.Duration, loadS float64) {
	paths, decisions, queries := 0, 0, 0
	var solverNs int64
	obligations, discharged, trivial := 0, 0, 0
	funcs := map[string]bool{}
	sqls := map[string]bool{}
	assumptions := map[string]bool{}
	var samples []interface{}
	perHarness := []interface{}{}
	for _, r := range reps {
		paths += r.Paths
		decisions += r.Decisions
		queries += r.Queries
		solverNs += r.SolverNs
		labels := map[string]interface{}{}
		for l, st := range r.Labels {
			labels[l] = map[string]int{"reached": st.Reached, "proved": st.Proved, "violated": st.Violated, "unknown": st.Unknown, "by_simplifier": st.Trivial}
			if strings.HasPrefix(l, "reach:") {
				continue
			}
			obligations += st.Reached
			discharged += st.Proved
			trivial += st.Trivial
		}
		for f := range r.Funcs {
			if strings.Contains(f, "zzverif/vh") {
				continue
			}
			funcs[f] = true
		}
		for s := range r.SQL {
			sqls[s] = true
		}
		for a := range r.Assumptions {
			assumptions[a] = true
		}
		for i, s := range r.Samples {
			if i < 2 {
				samples = append(samples, r.Harness+": "+s)
			}
		}
		for i, w := range r.Witnesses {
			if i < 1 {
				samples = append(samples, map[string]interface{}{"harness": r.Harness, "path_witness_inputs": w.Values, "observations": w.Observations, "obligations_on_path": w.Labels})
			}
		}
		perHarness = append(perHarness, map[string]interface{}{"harness": r.Harness, "paths": r.Paths, "completed": r.Completed, "ended_infeasible": r.Ended,
			"decisions": r.Decisions, "queries": r.Queries, "solver_s": float64(r.SolverNs) / 1e9, "wall_s": float64(r.WallNs) / 1e9, "labels": labels, "max_path_condition": r.MaxPC})
	}
	var fl []string
	for f := range funcs {
		fl = append(fl, f)
	}
	sort.Strings(fl)
	var sl []string
	for s := range sqls {
		sl = append(sl, s)
	}
	sort.Strings(sl)
	as := append([]string{}, def.Stubs...)
	for a := range assumptions {
		as = append(as, a)
	}
	sort.Strings(as)
	if paths == 0 {
		paths = 1
	}
	if decisions == 0 {
		decisions = 1
	}
	if len(samples) == 0 {
		samples = append(samples, "no path completed")
	}
	cov := map[string]interface{}{
		"states":                        paths,
		"transitions":                   decisions,
		"traces_validated_against_impl": validated,
		"path_witnesses_attempted":      nwit,
		"samples":                       samples,
		"obligations":                   obligations,
		"discharged":                    discharged,
		"discharged_by_simplifier":      trivial,
		"checker_cmd":                   fmt.Sprintf("bin/bhsverif check %s --tier %s", id, tier),
		"trusted_base":                  def.TrustedBase,
		"functions_encoded":             fl,
		"sql_statements_encoded":        sl,
		"bounds":                        def.Bounds,
		"outside_bound":                 def.Outside,
		"queries":                       queries,
		"solver_s":                      float64(solverNs) / 1e9,
		"load_s":                        loadS,
		"solver_versions":               solverVersions(),
		"per_harness":                   perHarness,
		"inconclusive":                  inconclusive,
		"explanation":                   "states = feasible paths of the real code explored symbolically (SSA of /repo's working tree); transitions = branch decisions; obligations = path x assertion queries; discharged = unsat verdicts (by_simplifier: folded to true before reaching the solver); traces_validated_against_impl = solver models of completed paths replayed against the natively compiled code with identical observations",
	}
	var kf []string
	for k := range knownSeen {
		kf = append(kf, k)
	}
	sort.Strings(kf)
	cov["known_findings_seen"] = kf
	level := def.Level
	if level == "proof" && (discharged != obligations || len(inconclusive) > 0) {
		level = "model_checking"
	}
	ev := map[string]interface{}{
		"property_id": id, "tier": tier, "seed": seed, "level": level,
		"coverage":    cov,
		"assumptions": as,
		"wall_s":      wall.Seconds(),
		"violations":  violations,
	}
	b, _ := json.MarshalIndent(ev, "", " ")
	os.MkdirAll(filepath.Join(verifDir, "evidence"), 0o755)
	os.WriteFile(filepath.Join(verifDir, "evidence", id+".json"), b, 0o644)
}
