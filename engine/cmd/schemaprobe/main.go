// schemaprobe asks the real SQLite (the go-sqlite3 the repository links) for the schema that
// the working tree's migrations produce and for the query plan of each statement given.
package main

import (
	"database/sql"
	"encoding/json"
	"fmt"
	"os"
	"path/filepath"
	"sort"
	"strconv"
	"strings"

	_ "github.com/mattn/go-sqlite3"
)

type Col struct {
	Name    string `json:"name"`
	Type    string `json:"type"`
	NotNull bool   `json:"notnull"`
	Dflt    string `json:"dflt"`
	HasDflt bool   `json:"has_dflt"`
	PK      int    `json:"pk"`
}
type Index struct {
	Name   string   `json:"name"`
	Unique bool     `json:"unique"`
	Origin string   `json:"origin"`
	Cols   []string `json:"cols"`
}
type Table struct {
	Cols    []Col   `json:"cols"`
	Indexes []Index `json:"indexes"`
}
type In struct {
	MigrationsDir string   `json:"migrations_dir"`
	Statements    []string `json:"statements"`
}
type Out struct {
	Version string              `json:"sqlite_version"`
	Tables  map[string]Table    `json:"tables"`
	Plans   map[string][]string `json:"plans"`
	Errors  map[string]string   `json:"errors"`
}

func countParams(s string) int {
	n := 0
	inq := false
	named := map[string]bool{}
	for i := 0; i < len(s); i++ {
		c := s[i]
		if c == '\'' {
			inq = !inq
			continue
		}
		if inq {
			continue
		}
		if c == '?' {
			n++
		}
		if c == '$' || c == ':' {
			j := i + 1
			for j < len(s) && (s[j] == '_' || s[j] >= '0' && s[j] <= '9' || s[j] >= 'a' && s[j] <= 'z' || s[j] >= 'A' && s[j] <= 'Z') {
				j++
			}
			if j > i+1 {
				if !named[s[i:j]] {
					named[s[i:j]] = true
					n++
				}
				i = j - 1
			}
		}
	}
	return n
}

func main() {
	var in In
	if err := json.NewDecoder(os.Stdin).Decode(&in); err != nil {
		fmt.Fprintln(os.Stderr, err)
		os.Exit(2)
	}
	db, err := sql.Open("sqlite3", ":memory:")
	if err != nil {
		fmt.Fprintln(os.Stderr, err)
		os.Exit(2)
	}
	db.SetMaxOpenConns(1)
	files, _ := filepath.Glob(filepath.Join(in.MigrationsDir, "*.up.sql"))
	sort.Slice(files, func(i, j int) bool {
		a, _ := strconv.Atoi(strings.SplitN(filepath.Base(files[i]), "_", 2)[0])
		b, _ := strconv.Atoi(strings.SplitN(filepath.Base(files[j]), "_", 2)[0])
		return a < b
	})
	for _, f := range files {
		b, err := os.ReadFile(f)
		if err != nil {
			fmt.Fprintln(os.Stderr, err)
			os.Exit(2)
		}
		if _, err := db.Exec(string(b)); err != nil {
			fmt.Fprintf(os.Stderr, "migration %s: %v\n", f, err)
			os.Exit(2)
		}
	}
	out := Out{Tables: map[string]Table{}, Plans: map[string][]string{}, Errors: map[string]string{}}
	db.QueryRow("select sqlite_version()").Scan(&out.Version)
	rows, err := db.Query("select name from sqlite_master where type='table' and name not like 'sqlite_%'")
	if err != nil {
		fmt.Fprintln(os.Stderr, err)
		os.Exit(2)
	}
	var names []string
	for rows.Next() {
		var n string
		rows.Scan(&n)
		names = append(names, n)
	}
	rows.Close()
	for _, n := range names {
		var t Table
		r, _ := db.Query("select name, type, \"notnull\", dflt_value, pk from pragma_table_info('" + n + "')")
		for r.Next() {
			var c Col
			var d sql.NullString
			var nn int
			r.Scan(&c.Name, &c.Type, &nn, &d, &c.PK)
			c.NotNull = nn != 0
			c.Dflt, c.HasDflt = d.String, d.Valid
			t.Cols = append(t.Cols, c)
		}
		r.Close()
		r, _ = db.Query("select name, \"unique\", origin from pragma_index_list('" + n + "')")
		var idx []Index
		for r.Next() {
			var ix Index
			var u int
			r.Scan(&ix.Name, &u, &ix.Origin)
			ix.Unique = u != 0
			idx = append(idx, ix)
		}
		r.Close()
		for i := range idx {
			r, _ = db.Query("select name from pragma_index_info('" + idx[i].Name + "') order by seqno")
			for r.Next() {
				var cn sql.NullString
				r.Scan(&cn)
				idx[i].Cols = append(idx[i].Cols, cn.String)
			}
			r.Close()
		}
		t.Indexes = idx
		out.Tables[n] = t
	}
	for _, s := range in.Statements {
		n := countParams(s)
		args := make([]interface{}, n)
		for i := range args {
			args[i] = "x"
		}
		r, err := db.Query("EXPLAIN QUERY PLAN "+s, args...)
		if err != nil {
			out.Errors[s] = err.Error()
			continue
		}
		var lines []string
		for r.Next() {
			var id, parent, notused int
			var detail string
			r.Scan(&id, &parent, &notused, &detail)
			lines = append(lines, fmt.Sprintf("%d|%d|%s", id, parent, detail))
		}
		r.Close()
		out.Plans[s] = lines
	}
	json.NewEncoder(os.Stdout).Encode(out)
}
