package symex

import (
	"fmt"
	"go/constant"
	"go/token"
	"go/types"
	"math/big"
	"strings"
	"unicode/utf8"

	"bhsverif/smt"

	"golang.org/x/tools/go/ssa"
)

type internalAbort struct{ msg string }

func constantBool(c *ssa.Const) bool     { return constant.BoolVal(c.Value) }
func constantString(c *ssa.Const) string { return constant.StringVal(c.Value) }

func basicOf(t types.Type) *types.Basic {
	b, _ := t.Underlying().(*types.Basic)
	if b != nil && b.Info()&types.IsUntyped != 0 {
		b = types.Default(b).(*types.Basic)
	}
	return b
}

func isSigned(t types.Type) bool {
	b := basicOf(t)
	if b == nil {
		return false
	}
	_, s, _ := intWidth(b)
	return s
}

func (in *Interp) unop(fr *frame, instr *ssa.UnOp, x value) value {
	c := in.C
	switch instr.Op {
	case token.ARROW:
		ch := x.(*chanVal)
		v, ok := in.chanRecv(ch, instr.X.Type().Underlying().(*types.Chan).Elem())
		if instr.CommaOk {
			return tuple{v, c.BoolConst(ok)}
		}
		return v
	case token.SUB:
		switch x := x.(type) {
		case *smt.Term:
			return c.BVNeg(x)
		case float64:
			return -x
		}
	case token.MUL:
		return in.load(deref(instr.X.Type()), x.(*value))
	case token.NOT:
		return c.Not(x.(*smt.Term))
	case token.XOR:
		return c.BVNot(x.(*smt.Term))
	}
	panic(fmt.Sprintf("invalid unary op %s %T", instr.Op, x))
}

// shiftCount adapts the shift count y (of type yt) to width w.
func (in *Interp) shiftCount(y *smt.Term, w int) *smt.Term {
	c := in.C
	yw := y.Sort.W
	if yw == w {
		return y
	}
	if yw < w {
		return c.ZExt(y, w)
	}
	big := c.BVULe(c.BVConstU(uint64(w), yw), y)
	return c.Ite(big, c.BVConstU(uint64(w), w), c.Extract(y, w-1, 0))
}

func (in *Interp) binop(op token.Token, t types.Type, x, y value) value {
	c := in.C
	switch op {
	case token.EQL:
		return in.equals(t, x, y)
	case token.NEQ:
		return c.Not(in.equals(t, x, y))
	}
	switch xv := x.(type) {
	case *smt.Term:
		yv, yIsTerm := y.(*smt.Term)
		if xv.Sort.K == smt.KStr || !yIsTerm {
			return in.strBinop(op, x, y)
		}
		if yv.Sort.K == smt.KStr {
			return in.strBinop(op, x, y)
		}
		if xv.Sort.K == smt.KBool {
			switch op {
			case token.LAND, token.AND:
				return c.And(xv, yv)
			case token.LOR, token.OR:
				return c.Or(xv, yv)
			}
			panic("bool binop " + op.String())
		}
		signed := isSigned(t)
		if r := in.durationCompare(op, xv, yv); r != nil {
			return r
		}
		switch op {
		case token.ADD:
			return c.BVAdd(xv, yv)
		case token.SUB:
			return c.BVSub(xv, yv)
		case token.MUL:
			return c.BVMul(xv, yv)
		case token.QUO, token.REM:
			zero := c.BVConstU(0, yv.Sort.W)
			if in.branch(c.Eq(yv, zero)) {
				panic(targetPanic{msg: "runtime error: integer divide by zero"})
			}
			if op == token.QUO {
				if signed {
					return c.BVSDiv(xv, yv)
				}
				return c.BVUDiv(xv, yv)
			}
			if signed {
				return c.BVSRem(xv, yv)
			}
			return c.BVURem(xv, yv)
		case token.AND:
			return c.BVAnd(xv, yv)
		case token.OR:
			return c.BVOr(xv, yv)
		case token.XOR:
			return c.BVXor(xv, yv)
		case token.AND_NOT:
			return c.BVAnd(xv, c.BVNot(yv))
		case token.SHL:
			return c.BVShl(xv, in.shiftCount(yv, xv.Sort.W))
		case token.SHR:
			if signed {
				return c.BVAShr(xv, in.shiftCount(yv, xv.Sort.W))
			}
			return c.BVLShr(xv, in.shiftCount(yv, xv.Sort.W))
		case token.LSS:
			if signed {
				return c.BVSLt(xv, yv)
			}
			return c.BVULt(xv, yv)
		case token.LEQ:
			if signed {
				return c.BVSLe(xv, yv)
			}
			return c.BVULe(xv, yv)
		case token.GTR:
			if signed {
				return c.BVSLt(yv, xv)
			}
			return c.BVULt(yv, xv)
		case token.GEQ:
			if signed {
				return c.BVSLe(yv, xv)
			}
			return c.BVULe(yv, xv)
		}
	case string, bstr:
		return in.strBinop(op, x, y)
	case float64:
		yv := y.(float64)
		switch op {
		case token.ADD:
			return xv + yv
		case token.SUB:
			return xv - yv
		case token.MUL:
			return xv * yv
		case token.QUO:
			return xv / yv
		case token.LSS:
			return c.BoolConst(xv < yv)
		case token.LEQ:
			return c.BoolConst(xv <= yv)
		case token.GTR:
			return c.BoolConst(xv > yv)
		case token.GEQ:
			return c.BoolConst(xv >= yv)
		}
	}
	panic(fmt.Sprintf("invalid binary op: %T %s %T", x, op, y))
}

func (in *Interp) strBinop(op token.Token, x, y value) value {
	c := in.C
	xs, xok := x.(string)
	ys, yok := y.(string)
	if xok && yok {
		switch op {
		case token.ADD:
			return xs + ys
		case token.LSS:
			return c.BoolConst(xs < ys)
		case token.LEQ:
			return c.BoolConst(xs <= ys)
		case token.GTR:
			return c.BoolConst(xs > ys)
		case token.GEQ:
			return c.BoolConst(xs >= ys)
		}
	}
	if op == token.ADD {
		if xb, ok := x.(bstr); ok {
			return bstr{append(append([]value{}, xb.b...), in.toBstr(y).b...)}
		}
		if yb, ok := y.(bstr); ok {
			return bstr{append(append([]value{}, in.toBstr(x).b...), yb.b...)}
		}
		if xok && xs == "" {
			return y
		}
		if yok && ys == "" {
			return x
		}
		return in.normStr(c.StrCat(in.strTerm(x), in.strTerm(y)))
	}
	panic(unsupported{fmt.Sprintf("string operator %s on symbolic strings", op)})
}

func (in *Interp) toBstr(v value) bstr {
	switch v := v.(type) {
	case bstr:
		return v
	case string:
		return bstr{in.bytesOfString(v)}
	}
	panic(unsupported{"Str term used as byte string"})
}

func (in *Interp) conv(tDst, tSrc types.Type, x value) value {
	c := in.C
	ut_src := tSrc.Underlying()
	ut_dst := tDst.Underlying()

	// pointer conversions, named struct conversions etc.
	switch ut_dst.(type) {
	case *types.Pointer, *types.Signature, *types.Struct, *types.Array, *types.Map, *types.Chan, *types.Interface:
		return x
	}
	if s, ok := ut_dst.(*types.Slice); ok {
		// string -> []byte / []rune
		if b, ok := s.Elem().Underlying().(*types.Basic); ok {
			switch xv := x.(type) {
			case string:
				if b.Kind() == types.Uint8 {
					return sliceVal(in.bytesOfString(xv))
				}
				if b.Kind() == types.Int32 {
					var out sliceVal
					for _, r := range xv {
						out = append(out, c.BVConstI(int64(r), 32))
					}
					return out
				}
			case bstr:
				return sliceVal(append([]value{}, xv.b...))
			case *smt.Term:
				panic(unsupported{"conversion of symbolic Str to []byte"})
			}
		}
		return x
	}
	bd, ok := ut_dst.(*types.Basic)
	if !ok {
		if _, isTP := ut_dst.(*types.TypeParam); isTP {
			return x
		}
		panic(fmt.Sprintf("conv: unsupported destination %v", tDst))
	}
	if bd.Kind() == types.UnsafePointer {
		return x
	}
	// -> string
	if bd.Info()&types.IsString != 0 {
		switch xv := x.(type) {
		case string, bstr:
			return xv
		case *smt.Term:
			if xv.Sort.K == smt.KStr {
				return xv
			}
			if xv.IsConst() {
				return string(rune(xv.I64()))
			}
			panic(unsupported{"conversion of symbolic integer to string"})
		case sliceVal:
			if len(xv) == 1 {
				if o, ok := xv[0].(*opaque); ok && o.kind == "strbytes" {
					return o.data
				}
			}
			// []byte or []rune -> string
			if s, ok := ut_src.(*types.Slice); ok {
				if b, ok := s.Elem().Underlying().(*types.Basic); ok && b.Kind() == types.Int32 {
					var sb strings.Builder
					for _, e := range xv {
						t := e.(*smt.Term)
						if !t.IsConst() {
							panic(unsupported{"symbolic rune slice to string"})
						}
						sb.WriteRune(rune(t.I64()))
					}
					return sb.String()
				}
			}
			b := bstr{append([]value{}, xv...)}
			if s, ok := in.bstrConcrete(b); ok {
				return s
			}
			return b
		}
		panic(fmt.Sprintf("conv to string from %T", x))
	}
	dw, dsigned, dint := intWidth(bd)
	switch xv := x.(type) {
	case *smt.Term:
		if xv.Sort.K == smt.KBool {
			return xv
		}
		if dint {
			bs := basicOf(tSrc)
			_, ssigned, _ := intWidth(bs)
			_ = dsigned
			if dw <= xv.Sort.W {
				return c.Extract(xv, dw-1, 0)
			}
			if ssigned {
				return c.SExt(xv, dw)
			}
			return c.ZExt(xv, dw)
		}
		if bd.Info()&types.IsFloat != 0 {
			if xv.IsConst() {
				if isSigned(tSrc) {
					return float64(xv.I64())
				}
				return float64(xv.U64())
			}
			panic(unsupported{"symbolic integer to float conversion"})
		}
	case float64:
		if dint {
			if dsigned {
				return c.BVConstI(int64(xv), dw)
			}
			return c.BVConstU(uint64(xv), dw)
		}
		if bd.Info()&types.IsFloat != 0 {
			if bd.Kind() == types.Float32 {
				return float64(float32(xv))
			}
			return xv
		}
	case *value:
		return xv
	}
	panic(fmt.Sprintf("conv: %T (%v) -> %v", x, tSrc, tDst))
}

func (in *Interp) slice(fr *frame, instr *ssa.Slice) value {
	x := fr.get(instr.X)
	var Len, Cap int
	switch xv := x.(type) {
	case string:
		Len, Cap = len(xv), len(xv)
	case bstr:
		Len, Cap = len(xv.b), len(xv.b)
	case sliceVal:
		Len, Cap = len(xv), cap(xv)
	case *value:
		if xv == nil {
			panic(targetPanic{msg: "runtime error: slice of nil array pointer"})
		}
		a := (*xv).(array)
		Len, Cap = len(a), cap(a)
	case *smt.Term:
		panic(unsupported{"slicing a symbolic Str"})
	default:
		panic(fmt.Sprintf("slice: unexpected %T", x))
	}
	// a symbolic bound: outside [0, cap] the program panics (one path); inside, the few
	// possible values are enumerated
	bound := func(v ssa.Value, what string) int {
		val := fr.get(v)
		if n, ok := in.constInt(val); ok {
			return int(n)
		}
		t := val.(*smt.Term)
		w := t.Sort.W
		inRange := in.C.And(in.C.BVSLe(in.C.BVConstI(0, w), t), in.C.BVSLe(t, in.C.BVConstI(int64(Cap), w)))
		if !in.branch(inRange) {
			panic(targetPanic{msg: fmt.Sprintf("runtime error: slice bounds out of range [%s] with capacity %d", what, Cap)})
		}
		return int(in.concretize(t, what).Int64())
	}
	var lo, hi, max = -1, -1, -1
	if instr.Low != nil {
		lo = bound(instr.Low, "slice low")
	}
	if instr.High != nil {
		hi = bound(instr.High, "slice high")
	}
	if instr.Max != nil {
		max = bound(instr.Max, "slice max")
	}
	if lo < 0 {
		lo = 0
	}
	if hi < 0 {
		hi = Len
	}
	if max < 0 {
		max = Cap
	}
	if lo > hi || hi > max || max > Cap {
		panic(targetPanic{msg: fmt.Sprintf("runtime error: slice bounds out of range [%d:%d:%d] with capacity %d", lo, hi, max, Cap)})
	}
	switch xv := x.(type) {
	case string:
		return xv[lo:hi]
	case bstr:
		b := bstr{xv.b[lo:hi]}
		if s, ok := in.bstrConcrete(b); ok {
			return s
		}
		return b
	case sliceVal:
		if xv == nil && lo == 0 && hi == 0 {
			return sliceVal(nil)
		}
		return xv[lo:hi:max]
	case *value:
		a := (*xv).(array)
		return sliceVal(a[lo:hi:max])
	}
	panic("unreachable")
}

func (in *Interp) lookup(instr *ssa.Lookup, x, idx value) value {
	switch xv := x.(type) {
	case *smap:
		var v value
		ok := false
		if i := in.mapFind(xv, idx); i >= 0 {
			v, ok = copyVal(xv.vals[i]), true
		} else {
			v = in.zero(instr.X.Type().Underlying().(*types.Map).Elem())
		}
		if instr.CommaOk {
			return tuple{v, in.C.BoolConst(ok)}
		}
		return v
	case string:
		i := in.indexIn(idx, len(xv))
		return in.C.BVConstU(uint64(xv[i]), 8)
	case bstr:
		return in.indexRead(xv.b, idx)
	}
	panic(unsupported{fmt.Sprintf("lookup on %T", x)})
}

// ---- range iterators

type iter interface{ next() tuple }

type mapIter struct {
	in *Interp
	m  *smap
	i  int
}

func (it *mapIter) next() tuple {
	for it.m != nil && it.i < len(it.m.keys) {
		i := it.i
		it.i++
		if it.m.keys[i] != nil {
			return tuple{it.in.C.True(), it.m.keys[i], copyVal(it.m.vals[i])}
		}
	}
	return tuple{it.in.C.False(), nil, nil}
}

type stringIter struct {
	in  *Interp
	s   string
	pos int
}

func (it *stringIter) next() tuple {
	if it.pos >= len(it.s) {
		return tuple{it.in.C.False(), it.in.C.BVConstU(0, 64), it.in.C.BVConstU(0, 32)}
	}
	r, n := utf8.DecodeRuneInString(it.s[it.pos:])
	p := it.pos
	it.pos += n
	return tuple{it.in.C.True(), it.in.C.BVConstI(int64(p), 64), it.in.C.BVConstI(int64(r), 32)}
}

func (in *Interp) rangeIter(x value, t types.Type) iter {
	switch xv := x.(type) {
	case *smap:
		in.path.noteAssumption("map iteration order = insertion order")
		return &mapIter{in: in, m: xv}
	case string:
		return &stringIter{in: in, s: xv}
	}
	panic(unsupported{fmt.Sprintf("range over %T", x)})
}

// ---- builtins

func (in *Interp) callBuiltin(caller *frame, pos token.Pos, fn *ssa.Builtin, args []value) value {
	c := in.C
	switch fn.Name() {
	case "append":
		if len(args) == 1 {
			return args[0]
		}
		var tail []value
		switch s := args[1].(type) {
		case string:
			tail = in.bytesOfString(s)
		case bstr:
			tail = s.b
		case sliceVal:
			tail = s
		default:
			panic(unsupported{fmt.Sprintf("append of %T", args[1])})
		}
		base := args[0].(sliceVal)
		out := base
		for _, e := range tail {
			out = append(out, copyVal(e))
		}
		return out
	case "copy":
		dst := args[0].(sliceVal)
		var src []value
		switch s := args[1].(type) {
		case string:
			src = in.bytesOfString(s)
		case bstr:
			src = s.b
		case sliceVal:
			src = s
		}
		n := 0
		for n < len(dst) && n < len(src) {
			n++
		}
		tmp := make([]value, n)
		for i := 0; i < n; i++ {
			tmp[i] = copyVal(src[i])
		}
		copy(dst, tmp)
		return c.BVConstI(int64(n), 64)
	case "close":
		ch := args[0].(*chanVal)
		if ch == nil {
			panic(targetPanic{msg: "close of nil channel"})
		}
		if ch.closed {
			panic(targetPanic{msg: "close of closed channel"})
		}
		ch.closed = true
		return nil
	case "delete":
		in.mapDelete(args[0].(*smap), args[1])
		return nil
	case "print", "println":
		return nil
	case "len":
		switch x := args[0].(type) {
		case string:
			return c.BVConstI(int64(len(x)), 64)
		case bstr:
			return c.BVConstI(int64(len(x.b)), 64)
		case array:
			return c.BVConstI(int64(len(x)), 64)
		case *value:
			return c.BVConstI(int64(len((*x).(array))), 64)
		case sliceVal:
			return c.BVConstI(int64(len(x)), 64)
		case *smap:
			return c.BVConstI(int64(x.length()), 64)
		case *chanVal:
			if x == nil {
				return c.BVConstI(0, 64)
			}
			return c.BVConstI(int64(len(x.buf)), 64)
		case *smt.Term:
			return in.strLen(x)
		}
		panic(fmt.Sprintf("len of %T", args[0]))
	case "cap":
		switch x := args[0].(type) {
		case array:
			return c.BVConstI(int64(len(x)), 64)
		case *value:
			return c.BVConstI(int64(len((*x).(array))), 64)
		case sliceVal:
			return c.BVConstI(int64(cap(x)), 64)
		case *chanVal:
			if x == nil {
				return c.BVConstI(0, 64)
			}
			return c.BVConstI(int64(x.cap), 64)
		}
		panic(fmt.Sprintf("cap of %T", args[0]))
	case "min", "max":
		acc := args[0].(*smt.Term)
		signed := isSigned(fn.Type().(*types.Signature).Params().At(0).Type())
		for _, a := range args[1:] {
			t := a.(*smt.Term)
			var lt *smt.Term
			if signed {
				lt = c.BVSLt(t, acc)
			} else {
				lt = c.BVULt(t, acc)
			}
			if fn.Name() == "min" {
				acc = c.Ite(lt, t, acc)
			} else {
				acc = c.Ite(lt, acc, t)
			}
		}
		return acc
	case "panic":
		panic(targetPanic{v: args[0]})
	case "recover":
		return in.doRecover(caller)
	case "ssa:wrapnilchk":
		recv := args[0]
		if p, ok := recv.(*value); ok && p == nil {
			panic(targetPanic{msg: "value method called using nil pointer"})
		}
		return recv
	}
	panic(unsupported{"builtin " + fn.Name()})
}

func (in *Interp) doRecover(caller *frame) value {
	if caller != nil && !caller.panicking && caller.caller != nil && caller.caller.panicking {
		caller.caller.panicking = false
		p := caller.caller.panic
		caller.caller.panic = nil
		switch p := p.(type) {
		case targetPanic:
			if p.v != nil {
				return p.v
			}
			return iface{t: in.synthType("runtime.errorString"), v: p.msg}
		default:
			panic(fmt.Sprintf("unexpected panic type %T in recover()", p))
		}
	}
	return iface{}
}

// strLen gives len() of a symbolic Str.
func (in *Interp) strLen(t *smt.Term) value {
	c := in.C
	in.C.DeclareFun("strlen", []smt.Sort{smt.Str}, smt.Int)
	// hex strings are 64 long; literals have their table length; others are constrained >= 0 / >= 1
	if t.Op == smt.OpStrHex {
		return c.BVConstI(64, 64)
	}
	n := c.App("strlen", t)
	// facts
	in.assumeSilently(c.ILe(c.IntConstI(0), n))
	in.assumeSilently(c.ILe(n, c.IntConstI(1<<20)))
	in.assumeSilently(c.Implies(c.IsHex(t), c.Eq(n, c.IntConstI(64))))
	in.assumeSilently(c.Implies(c.Or(c.IsDec(t), c.IsOpq(t), c.IsCat(t)), c.ILe(c.IntConstI(1), n)))
	emp := c.StrConst("")
	in.assumeSilently(c.Eq(c.Eq(t, emp), c.Eq(n, c.IntConstI(0))))
	return c.Int2BV(n, 64)
}

func bigPow2(n uint) *big.Int { return new(big.Int).Lsh(big.NewInt(1), n) }

// durationCompare: a time.Duration produced by Time.Sub / time.Since / time.Until is
// seconds * 1e9 (the clock has one-second resolution) and Go saturates instead of wrapping,
// so comparing it with a constant or with another such duration is a comparison of the
// second counts. Without this the solver has to reason about a 64-bit multiplication by 10^9.
func (in *Interp) durationCompare(op token.Token, x, y *smt.Term) *smt.Term {
	c := in.C
	const ns = int64(1_000_000_000)
	sx, okx := in.secDur[x]
	sy, oky := in.secDur[y]
	if !okx && !oky {
		return nil
	}
	floorDiv := func(k int64) int64 {
		q := k / ns
		if k%ns != 0 && k < 0 {
			q--
		}
		return q
	}
	ceilDiv := func(k int64) int64 {
		q := k / ns
		if k%ns != 0 && k > 0 {
			q++
		}
		return q
	}
	cmp := func(op token.Token, a, b *smt.Term) *smt.Term {
		switch op {
		case token.LSS:
			return c.BVSLt(a, b)
		case token.LEQ:
			return c.BVSLe(a, b)
		case token.GTR:
			return c.BVSLt(b, a)
		case token.GEQ:
			return c.BVSLe(b, a)
		}
		return nil
	}
	switch {
	case okx && oky:
		return cmp(op, sx, sy)
	case okx && y.IsConst():
		k := y.I64()
		switch op {
		case token.LEQ, token.GTR: // d <= k  <=>  s <= floor(k/1e9);  d > k <=> s > floor(k/1e9)
			return cmp(op, sx, c.BVConstI(floorDiv(k), 64))
		case token.LSS, token.GEQ: // d < k <=> s < ceil(k/1e9);  d >= k <=> s >= ceil(k/1e9)
			return cmp(op, sx, c.BVConstI(ceilDiv(k), 64))
		}
	case oky && x.IsConst():
		k := x.I64()
		switch op {
		case token.LEQ, token.GTR: // k <= d <=> ceil(k/1e9) <= s;  k > d <=> ceil(k/1e9) > s
			return cmp(op, c.BVConstI(ceilDiv(k), 64), sy)
		case token.LSS, token.GEQ: // k < d <=> floor(k/1e9) < s;  k >= d <=> floor(k/1e9) >= s
			return cmp(op, c.BVConstI(floorDiv(k), 64), sy)
		}
	}
	return nil
}
