package symex

import (
	"fmt"
	"go/token"
	"go/types"
	"runtime"
	"slices"
	"strings"

	"bhsverif/smt"

	"golang.org/x/tools/go/ssa"
)

// unsupported aborts the current path as inconclusive.
type unsupported struct{ msg string }

// pathEnd stops the current path silently (infeasible / assumption false).
type pathEnd struct{ why string }

// blockedSignal: the current goroutine blocks forever (receive on an empty channel nobody sends to).
type blockedSignal struct{ what string }

// targetPanic is a panic raised by the program under test.
type targetPanic struct {
	v   value
	msg string
}

type deferred struct {
	fn    value
	args  []value
	instr *ssa.Defer
	tail  *deferred
}

type frame struct {
	in               *Interp
	caller           *frame
	fn               *ssa.Function
	block, prevBlock *ssa.BasicBlock
	env              map[ssa.Value]value
	locals           []value
	defers           *deferred
	result           value
	panicking        bool
	panic            interface{}
	phitemps         []value
	symVisits        map[*ssa.BasicBlock]int
}

// Interp is the state of one path execution.
type Interp struct {
	P        *Program
	C        *smt.Ctx
	path     *pathRun
	globals  map[*ssa.Global]*value
	inited   map[*ssa.Package]bool
	steps    int64
	depth    int
	Unwind   int
	funcsHit map[*ssa.Function]bool
	// harness-visible state
	observed []Observation
	extra    map[string]interface{} // intrinsic-private state (sql tables, gin log ...)
	goq      []func()
	clock    *smt.Term
	errTypes map[string]*types.Named
	curFrame *frame
	curPos   token.Pos
	secDur   map[*smt.Term]*smt.Term // duration term (seconds*1e9) -> its second count
}

type Observation struct {
	Name string
	Val  string
	term *smt.Term
	uns  bool
}

func (fr *frame) get(key ssa.Value) value {
	switch key := key.(type) {
	case nil:
		return nil
	case *ssa.Function:
		return key
	case *ssa.Builtin:
		return key
	case *ssa.Const:
		return fr.in.constValue(key)
	case *ssa.Global:
		return fr.in.globalAddr(key)
	}
	if r, ok := fr.env[key]; ok {
		return r
	}
	panic(fmt.Sprintf("get: no value for %T: %v in %s", key, key.Name(), fr.fn))
}

func (in *Interp) globalAddr(g *ssa.Global) *value {
	if p, ok := in.globals[g]; ok {
		return p
	}
	// first touch of a package: allocate all its globals and run its init
	pkg := g.Pkg
	in.initPackage(pkg)
	if p, ok := in.globals[g]; ok {
		return p
	}
	panic("global not allocated: " + g.String())
}

func (in *Interp) allocGlobals(pkg *ssa.Package) {
	for _, m := range pkg.Members {
		if g, ok := m.(*ssa.Global); ok {
			if _, done := in.globals[g]; !done {
				cell := in.zero(deref(g.Type()))
				// sentinel errors of dependencies without source (sql.ErrNoRows, io.EOF ...) get distinct identities
				if pkg.Func("init") == nil || pkg.Func("init").Blocks == nil {
					if types.Identical(deref(g.Type()), types.Universe.Lookup("error").Type()) {
						cell = in.mkError(pkg.Pkg.Path() + "." + g.Name())
					}
				}
				in.globals[g] = &cell
			}
		}
	}
}

func (in *Interp) initPackage(pkg *ssa.Package) {
	if in.inited[pkg] {
		return
	}
	in.inited[pkg] = true
	in.allocGlobals(pkg)
	initFn := pkg.Func("init")
	if initFn != nil && initFn.Blocks != nil {
		in.call(nil, token.NoPos, initFn, nil)
	}
}

func deref(t types.Type) types.Type {
	if p, ok := t.Underlying().(*types.Pointer); ok {
		return p.Elem()
	}
	panic("deref of non-pointer " + t.String())
}

func (in *Interp) constValue(c *ssa.Const) value {
	if c.Value == nil {
		return in.zero(c.Type())
	}
	t := c.Type()
	if b, ok := t.Underlying().(*types.Basic); ok {
		if b.Info()&types.IsUntyped != 0 {
			b = types.Default(b).(*types.Basic)
		}
		if w, signed, ok := intWidth(b); ok {
			if signed {
				return in.C.BVConstI(c.Int64(), w)
			}
			return in.C.BVConstU(c.Uint64(), w)
		}
		switch b.Kind() {
		case types.Bool:
			return in.C.BoolConst(constantBool(c))
		case types.String:
			return constantString(c)
		case types.Float32, types.Float64:
			return c.Float64()
		case types.Complex64, types.Complex128:
			return c.Complex128()
		}
	}
	panic(fmt.Sprintf("constValue: unexpected constant %v of type %v", c, t))
}

// ---- running

func (in *Interp) call(caller *frame, pos token.Pos, fn value, args []value) value {
	switch fn := fn.(type) {
	case *ssa.Function:
		if fn == nil {
			panic(targetPanic{msg: "call of nil function"})
		}
		return in.callSSA(caller, pos, fn, args, nil)
	case *closure:
		return in.callSSA(caller, pos, fn.Fn, args, fn.Env)
	case *ssa.Builtin:
		return in.callBuiltin(caller, pos, fn, args)
	case *native:
		fr := &frame{in: in, caller: caller}
		return fn.fn(fr, args)
	}
	panic(fmt.Sprintf("cannot call %T", fn))
}

const maxDepth = 400

func (in *Interp) callSSA(caller *frame, pos token.Pos, fn *ssa.Function, args []value, env []value) value {
	fr := &frame{in: in, caller: caller, fn: fn}
	if h := in.lookupIntrinsic(fn); h != nil {
		if r := h(fr, args); r != (useBody{}) {
			in.funcsHit[fn] = true
			return r
		}
	}
	if fn.Name() == "init" && fn.Signature.Recv() == nil && caller != nil && caller.fn != nil && caller.fn.Name() == "init" && caller.fn.Pkg != fn.Pkg {
		// package initialisation is lazy: a dependency is initialised when one of its globals is first touched
		return nil
	}
	if fn.Blocks == nil {
		if fn.Name() == "init" && fn.Signature.Recv() == nil {
			return nil
		}
		if in.P.isOpaquePkg(fn) {
			return in.opaqueResult(fn)
		}
		panic(unsupported{"no body and no model for " + fn.String() + in.where(caller, pos)})
	}
	if fn.TypeParams().Len() > 0 && len(fn.TypeArgs()) == 0 {
		panic(unsupported{"uninstantiated generic " + fn.String()})
	}
	in.depth++
	if in.depth > maxDepth {
		panic(unsupported{"call depth limit at " + fn.String()})
	}
	defer func() { in.depth-- }()
	in.funcsHit[fn] = true

	fr.env = make(map[ssa.Value]value, 16)
	fr.block = fn.Blocks[0]
	fr.locals = make([]value, len(fn.Locals))
	for i, l := range fn.Locals {
		fr.locals[i] = in.zero(deref(l.Type()))
		fr.env[l] = &fr.locals[i]
	}
	for i, p := range fn.Params {
		fr.env[p] = args[i]
	}
	for i, fv := range fn.FreeVars {
		fr.env[fv] = env[i]
	}
	for fr.block != nil {
		in.runFrame(fr)
	}
	return fr.result
}

func (in *Interp) where(fr *frame, pos token.Pos) string {
	if pos != token.NoPos {
		return " at " + in.P.Fset.Position(pos).String()
	}
	if fr != nil && fr.fn != nil {
		return " in " + fr.fn.String()
	}
	return ""
}

func (in *Interp) runFrame(fr *frame) {
	defer func() {
		if fr.block == nil {
			return // normal return
		}
		r := recover()
		switch r.(type) {
		case unsupported, pathEnd, internalAbort, killSignal, blockedSignal, coKilled:
			panic(r) // engine control flow: not visible to the program (a kill runs no deferred calls)
		}
		if s, ok := r.(string); ok {
			panic(unsupported{"engine error: " + s + in.where(fr, 0)})
		}
		if re, ok := r.(runtime.Error); ok {
			// host runtime error inside the engine while executing the program's instruction:
			// nil dereference and the like map to the program's own panic.
			msg := re.Error()
			if strings.Contains(msg, "nil pointer") || strings.Contains(msg, "index out of range") || strings.Contains(msg, "slice bounds") {
				r = targetPanic{msg: "runtime error: " + msg}
			} else {
				panic(r)
			}
		}
		fr.panicking = true
		fr.panic = r
		fr.runDefers()
		fr.block = fr.fn.Recover
	}()

	for {
		nonPhis := fr.executePhis()
		for _, instr := range nonPhis {
			in.steps++
			in.curFrame = fr
			if p := instr.Pos(); p != token.NoPos {
				in.curPos = p
			}
			if in.steps > in.P.MaxSteps {
				panic(unsupported{"step budget exhausted"})
			}
			if in.visitInstr(fr, instr) == kReturn {
				return
			}
		}
	}
}

func (fr *frame) executePhis() []ssa.Instruction {
	firstNonPhi := -1
	for i, instr := range fr.block.Instrs {
		if _, ok := instr.(*ssa.Phi); !ok {
			firstNonPhi = i
			break
		}
	}
	nonPhis := fr.block.Instrs[firstNonPhi:]
	if firstNonPhi > 0 {
		phis := fr.block.Instrs[:firstNonPhi]
		predIndex := slices.Index(fr.block.Preds, fr.prevBlock)
		fr.phitemps = fr.phitemps[:0]
		for _, phi := range phis {
			fr.phitemps = append(fr.phitemps, fr.get(phi.(*ssa.Phi).Edges[predIndex]))
		}
		for i, phi := range phis {
			fr.env[phi.(*ssa.Phi)] = fr.phitemps[i]
		}
	}
	return nonPhis
}

func (fr *frame) runDefer(d *deferred) {
	var ok bool
	defer func() {
		if !ok {
			r := recover()
			switch r.(type) {
			case unsupported, pathEnd, internalAbort, killSignal, blockedSignal, coKilled:
				panic(r)
			}
			fr.panicking = true
			fr.panic = r
		}
	}()
	fr.in.call(fr, d.instr.Pos(), d.fn, d.args)
	ok = true
}

func (fr *frame) runDefers() {
	for d := fr.defers; d != nil; d = d.tail {
		fr.runDefer(d)
	}
	fr.defers = nil
	if fr.panicking {
		panic(fr.panic)
	}
}

type continuation int

const (
	kNext continuation = iota
	kReturn
	kJump
)

func (in *Interp) load(t types.Type, addr *value) value {
	if addr == nil {
		panic(targetPanic{msg: "runtime error: invalid memory address or nil pointer dereference"})
	}
	return copyVal(*addr)
}

func (in *Interp) store(addr *value, v value) {
	if addr == nil {
		panic(targetPanic{msg: "runtime error: invalid memory address or nil pointer dereference"})
	}
	*addr = copyVal(v)
}

func (in *Interp) visitInstr(fr *frame, instr ssa.Instruction) continuation {
	switch instr := instr.(type) {
	case *ssa.DebugRef:

	case *ssa.UnOp:
		fr.env[instr] = in.unop(fr, instr, fr.get(instr.X))

	case *ssa.BinOp:
		fr.env[instr] = in.binop(instr.Op, instr.X.Type(), fr.get(instr.X), fr.get(instr.Y))

	case *ssa.Call:
		fn, args := in.prepareCall(fr, &instr.Call)
		fr.env[instr] = in.call(fr, instr.Pos(), fn, args)

	case *ssa.ChangeInterface:
		fr.env[instr] = fr.get(instr.X)

	case *ssa.ChangeType:
		fr.env[instr] = fr.get(instr.X)

	case *ssa.Convert:
		fr.env[instr] = in.conv(instr.Type(), instr.X.Type(), fr.get(instr.X))

	case *ssa.SliceToArrayPointer:
		x := fr.get(instr.X).(sliceVal)
		n := int(instr.Type().Underlying().(*types.Pointer).Elem().Underlying().(*types.Array).Len())
		if len(x) < n {
			panic(targetPanic{msg: "runtime error: cannot convert slice to array pointer"})
		}
		var cell value = array(x[:n:n])
		fr.env[instr] = &cell

	case *ssa.MakeInterface:
		fr.env[instr] = iface{t: instr.X.Type(), v: fr.get(instr.X)}

	case *ssa.Extract:
		fr.env[instr] = fr.get(instr.Tuple).(tuple)[instr.Index]

	case *ssa.Slice:
		fr.env[instr] = in.slice(fr, instr)

	case *ssa.Return:
		switch len(instr.Results) {
		case 0:
		case 1:
			fr.result = fr.get(instr.Results[0])
		default:
			var res []value
			for _, r := range instr.Results {
				res = append(res, fr.get(r))
			}
			fr.result = tuple(res)
		}
		fr.block = nil
		return kReturn

	case *ssa.RunDefers:
		fr.runDefers()

	case *ssa.Panic:
		panic(targetPanic{v: fr.get(instr.X)})

	case *ssa.Send:
		ch := fr.get(instr.Chan).(*chanVal)
		in.chanSend(ch, fr.get(instr.X))

	case *ssa.Store:
		in.store(fr.get(instr.Addr).(*value), fr.get(instr.Val))

	case *ssa.If:
		succ := 1
		if in.branchAt(fr, instr, fr.get(instr.Cond).(*smt.Term)) {
			succ = 0
		}
		fr.prevBlock, fr.block = fr.block, fr.block.Succs[succ]
		return kJump

	case *ssa.Jump:
		fr.prevBlock, fr.block = fr.block, fr.block.Succs[0]
		return kJump

	case *ssa.Defer:
		fn, args := in.prepareCall(fr, &instr.Call)
		fr.defers = &deferred{fn: fn, args: args, instr: instr, tail: fr.defers}

	case *ssa.Go:
		fn, args := in.prepareCall(fr, &instr.Call)
		in.spawn(fr, instr, fn, args)

	case *ssa.MakeChan:
		fr.env[instr] = &chanVal{cap: in.mustInt(fr.get(instr.Size), "chan size")}

	case *ssa.Alloc:
		var addr *value
		if instr.Heap {
			addr = new(value)
			fr.env[instr] = addr
		} else {
			addr = fr.env[instr].(*value)
		}
		*addr = in.zero(deref(instr.Type()))

	case *ssa.MakeSlice:
		tElt := instr.Type().Underlying().(*types.Slice).Elem()
		n, l := in.makeSizes(fr, instr, fr.get(instr.Cap), fr.get(instr.Len), tElt)
		s := make(sliceVal, n)
		for i := range s {
			s[i] = in.zero(tElt)
		}
		fr.env[instr] = s[:l]

	case *ssa.MakeMap:
		fr.env[instr] = newMap(instr.Type().Underlying().(*types.Map).Key())

	case *ssa.Range:
		fr.env[instr] = in.rangeIter(fr.get(instr.X), instr.X.Type())

	case *ssa.Next:
		fr.env[instr] = fr.get(instr.Iter).(iter).next()

	case *ssa.FieldAddr:
		p := fr.get(instr.X).(*value)
		if p == nil {
			panic(targetPanic{msg: "runtime error: invalid memory address or nil pointer dereference"})
		}
		st, ok := (*p).(structure)
		if !ok {
			panic(unsupported{fmt.Sprintf("field address into %T (%s)%s", *p, instr.X.Type(), in.where(fr, instr.Pos()))})
		}
		fr.env[instr] = &st[instr.Field]

	case *ssa.Field:
		fr.env[instr] = fr.get(instr.X).(structure)[instr.Field]

	case *ssa.IndexAddr:
		x := fr.get(instr.X)
		switch x := x.(type) {
		case sliceVal:
			i := in.indexIn(fr.get(instr.Index), len(x))
			fr.env[instr] = &x[i]
		case *value:
			if x == nil {
				panic(targetPanic{msg: "runtime error: invalid memory address or nil pointer dereference"})
			}
			a := (*x).(array)
			i := in.indexIn(fr.get(instr.Index), len(a))
			fr.env[instr] = &a[i]
		default:
			panic(fmt.Sprintf("unexpected x type in IndexAddr: %T", x))
		}

	case *ssa.Index:
		x := fr.get(instr.X)
		switch x := x.(type) {
		case array:
			fr.env[instr] = in.indexRead([]value(x), fr.get(instr.Index))
		case string:
			if t, ok := fr.get(instr.Index).(*smt.Term); ok && !t.IsConst() {
				fr.env[instr] = in.indexRead(in.bytesOfString(x), t) // ite chain over the bytes of the constant
				break
			}
			i := in.indexIn(fr.get(instr.Index), len(x))
			fr.env[instr] = in.C.BVConstU(uint64(x[i]), 8)
		case bstr:
			fr.env[instr] = in.indexRead(x.b, fr.get(instr.Index))
		case *smt.Term:
			// s[i] on a symbolic string: strings are atoms, so only the bounds check is exact (the
			// length is strlen(s), zero exactly for ""); the byte itself is an uninterpreted function
			// of the string and the position.
			if x.Sort != smt.Str {
				panic(unsupported{fmt.Sprintf("Index on term of sort %v", x.Sort)})
			}
			if gs, ok := in.C.GoString(x); ok {
				i := in.indexIn(fr.get(instr.Index), len(gs))
				fr.env[instr] = in.C.BVConstU(uint64(gs[i]), 8)
				break
			}
			idx := fr.get(instr.Index).(*smt.Term)
			if idx.Sort.W < 64 {
				idx = in.C.SExt(idx, 64)
			}
			n := in.strLen(x).(*smt.Term)
			if !in.branch(in.C.BVULt(idx, n)) {
				panic(targetPanic{msg: "runtime error: index out of range [symbolic] with length of a symbolic string"})
			}
			in.C.DeclareFun("strbyte", []smt.Sort{smt.Str, smt.BV(64)}, smt.BV(8))
			in.path.noteAssumption("bytes of a symbolic string are uninterpreted (strbyte)")
			fr.env[instr] = in.C.App("strbyte", x, idx)
		default:
			panic(unsupported{fmt.Sprintf("Index on %T", x)})
		}

	case *ssa.Lookup:
		fr.env[instr] = in.lookup(instr, fr.get(instr.X), fr.get(instr.Index))

	case *ssa.MapUpdate:
		m := fr.get(instr.Map).(*smap)
		if m == nil {
			panic(targetPanic{msg: "assignment to entry in nil map"})
		}
		in.mapSet(m, fr.get(instr.Key), copyVal(fr.get(instr.Value)))

	case *ssa.TypeAssert:
		fr.env[instr] = in.typeAssert(instr, fr.get(instr.X).(iface))

	case *ssa.MakeClosure:
		var bindings []value
		for _, b := range instr.Bindings {
			bindings = append(bindings, fr.get(b))
		}
		fr.env[instr] = &closure{instr.Fn.(*ssa.Function), bindings}

	case *ssa.Select:
		fr.env[instr] = in.selectOp(fr, instr)

	default:
		panic(fmt.Sprintf("unexpected instruction: %T", instr))
	}
	return kNext
}

// indexIn returns a concrete in-range index, forking / panicking as needed.
func (in *Interp) indexIn(idx value, n int) int {
	t := idx.(*smt.Term)
	if t.IsConst() {
		i := t.I64()
		if i < 0 || i >= int64(n) {
			panic(targetPanic{msg: fmt.Sprintf("runtime error: index out of range [%d] with length %d", i, n)})
		}
		return int(i)
	}
	w := t.Sort.W
	inRange := in.C.BVULt(t, in.C.BVConstU(uint64(n), w))
	if w < 64 && uint64(n) >= uint64(1)<<uint(w) {
		inRange = in.C.True() // every value of a narrow (unsigned) index type is below the length, e.g. table[byte]
	}
	if !in.branch(inRange) {
		panic(targetPanic{msg: fmt.Sprintf("runtime error: index out of range [symbolic] with length %d", n)})
	}
	return int(uint64(in.concretize(t, "index").Int64()) & widthMask(w))
}

func widthMask(w int) uint64 {
	if w >= 64 {
		return ^uint64(0)
	}
	return uint64(1)<<uint(w) - 1
}

// indexRead reads a[idx] building an ite chain for symbolic idx.
func (in *Interp) indexRead(a []value, idx value) value {
	t := idx.(*smt.Term)
	if t.IsConst() {
		return a[in.indexIn(idx, len(a))]
	}
	w := t.Sort.W
	narrowFits := w < 64 && uint64(len(a)) >= uint64(1)<<uint(w)
	if !narrowFits && !in.branch(in.C.BVULt(t, in.C.BVConstU(uint64(len(a)), w))) {
		panic(targetPanic{msg: fmt.Sprintf("runtime error: index out of range [symbolic] with length %d", len(a))})
	}
	// scalar elements: ite chain; otherwise concretise
	if len(a) > 0 {
		if _, ok := a[0].(*smt.Term); ok {
			acc := a[len(a)-1].(*smt.Term)
			for i := len(a) - 2; i >= 0; i-- {
				acc = in.C.Ite(in.C.Eq(t, in.C.BVConstU(uint64(i), w)), a[i].(*smt.Term), acc)
			}
			return acc
		}
	}
	return a[int(uint64(in.concretize(t, "index").Int64())&widthMask(w))]
}

func (in *Interp) prepareCall(fr *frame, call *ssa.CallCommon) (fn value, args []value) {
	v := fr.get(call.Value)
	if call.Method == nil {
		fn = v
	} else {
		recv := v.(iface)
		if recv.t == nil {
			panic(targetPanic{msg: "runtime error: invalid memory address or nil pointer dereference (method on nil interface)"})
		}
		fn = in.lookupMethod(recv.t, call.Method)
		args = append(args, recv.v)
	}
	for _, a := range call.Args {
		args = append(args, fr.get(a))
	}
	return
}

func (in *Interp) lookupMethod(typ types.Type, meth *types.Func) value {
	if nm := in.nativeMethod(typ, meth.Name()); nm != nil {
		return nm
	}
	f := in.P.Prog.LookupMethod(typ, meth.Pkg(), meth.Name())
	if f == nil {
		panic(unsupported{fmt.Sprintf("method %s not found for dynamic type %v", meth.Name(), typ)})
	}
	return f
}

func (in *Interp) typeAssert(instr *ssa.TypeAssert, itf iface) value {
	var v value
	err := ""
	if itf.t == nil {
		err = fmt.Sprintf("interface conversion: interface is nil, not %s", instr.AssertedType)
	} else if idst, ok := instr.AssertedType.Underlying().(*types.Interface); ok {
		v = itf
		if !in.implements(itf.t, idst) {
			err = fmt.Sprintf("interface conversion: %v is not %v", itf.t, idst)
		}
	} else if types.Identical(itf.t, instr.AssertedType) {
		v = itf.v
	} else {
		err = fmt.Sprintf("interface conversion: interface is %s, not %s", itf.t, instr.AssertedType)
	}
	if err != "" {
		if !instr.CommaOk {
			panic(targetPanic{msg: err})
		}
		return tuple{in.zero(instr.AssertedType), in.C.False()}
	}
	if instr.CommaOk {
		return tuple{v, in.C.True()}
	}
	return v
}

func (in *Interp) implements(t types.Type, it *types.Interface) bool {
	if n, ok := synthName(t); ok && strings.HasPrefix(n, "opaque.") && !strings.HasPrefix(n, "opaque.context.") {
		return true // an opaque host object satisfies the interface it was created for; calling it is unsupported
	}
	if sy, ok := in.synthMethods(t); ok {
		for i := 0; i < it.NumMethods(); i++ {
			if !sy[it.Method(i).Name()] {
				return false
			}
		}
		return true
	}
	return types.Implements(t, it)
}

// ---- goroutines: run to completion at the spawn point (one schedule; stated in evidence)

func (in *Interp) spawn(fr *frame, instr *ssa.Go, fn value, args []value) {
	in.path.noteAssumption("goroutines started by `go` run to completion at the spawn point (single schedule)")
	if in.P.DeferGo {
		in.goq = append(in.goq, func() { in.call(nil, instr.Pos(), fn, args) })
		return
	}
	// a goroutine that blocks forever is parked; its creator goes on
	defer func() {
		if r := recover(); r != nil {
			if b, ok := r.(blockedSignal); ok {
				in.path.noteAssumption("a spawned goroutine that blocks forever is parked (" + b.what + "); the others go on")
				return
			}
			panic(r)
		}
	}()
	in.call(nil, instr.Pos(), fn, args)
}

// ---- channels (concrete FIFOs)

func (in *Interp) chanSend(ch *chanVal, v value) {
	if ch == nil {
		panic(unsupported{"send on nil channel (deadlock)"})
	}
	if ch.closed {
		panic(targetPanic{msg: "send on closed channel"})
	}
	if len(ch.buf) >= ch.cap && ch.cap > 0 {
		panic(unsupported{"send on full channel would block (no scheduler)"})
	}
	ch.buf = append(ch.buf, copyVal(v))
}

func (in *Interp) chanRecv(ch *chanVal, elem types.Type) (value, bool) {
	if ch == nil {
		panic(unsupported{"receive on nil channel (deadlock)"})
	}
	if len(ch.buf) > 0 {
		v := ch.buf[0]
		ch.buf = ch.buf[1:]
		return v, true
	}
	if ch.closed {
		return in.zero(elem), false
	}
	panic(blockedSignal{"receive on an empty channel"})
}

func (in *Interp) selectOp(fr *frame, instr *ssa.Select) value {
	chosen := -1
	var recv value
	recvOk := false
	for i, st := range instr.States {
		ch := fr.get(st.Chan).(*chanVal)
		if ch == nil {
			continue
		}
		if st.Dir == types.RecvOnly {
			if len(ch.buf) > 0 || ch.closed {
				chosen = i
				recv, recvOk = in.chanRecv(ch, st.Chan.Type().Underlying().(*types.Chan).Elem())
				break
			}
		} else {
			if !ch.closed && (len(ch.buf) < ch.cap) {
				chosen = i
				in.chanSend(ch, fr.get(st.Send))
				break
			}
		}
	}
	if chosen < 0 && instr.Blocking {
		panic(unsupported{"blocking select with no ready case (no scheduler)"})
	}
	r := tuple{in.C.BVConstI(int64(chosen), 64), in.C.BoolConst(recvOk)}
	for i, st := range instr.States {
		if st.Dir == types.RecvOnly {
			if i == chosen && recvOk {
				r = append(r, recv)
			} else {
				r = append(r, in.zero(st.Chan.Type().Underlying().(*types.Chan).Elem()))
			}
		}
	}
	return r
}

// ---- allocation sizes (C14)

var gcSizes = types.SizesFor("gc", "amd64")

// makeSizes returns concrete capacity and length for a make([]T, len, cap). A symbolic length is
// recorded (bytes = len * sizeof(T)) in the allocation log; it is concretised when it is small,
// and replaced by a bounded *view* when it can exceed the harness's allocation view: code that
// fills such a slice from the input stops at the end of the (shorter) input. The view must be
// larger than the input the harness supplies (vh.SetAllocView).
func (in *Interp) makeSizes(fr *frame, instr ssa.Instruction, capV, lenV value, tElt types.Type) (int, int) {
	c := in.C
	lt := lenV.(*smt.Term)
	ct := capV.(*smt.Term)
	esz := gcSizes.Sizeof(tElt)
	if esz == 0 {
		esz = 1
	}
	if tot, ok := in.extra["allocbytes"].(*smt.Term); ok {
		c64 := ct
		if ct.Sort.W < 64 {
			c64 = c.SExt(ct, 64)
		}
		b := c.BVMul(c64, c.BVConstI(esz, 64))
		in.extra["allocbytes"] = c.Ite(c.BVULt(tot, b), b, tot)
	}
	view, _ := in.extra["allocview"].(int)
	if !ct.IsConst() && view > 0 {
		w := ct.Sort.W
		if in.branch(c.BVSLt(ct, c.BVConstI(0, w))) {
			panic(targetPanic{msg: "runtime error: makeslice: cap out of range"})
		}
		if in.branch(c.BVSLt(c.BVConstI(int64(view), w), ct)) {
			in.path.noteAssumption(fmt.Sprintf("an allocation larger than the allocation view (%d elements) is represented by its first %d elements; the input is shorter than that", view, view+1))
			n := view + 1
			if lt == ct {
				return n, n
			}
			if lt.IsConst() {
				l := int(lt.I64())
				if l < 0 {
					panic(targetPanic{msg: "runtime error: makeslice: len out of range"})
				}
				if l > n {
					l = n
				}
				return n, l
			}
			if in.branch(c.BVSLt(c.BVConstI(int64(view), lt.Sort.W), lt)) {
				return n, n
			}
			l := in.mustInt(lenV, "make len")
			if l < 0 {
				panic(targetPanic{msg: "runtime error: makeslice: len out of range"})
			}
			return n, l
		}
	}
	n := in.mustInt(capV, "make cap")
	l := in.mustInt(lenV, "make len")
	if n < 0 || l < 0 || l > n {
		panic(targetPanic{msg: "runtime error: makeslice: len out of range"})
	}
	if n > in.P.MaxAlloc {
		panic(unsupported{fmt.Sprintf("makeslice of %d elements exceeds engine limit", n)})
	}
	return n, l
}
