package symex

import (
	"go/token"

	"bhsverif/smt"
)

// Two threads of control, interleaved at harness-chosen scheduling points (vh.Interleave /
// vh.Yield). Each thread runs on its own host goroutine so that it keeps its interpreter
// stack; exactly one of them (or the path's own goroutine) runs at any time, control is
// handed over explicitly, so the interpreter state needs no locking. The scheduling
// decision at a Yield is a fresh symbolic boolean: the explorer covers both outcomes, i.e.
// every interleaving at that granularity within the preemption bound.

type coKilled struct{}

type coThread struct {
	wake     chan bool // true: run, false: die
	done     bool
	started  bool
	depth    int
	curFrame *frame
	curPos   token.Pos
}

type coState struct {
	t        [2]*coThread
	cur      int
	main     chan struct{}
	panicked bool
	panicVal interface{}
	preempt  int
	held     map[*value]int // mutex -> thread holding it
	rw       map[*value]*rwState
}

func (in *Interp) co() *coState {
	if c, ok := in.extra["co"].(*coState); ok {
		return c
	}
	return nil
}

func (in *Interp) coSave(th *coThread) { th.depth, th.curFrame, th.curPos = in.depth, in.curFrame, in.curPos }
func (in *Interp) coLoad(th *coThread) { in.depth, in.curFrame, in.curPos = th.depth, th.curFrame, th.curPos }

// coSwitch hands control from the running thread to the other one and returns when control
// comes back.
func (in *Interp) coSwitch(c *coState) {
	me := c.cur
	other := 1 - me
	in.coSave(c.t[me])
	c.cur = other
	in.coLoad(c.t[other])
	c.t[other].wake <- true
	if !<-c.t[me].wake {
		panic(coKilled{})
	}
	in.coLoad(c.t[me])
}

func (in *Interp) interleave(fr *frame, fns [2]value) {
	if in.co() != nil {
		panic(unsupported{"nested vh.Interleave"})
	}
	c := &coState{main: make(chan struct{}), held: map[*value]int{}, rw: map[*value]*rwState{}}
	in.extra["co"] = c
	in.path.noteAssumption("two threads interleaved at vh.Yield points only (scheduling decisions are symbolic booleans)")
	savedDepth, savedFrame, savedPos := in.depth, in.curFrame, in.curPos
	for i := 0; i < 2; i++ {
		th := &coThread{wake: make(chan bool), depth: in.depth}
		c.t[i] = th
		go func(i int, th *coThread) {
			if !<-th.wake {
				th.done = true
				return
			}
			th.started = true
			defer func() {
				r := recover()
				th.done = true
				if r != nil {
					if _, k := r.(coKilled); k {
						return
					}
					if !c.panicked {
						c.panicked, c.panicVal = true, r
					}
					c.main <- struct{}{}
					return
				}
				o := c.t[1-i]
				if o.done {
					c.main <- struct{}{}
					return
				}
				// the other thread goes on (it has not started, or waits in a Yield / Lock)
				in.coSave(th)
				c.cur = 1 - i
				in.coLoad(o)
				o.wake <- true
			}()
			in.call(nil, 0, fns[i], nil)
		}(i, th)
	}
	c.cur = 0
	c.t[0].wake <- true
	<-c.main
	for _, th := range c.t {
		if !th.done {
			th.wake <- false
		}
	}
	delete(in.extra, "co")
	in.depth, in.curFrame, in.curPos = savedDepth, savedFrame, savedPos
	if c.panicked {
		panic(c.panicVal)
	}
}

// yield is a scheduling point of the running thread.
func (in *Interp) yield(maxPreempt int) {
	c := in.co()
	if c == nil {
		return
	}
	if c.t[1-c.cur].done || c.preempt >= maxPreempt {
		return
	}
	sw := in.newNondet("switch", "bool", smt.Bool)
	if in.branch(sw) {
		c.preempt++
		in.coSwitch(c)
	}
}

func (in *Interp) mutexLock(mu *value) {
	c := in.co()
	if c == nil {
		return
	}
	for {
		h, held := c.held[mu]
		if !held {
			c.held[mu] = c.cur
			return
		}
		if h == c.cur {
			panic(blockedSignal{"sync.Mutex locked twice by the same thread"})
		}
		if c.t[h].done {
			panic(blockedSignal{"sync.Mutex held by a finished thread"})
		}
		// blocked: the holder runs on (forced switch, not a preemption)
		in.coSwitch(c)
	}
}

func (in *Interp) mutexUnlock(mu *value) {
	c := in.co()
	if c == nil {
		return
	}
	delete(c.held, mu)
}

// rwState: a sync.RWMutex between the two threads: the writer (thread index or -1) and each thread's read holds.
type rwState struct {
	writer  int
	readers [2]int
}

func (c *coState) rwOf(mu *value) *rwState {
	st := c.rw[mu]
	if st == nil {
		st = &rwState{writer: -1}
		c.rw[mu] = st
	}
	return st
}

// rwLock: Lock waits for the other thread's read and write holds to be released; taking it while
// holding the same lock (in either mode) blocks for ever, as in Go.
func (in *Interp) rwLock(mu *value) {
	c := in.co()
	if c == nil {
		return
	}
	for {
		st := c.rwOf(mu)
		if st.writer == c.cur || st.readers[c.cur] > 0 {
			panic(blockedSignal{"sync.RWMutex.Lock by a thread that already holds it"})
		}
		o := 1 - c.cur
		if st.writer != o && st.readers[o] == 0 {
			st.writer = c.cur
			return
		}
		if c.t[o].done {
			panic(blockedSignal{"sync.RWMutex held by a finished thread"})
		}
		in.coSwitch(c) // blocked: the holder runs on (forced switch, not a preemption)
	}
}

func (in *Interp) rwUnlock(mu *value) {
	if c := in.co(); c != nil {
		c.rwOf(mu).writer = -1
	}
}

func (in *Interp) rwRLock(mu *value) {
	c := in.co()
	if c == nil {
		return
	}
	for {
		st := c.rwOf(mu)
		if st.writer == c.cur {
			panic(blockedSignal{"sync.RWMutex.RLock by the thread that holds the write lock"})
		}
		if st.writer < 0 {
			st.readers[c.cur]++
			return
		}
		if c.t[st.writer].done {
			panic(blockedSignal{"sync.RWMutex held by a finished thread"})
		}
		in.coSwitch(c)
	}
}

func (in *Interp) rwRUnlock(mu *value) {
	if c := in.co(); c != nil {
		if st := c.rwOf(mu); st.readers[c.cur] > 0 {
			st.readers[c.cur]--
		}
	}
}
