package symex

import (
	"fmt"
	"go/token"
	"go/types"
	"os"
	"path/filepath"
	"strings"

	"bhsverif/smt"
	"bhsverif/sqlm"
)

// Models needed by the export/import kernels (C17): sqlx.Rows over a query result, encoding/csv
// Writer and Reader as record lists (CSV text, quoting and files are outside the model).

type rowsHandle struct {
	cols []sqlm.RCol
	rows []sqlm.RRow
	pos  int
}

type csvWriter struct {
	records [][]value
	file    *fileObj
}

// fileObj: a file of the modelled file system. Its content is a list of CSV records (what the
// export writes and the import reads); gzip is the identity on it.
type fileObj struct {
	records [][]value
	// old: what the file held when it was opened for writing without O_TRUNC / O_APPEND: writes then
	// start at offset 0 and whatever the new content does not cover stays behind it.
	old [][]value
}

// effective is the file's content as a reader sees it (record-level approximation of the byte-level
// overwrite: a longer earlier content leaves its surplus records behind the new ones).
func (f *fileObj) effective() [][]value {
	if len(f.old) > len(f.records) {
		return append(append([][]value{}, f.records...), f.old[len(f.records):]...)
	}
	return f.records
}

// staleTail: earlier content is left behind the new content (for a compressed file: trailing garbage).
func (f *fileObj) staleTail() bool { return len(f.old) > len(f.records) }

const modelCwd = "/vhdb-model/cwd"

// fsKey normalises a path: concrete relative paths are taken relative to the model's working
// directory; a symbolic path (e.g. one that embeds the clock) is identified by its term.
func (in *Interp) fsKey(v value) interface{} {
	if t, ok := v.(*smt.Term); ok {
		if s, ok := in.C.GoString(t); ok {
			v = s
		} else {
			return t
		}
	}
	if b, ok := v.(bstr); ok {
		if s, ok := in.bstrConcrete(b); ok {
			v = s
		}
	}
	s, ok := v.(string)
	if !ok {
		panic(unsupported{"file path of an unsupported form"})
	}
	if !strings.HasPrefix(s, "/") {
		s = modelCwd + "/" + s
	}
	return filepath.Clean(s)
}

func (in *Interp) fs() map[interface{}]*fileObj {
	m, _ := in.extra["fs"].(map[interface{}]*fileObj)
	if m == nil {
		m = map[interface{}]*fileObj{}
		in.extra["fs"] = m
	}
	return m
}

func fileValue(f *fileObj) value {
	var cell value = &opaque{kind: "os.File", data: f}
	return &cell
}

func fileOfValue(v value) *fileObj {
	p, ok := v.(*value)
	if !ok || p == nil {
		panic(targetPanic{msg: "runtime error: invalid memory address or nil pointer dereference (nil *os.File)"})
	}
	o, ok := (*p).(*opaque)
	if !ok || o.kind != "os.File" {
		panic(unsupported{"*os.File that is not a model file"})
	}
	return o.data.(*fileObj)
}
type csvReader struct {
	records [][]value
	pos     int
}

const VHCSV = RepoModule + "/internal/zzverif/vhcsv"

func (in *Interp) strBytes(v value) value {
	// a byte slice that stands for the text v (only ever converted back with string(...))
	return sliceVal{&opaque{kind: "strbytes", data: v}}
}

func (P *Program) registerCSV() {
	X := "github.com/jmoiron/sqlx"
	rowsOf := func(v value) *rowsHandle {
		p := v.(*value)
		if st, ok := (*p).(structure); ok {
			p = st[0].(*value)
		}
		return (*p).(*opaque).data.(*rowsHandle)
	}
	P.reg("(*"+X+".DB).Queryx", func(fr *frame, args []value) value {
		in := fr.in
		st := hDBOf(args[0])
		in.storageOp(fr, st)
		text := in.goStr(args[1], "sql text")
		rel, _ := in.doQuery(st, st.db, text, in.bindArgs(args[2].(sliceVal)))
		cnt := st.db.Count(sqlEnv{in}, rel)
		n := int(in.concretize(cnt, "sql result count").Int64())
		var rows []sqlm.RRow
		if n > 0 {
			rows = in.ordered(st.db, rel, 1)[:n]
		}
		var inner value = &opaque{kind: "sql.Rows", data: &rowsHandle{cols: rel.Cols, rows: rows}}
		rt := deref(fr.fn.Signature.Results().At(0).Type())
		outer := in.zero(rt)
		outer.(structure)[0] = &inner
		return tuple{&outer, iface{}}
	})
	for _, recv := range []string{"(*" + X + ".Rows).", "(*database/sql.Rows)."} {
		P.reg(recv+"Next", func(fr *frame, args []value) value {
			h := rowsOf(args[0])
			if h.pos < len(h.rows) {
				h.pos++
				return fr.in.boolv(true)
			}
			return fr.in.boolv(false)
		})
		P.reg(recv+"Err", func(fr *frame, args []value) value { return iface{} })
		P.reg(recv+"Close", func(fr *frame, args []value) value { return iface{} })
		P.reg(recv+"Columns", func(fr *frame, args []value) value {
			var out sliceVal
			for _, c := range rowsOf(args[0]).cols {
				out = append(out, c.Name)
			}
			return tuple{out, iface{}}
		})
		P.reg(recv+"ColumnTypes", func(fr *frame, args []value) value {
			var out sliceVal
			for range rowsOf(args[0]).cols {
				out = append(out, (*value)(nil))
			}
			return tuple{out, iface{}}
		})
		P.reg(recv+"Scan", func(fr *frame, args []value) value {
			in := fr.in
			h := rowsOf(args[0])
			if h.pos == 0 || h.pos > len(h.rows) {
				return in.mkError("sql: Scan called without calling Next")
			}
			row := h.rows[h.pos-1]
			dests := args[1].(sliceVal)
			if len(dests) != len(h.cols) {
				return in.mkError(fmt.Sprintf("sql: expected %d destination arguments in Scan, not %d", len(h.cols), len(dests)))
			}
			for i, d := range dests {
				di := d.(iface)
				dp := di.v.(*value)
				et := deref(di.t)
				if et.String() == "database/sql.RawBytes" {
					// the text form of the column value
					v := row.Vals[i]
					var text value
					switch v.K {
					case sqlm.KStr:
						text = in.normStr(v.T)
					case sqlm.KInt, sqlm.KTime:
						text = in.normStr(in.C.StrDec(in.C.BV2Int(v.T)))
					default:
						panic(unsupported{"sql: RawBytes of " + v.K.String()})
					}
					if in.branch(v.Null) {
						*dp = sliceVal(nil)
					} else {
						*dp = in.strBytes(text)
					}
					continue
				}
				v, bad := in.fromSQL(row.Vals[i], et)
				if in.branch(bad) {
					return in.mkError("sql: Scan error: converting NULL is unsupported")
				}
				*dp = v
			}
			return iface{}
		})
	}
	// ---- encoding/csv as record lists
	P.reg("encoding/csv.NewWriter", func(fr *frame, args []value) value {
		w := &csvWriter{}
		if len(args) > 0 {
			if dst, ok := args[0].(iface); ok && dst.t != nil {
				if p, ok := dst.v.(*value); ok && p != nil {
					if o, ok := (*p).(*opaque); ok && o.kind == "os.File" {
						w.file = o.data.(*fileObj)
					}
				}
			}
		}
		var cell value = &opaque{kind: "csv.Writer", data: w}
		return &cell
	})
	P.reg("(*encoding/csv.Writer).Write", func(fr *frame, args []value) value {
		w := (*args[0].(*value)).(*opaque).data.(*csvWriter)
		rec := append([]value{}, args[1].(sliceVal)...)
		w.records = append(w.records, rec)
		if w.file != nil {
			w.file.records = append(w.file.records, rec)
		}
		return iface{}
	})
	// ---- a small file system: path -> record list
	P.reg("os.TempDir", func(fr *frame, args []value) value { return "/vhdb-model/tmp" })
	P.reg("os.Getwd", func(fr *frame, args []value) value { return tuple{modelCwd, iface{}} })
	P.reg("os.Create", func(fr *frame, args []value) value {
		in := fr.in
		f := &fileObj{}
		in.fs()[in.fsKey(args[0])] = f
		in.path.noteAssumption("files are record lists in a model file system (os.Create/Open/Remove, csv, gzip = identity)")
		return tuple{fileValue(f), iface{}}
	})
	P.reg("os.OpenFile", func(fr *frame, args []value) value {
		in := fr.in
		ft, ok := args[1].(*smt.Term)
		if !ok || !ft.IsConst() {
			panic(unsupported{"os.OpenFile with symbolic flags"})
		}
		flag := int(ft.I64())
		k := in.fsKey(args[0])
		in.path.noteAssumption("files are record lists in a model file system (os.Create/Open/OpenFile/Remove, csv, gzip = identity); opening an existing file for writing without O_TRUNC leaves the records the new content does not cover")
		var nilFile *value
		ex, exists := in.fs()[k]
		if !exists {
			if flag&os.O_CREATE == 0 {
				return tuple{nilFile, in.mkError("open: no such file or directory")}
			}
			f := &fileObj{}
			in.fs()[k] = f
			return tuple{fileValue(f), iface{}}
		}
		if flag&os.O_CREATE != 0 && flag&os.O_EXCL != 0 {
			return tuple{nilFile, in.mkError("open: file exists")}
		}
		writing := flag&(os.O_WRONLY|os.O_RDWR) != 0
		switch {
		case !writing:
			return tuple{fileValue(ex), iface{}}
		case flag&os.O_TRUNC != 0:
			f := &fileObj{}
			in.fs()[k] = f
			return tuple{fileValue(f), iface{}}
		case flag&os.O_APPEND != 0:
			f := &fileObj{records: append([][]value{}, ex.effective()...)}
			in.fs()[k] = f
			return tuple{fileValue(f), iface{}}
		default:
			f := &fileObj{old: ex.effective()}
			in.fs()[k] = f
			return tuple{fileValue(f), iface{}}
		}
	})
	P.reg("os.Open", func(fr *frame, args []value) value {
		in := fr.in
		if f, ok := in.fs()[in.fsKey(args[0])]; ok {
			return tuple{fileValue(f), iface{}}
		}
		var nilFile *value
		return tuple{nilFile, in.mkError("open: no such file or directory")}
	})
	// os.Stat / os.Lstat over the model file system; the only thing callers learn is existence
	notExist := func(in *Interp) iface { return in.mkError("stat: no such file or directory") }
	stat := func(fr *frame, args []value) value {
		in := fr.in
		if t, ok := args[0].(*smt.Term); ok {
			if _, conc := in.C.GoString(t); !conc {
				// an arbitrary path: no file of the model file system carries a symbolic name unless it was created under it
				if _, ok := in.fs()[t]; !ok {
					in.path.noteAssumption("a file named by an arbitrary string does not exist (the model file system holds only the files the harness or the code created)")
					return tuple{iface{}, notExist(in)}
				}
			}
		}
		if _, ok := in.fs()[in.fsKey(args[0])]; ok {
			var cell value = &opaque{kind: "os.FileInfo"}
			return tuple{iface{t: in.synthType("os.fileStat"), v: &cell}, iface{}}
		}
		return tuple{iface{}, notExist(in)}
	}
	P.reg("os.Stat", stat)
	P.reg("os.Lstat", stat)
	isNotExist := func(fr *frame, args []value) value {
		e, _ := args[0].(iface)
		for e.t != nil {
			ee, ok := e.v.(*engineErr)
			if !ok {
				return fr.in.boolv(false)
			}
			if m, ok := ee.msg.(string); ok && strings.HasSuffix(m, "no such file or directory") {
				return fr.in.boolv(true)
			}
			if len(ee.cause) == 0 {
				break
			}
			e = ee.cause[0]
		}
		return fr.in.boolv(false)
	}
	P.reg("os.IsNotExist", isNotExist)
	P.reg("os.Remove", func(fr *frame, args []value) value {
		in := fr.in
		k := in.fsKey(args[0])
		if _, ok := in.fs()[k]; !ok {
			return in.mkError("remove: no such file or directory")
		}
		delete(in.fs(), k)
		return iface{}
	})
	DBP := RepoModule + "/database"
	P.reg(DBP+".fileExistsAndIsReadable", func(fr *frame, args []value) value {
		_, ok := fr.in.fs()[fr.in.fsKey(args[0])]
		return fr.in.boolv(ok)
	})
	copyFile := func(fr *frame, args []value) value {
		src, dst := fileOfValue(args[0]), fileOfValue(args[1])
		dst.records = append([][]value{}, src.effective()...)
		return iface{}
	}
	for _, n := range []string{"gzipFastCompress", "gzipCompress"} {
		P.reg(DBP+"."+n, copyFile)
	}
	decompress := func(fr *frame, args []value) value {
		if fileOfValue(args[0]).staleTail() {
			return fr.in.mkError("gzip: invalid header") // earlier bytes left behind the compressed stream
		}
		return copyFile(fr, args)
	}
	for _, n := range []string{"gzipDecompress", "gzipDecompressWithBuffer"} {
		P.reg(DBP+"."+n, decompress)
	}
	for n, f := range map[string]func(string) string{"Base": filepath.Base, "Dir": filepath.Dir, "Ext": filepath.Ext} {
		f := f
		P.reg("path/filepath."+n, func(fr *frame, args []value) value { return f(fr.in.goStr(args[0], "path")) })
	}
	P.reg("path/filepath.Clean", func(fr *frame, args []value) value {
		if s, ok := args[0].(string); ok {
			return filepath.Clean(s)
		}
		return args[0]
	})
	P.reg("path/filepath.Join", func(fr *frame, args []value) value {
		in := fr.in
		parts := args[0].(sliceVal)
		all := true
		var ss []string
		for _, p := range parts {
			if s, ok := p.(string); ok {
				ss = append(ss, s)
			} else if t, ok := p.(*smt.Term); ok {
				if s, ok := in.C.GoString(t); ok {
					ss = append(ss, s)
				} else {
					all = false
				}
			} else {
				all = false
			}
		}
		if all {
			return filepath.Join(ss...)
		}
		// a symbolic element: plain concatenation with separators (elements are clean names)
		var out value = ""
		for i, p := range parts {
			if i > 0 {
				out = in.strBinop(token.ADD, out, "/")
			}
			out = in.strBinop(token.ADD, out, p)
		}
		return out
	})
	P.reg("(*encoding/csv.Writer).Flush", func(fr *frame, args []value) value { return nil })
	P.reg("(*encoding/csv.Writer).Error", func(fr *frame, args []value) value { return iface{} })
	P.reg("(*encoding/csv.Reader).Read", func(fr *frame, args []value) value {
		in := fr.in
		r := (*args[0].(*value)).(*opaque).data.(*csvReader)
		if r.pos >= len(r.records) {
			g := in.P.Pkgs["io"].Var("EOF")
			return tuple{sliceVal(nil), (*in.globalAddr(g)).(iface)}
		}
		rec := r.records[r.pos]
		r.pos++
		return tuple{sliceVal(append([]value{}, rec...)), iface{}}
	})
	P.reg(VHCSV+".NewWriter", P.intrinsics["encoding/csv.NewWriter"])
	P.reg(VHCSV+".Records", func(fr *frame, args []value) value {
		w := (*args[0].(*value)).(*opaque).data.(*csvWriter)
		var out sliceVal
		for _, r := range w.records {
			out = append(out, sliceVal(append([]value{}, r...)))
		}
		return out
	})
	P.reg(VHCSV+".NewReader", func(fr *frame, args []value) value {
		var recs [][]value
		for _, r := range args[0].(sliceVal) {
			recs = append(recs, append([]value{}, r.(sliceVal)...))
		}
		var cell value = &opaque{kind: "csv.Reader", data: &csvReader{records: recs}}
		return &cell
	})
	// an open file is a record list too (only Seek and csv.NewReader touch it)
	P.reg(VHCSV+".File", func(fr *frame, args []value) value {
		var recs [][]value
		for _, r := range args[0].(sliceVal) {
			recs = append(recs, append([]value{}, r.(sliceVal)...))
		}
		return fileValue(&fileObj{records: recs})
	})
	P.reg("(*os.File).Seek", func(fr *frame, args []value) value { return tuple{fr.in.intv(0), iface{}} })
	P.reg("(*os.File).Close", func(fr *frame, args []value) value { return iface{} })
	P.reg("encoding/csv.NewReader", func(fr *frame, args []value) value {
		src := args[0].(iface)
		if p, ok := src.v.(*value); ok && p != nil {
			if o, ok := (*p).(*opaque); ok && o.kind == "os.File" {
				var cell value = &opaque{kind: "csv.Reader", data: &csvReader{records: o.data.(*fileObj).effective()}}
				return &cell
			}
		}
		panic(unsupported{"csv.NewReader over something that is not a harness file"})
	})
	_ = types.Typ
	_ = smt.Bool
}
