package symex

import (
	"fmt"
	"go/types"
	"path"
	"reflect"
	"sort"
	"strings"

	"bhsverif/smt"

	"golang.org/x/tools/go/ssa"
)

const ginPkg = "github.com/gin-gonic/gin"
const VHGIN = RepoModule + "/internal/zzverif/vhgin"

type ginRoute struct {
	method, path string
	chain        []value
}

type ginResp struct {
	status *smt.Term // BV64
	body   value     // iface
}

// ginCtx is the model of one request/response exchange.
type ginCtx struct {
	params    map[string]value
	query     map[string]value
	headers   map[string]value
	body      value // iface holding the bound value, or nil
	bindFails bool
	keys      map[string]value
	status    *smt.Term // set by Status()/first write
	committed bool
	docs      []ginResp
	aborted   bool
	chain     []value
	index     int
	opaque    bool
}

func (in *Interp) ginRoutes(engine *value) *[]ginRoute {
	key := fmt.Sprintf("ginroutes:%p", engine)
	r, _ := in.extra[key].(*[]ginRoute)
	if r == nil {
		r = &[]ginRoute{}
		in.extra[key] = r
	}
	return r
}

func (in *Interp) ginCtxOf(v value) *ginCtx {
	p := v.(*value)
	if p == nil {
		panic(targetPanic{msg: "runtime error: invalid memory address or nil pointer dereference (nil *gin.Context)"})
	}
	c, _ := in.extra[fmt.Sprintf("ginctx:%p", p)].(*ginCtx)
	if c == nil {
		panic(unsupported{"gin.Context not created by vhgin.Serve"})
	}
	return c
}

func structField(t types.Type, name string) int {
	st := t.Underlying().(*types.Struct)
	for i := 0; i < st.NumFields(); i++ {
		if st.Field(i).Name() == name {
			return i
		}
	}
	panic("no field " + name + " in " + t.String())
}

func (in *Interp) ginWrite(c *ginCtx, code *smt.Term, body value) {
	if !c.committed {
		c.status = code
		c.committed = true
	}
	c.docs = append(c.docs, ginResp{status: code, body: body})
}

func (P *Program) registerGinCompare() {
	P.reg(VHGIN+".BodyIs", func(fr *frame, args []value) value {
		in := fr.in
		a := args[0].(structure)
		respT := fr.fn.Signature.Params().At(0).Type()
		ba := a[structField(respT, "Body")].(iface)
		if ba.t == nil {
			return in.C.False()
		}
		docs := ba.v.(*opaque).data.(sliceVal)
		if len(docs) != 1 {
			return in.C.False()
		}
		return in.deepEq(docs[0], args[1])
	})
	P.reg(VHGIN+".SameAnswer", func(fr *frame, args []value) value {
		in := fr.in
		a, b := args[0].(structure), args[1].(structure)
		respT := fr.fn.Signature.Params().At(0).Type()
		st := in.equals(nil, a[structField(respT, "Status")], b[structField(respT, "Status")])
		ba := a[structField(respT, "Body")].(iface)
		bb := b[structField(respT, "Body")].(iface)
		if ba.t == nil || bb.t == nil {
			return in.C.And(st, in.C.BoolConst(ba.t == nil && bb.t == nil))
		}
		return in.C.And(st, in.deepEq(ba.v.(*opaque).data.(sliceVal), bb.v.(*opaque).data.(sliceVal)))
	})
}

func (P *Program) registerGin() {
	C := "(*" + ginPkg + ".Context)."
	ctxArg := func(fr *frame, args []value) *ginCtx { return fr.in.ginCtxOf(args[0]) }
	strOr := func(m map[string]value, k string) (value, bool) {
		v, ok := m[k]
		if !ok {
			return "", false
		}
		return v, true
	}
	P.reg(C+"Param", func(fr *frame, args []value) value {
		v, _ := strOr(ctxArg(fr, args).params, fr.in.goStr(args[1], "param name"))
		return v
	})
	P.reg(C+"Query", func(fr *frame, args []value) value {
		v, _ := strOr(ctxArg(fr, args).query, fr.in.goStr(args[1], "query name"))
		return v
	})
	P.reg(C+"GetQuery", func(fr *frame, args []value) value {
		v, ok := strOr(ctxArg(fr, args).query, fr.in.goStr(args[1], "query name"))
		return tuple{v, fr.in.boolv(ok)}
	})
	P.reg(C+"DefaultQuery", func(fr *frame, args []value) value {
		v, ok := strOr(ctxArg(fr, args).query, fr.in.goStr(args[1], "query name"))
		if !ok {
			return args[2]
		}
		return v
	})
	P.reg(C+"GetHeader", func(fr *frame, args []value) value {
		v, _ := strOr(ctxArg(fr, args).headers, fr.in.goStr(args[1], "header name"))
		return v
	})
	bind := func(must bool) intrinsic {
		return func(fr *frame, args []value) value {
			in := fr.in
			c := ctxArg(fr, args)
			if c.bindFails || c.body == nil {
				if must {
					// MustBindWith: AbortWithError(400): status written, chain aborted
					if !c.committed {
						c.status = in.C.BVConstI(400, 64)
						c.committed = true
					}
					c.aborted = true
				}
				return in.mkError("binding failed: malformed or missing body")
			}
			dst := args[1].(iface)
			dp := dst.v.(*value)
			bv := c.body.(iface)
			if !types.Identical(deref(dst.t), bv.t) {
				panic(unsupported{fmt.Sprintf("vhgin: request body of type %v bound into %v", bv.t, deref(dst.t))})
			}
			*dp = copyVal(bv.v)
			return iface{}
		}
	}
	// ShouldBindQuery / BindQuery: the query string bound into a struct by its `form` tags
	// ("name,default=v") with `binding:"required"` (a zero value after binding is an error). Modelled
	// for string and integer fields; an unparsable number is a binding error.
	bindQuery := func(must bool) intrinsic {
		return func(fr *frame, args []value) value {
			in := fr.in
			c := ctxArg(fr, args)
			fail := func(msg string) value {
				if must {
					if !c.committed {
						c.status = in.C.BVConstI(400, 64)
						c.committed = true
					}
					c.aborted = true
				}
				return in.mkError(msg)
			}
			dst := args[1].(iface)
			dp, ok := dst.v.(*value)
			if !ok || dp == nil {
				return fail("binding: nil target")
			}
			st, ok := deref(dst.t).Underlying().(*types.Struct)
			if !ok {
				panic(unsupported{"ShouldBindQuery into a non-struct"})
			}
			sv := (*dp).(structure)
			for i := 0; i < st.NumFields(); i++ {
				f := st.Field(i)
				tag := reflect.StructTag(st.Tag(i))
				form, opts, _ := strings.Cut(tag.Get("form"), ",")
				if form == "" {
					form = f.Name()
				}
				if form == "-" {
					continue
				}
				var def value
				for _, o := range strings.Split(opts, ",") {
					if strings.HasPrefix(o, "default=") {
						def = strings.TrimPrefix(o, "default=")
					}
				}
				v, present := c.query[form]
				if !present {
					v = def
				} else if def != nil && in.branch(in.equals(types.Typ[types.String], v, "")) {
					v = def
				}
				b, isBasic := f.Type().Underlying().(*types.Basic)
				switch {
				case v == nil:
					// absent without default: the field keeps its value
				case isBasic && b.Info()&types.IsString != 0:
					sv[i] = v
				case isBasic && b.Info()&types.IsInteger != 0:
					if !in.branch(in.C.Not(in.equals(types.Typ[types.String], v, ""))) {
						sv[i] = in.zero(f.Type()) // an empty value binds as zero
						break
					}
					res := in.parseInt(v, 64, b.Info()&types.IsUnsigned == 0, "form binding").(tuple)
					if e := res[1].(iface); e.t != nil {
						return fail("binding: " + form + " is not a number")
					}
					n := res[0].(*smt.Term)
					if w := in.widthOf(f.Type()); w < 64 {
						n = in.C.Extract(n, w-1, 0)
					}
					sv[i] = n
				default:
					panic(unsupported{"ShouldBindQuery into a field of type " + f.Type().String()})
				}
				if strings.Contains(","+tag.Get("binding")+",", ",required,") {
					if in.branch(in.equals(f.Type(), sv[i], in.zero(f.Type()))) {
						return fail("binding: " + form + " is required")
					}
				}
			}
			return iface{}
		}
	}
	P.reg(C+"ShouldBindQuery", bindQuery(false))
	P.reg(C+"BindQuery", bindQuery(true))
	P.reg(C+"Bind", bind(true))
	P.reg(C+"BindJSON", bind(true))
	P.reg(C+"ShouldBind", bind(false))
	P.reg(C+"ShouldBindJSON", bind(false))
	P.reg(C+"JSON", func(fr *frame, args []value) value {
		fr.in.ginWrite(ctxArg(fr, args), tm(args[1]), args[2])
		return nil
	})
	P.reg(C+"String", func(fr *frame, args []value) value {
		fr.in.ginWrite(ctxArg(fr, args), tm(args[1]), iface{t: types.Typ[types.String], v: args[2]})
		return nil
	})
	P.reg(C+"Status", func(fr *frame, args []value) value {
		c := ctxArg(fr, args)
		if !c.committed {
			c.status = tm(args[1])
		}
		return nil
	})
	P.reg(C+"AbortWithStatusJSON", func(fr *frame, args []value) value {
		c := ctxArg(fr, args)
		c.aborted = true
		fr.in.ginWrite(c, tm(args[1]), args[2])
		return nil
	})
	P.reg(C+"AbortWithStatus", func(fr *frame, args []value) value {
		c := ctxArg(fr, args)
		c.aborted = true
		if !c.committed {
			c.status = tm(args[1])
			c.committed = true
		}
		return nil
	})
	P.reg(C+"Abort", func(fr *frame, args []value) value { ctxArg(fr, args).aborted = true; return nil })
	P.reg(C+"IsAborted", func(fr *frame, args []value) value { return fr.in.boolv(ctxArg(fr, args).aborted) })
	P.reg(C+"Set", func(fr *frame, args []value) value {
		ctxArg(fr, args).keys[fr.in.goStr(args[1], "context key")] = args[2]
		return nil
	})
	P.reg(C+"Get", func(fr *frame, args []value) value {
		v, ok := ctxArg(fr, args).keys[fr.in.goStr(args[1], "context key")]
		if !ok {
			return tuple{iface{}, fr.in.boolv(false)}
		}
		return tuple{v, fr.in.boolv(true)}
	})
	P.reg(C+"Next", func(fr *frame, args []value) value {
		fr.in.ginRunChain(fr, args[0].(*value), ctxArg(fr, args))
		return nil
	})
	P.reg(C+"Header", func(fr *frame, args []value) value { return nil })
	// wrapped net/http handlers are opaque: they answer 200 with a non-JSON body
	wrap := func(fr *frame, args []value) value {
		return &native{name: "gin.wrapped", fn: func(fr2 *frame, a []value) value {
			c := fr2.in.ginCtxOf(a[0])
			c.opaque = true
			if !c.committed {
				c.status = fr2.in.C.BVConstI(200, 64)
				c.committed = true
			}
			return nil
		}}
	}
	P.reg(ginPkg+".WrapF", wrap)
	P.reg(ginPkg+".WrapH", wrap)
	P.reg("github.com/swaggo/gin-swagger.WrapHandler", wrap)
	// route registration: gin's RouterGroup code runs from source down to here
	P.reg("(*"+ginPkg+".Engine).addRoute", func(fr *frame, args []value) value {
		in := fr.in
		rs := in.ginRoutes(args[0].(*value))
		*rs = append(*rs, ginRoute{method: in.goStr(args[1], "method"), path: in.goStr(args[2], "route path"), chain: append([]value{}, args[3].(sliceVal)...)})
		return nil
	})
	P.reg("path.Join", func(fr *frame, args []value) value {
		var parts []string
		for _, p := range args[0].(sliceVal) {
			parts = append(parts, fr.in.goStr(p, "path element"))
		}
		return path.Join(parts...)
	})
	P.reg(ginPkg+".debugPrintRoute", func(fr *frame, args []value) value { return nil })
	P.reg(ginPkg+".debugPrint", func(fr *frame, args []value) value { return nil })
	P.reg(ginPkg+".assert1", func(fr *frame, args []value) value {
		if !fr.in.branch(tm(args[0])) {
			panic(targetPanic{v: args[1]})
		}
		return nil
	})

	// ---- centrifuge node: only the connect-handshake handler is modelled
	cfNode := "(*github.com/centrifugal/centrifuge.Node)."
	P.reg(cfNode+"OnConnecting", func(fr *frame, args []value) value {
		fr.in.extra[fmt.Sprintf("cfconnecting:%p", args[0].(*value))] = args[1]
		return nil
	})
	P.reg(cfNode+"OnConnect", func(fr *frame, args []value) value { return nil })
	VHWS := RepoModule + "/internal/zzverif/vhws"
	P.reg(VHWS+".NewNode", func(fr *frame, args []value) value {
		var cell value = &opaque{kind: "centrifuge.Node"}
		return &cell
	})
	P.reg(VHWS+".Connecting", func(fr *frame, args []value) value {
		in := fr.in
		h := in.extra[fmt.Sprintf("cfconnecting:%p", args[0].(*value))]
		if h == nil {
			panic(unsupported{"no OnConnecting handler registered on this node"})
		}
		evT := in.P.namedType("github.com/centrifugal/centrifuge.ConnectEvent")
		ev := in.zero(evT).(structure)
		ev[structField(evT, "Token")] = args[1]
		res := in.call(fr, 0, h, []value{in.call(fr, 0, &native{fn: in.P.intrinsics["context.Background"]}, nil), ev}).(tuple)
		return in.boolv(res[1].(iface).t == nil)
	})

	// ---- vhgin
	P.reg(VHGIN+".NewEngine", func(fr *frame, args []value) value {
		in := fr.in
		et := deref(fr.fn.Signature.Results().At(0).Type())
		eng := in.zero(et)
		var cell value = eng
		ep := &cell
		es := eng.(structure)
		rgIdx := structField(et, "RouterGroup")
		rgT := et.Underlying().(*types.Struct).Field(rgIdx).Type()
		rg := es[rgIdx].(structure)
		rg[structField(rgT, "basePath")] = "/"
		rg[structField(rgT, "engine")] = ep
		rg[structField(rgT, "root")] = in.C.True()
		return ep
	})
	P.reg(VHGIN+".Routes", func(fr *frame, args []value) value {
		in := fr.in
		rs := *in.ginRoutes(args[0].(*value))
		sorted := append([]ginRoute{}, rs...)
		sort.SliceStable(sorted, func(i, j int) bool {
			if sorted[i].path != sorted[j].path {
				return sorted[i].path < sorted[j].path
			}
			return sorted[i].method < sorted[j].method
		})
		var out sliceVal
		for _, r := range sorted {
			out = append(out, structure{r.method, r.path})
		}
		return out
	})
	P.reg(VHGIN+".Serve", func(fr *frame, args []value) value {
		in := fr.in
		method, pattern := in.goStr(args[1], "method"), in.goStr(args[2], "route pattern")
		var route *ginRoute
		for i, r := range *in.ginRoutes(args[0].(*value)) {
			if r.method == method && r.path == pattern {
				route = &(*in.ginRoutes(args[0].(*value)))[i]
			}
		}
		if route == nil {
			panic(unsupported{"vhgin.Serve: no route " + method + " " + pattern})
		}
		reqT := fr.fn.Signature.Params().At(3).Type()
		req := args[3].(structure)
		toMap := func(v value) map[string]value {
			out := map[string]value{}
			if m, ok := v.(*smap); ok && m != nil {
				for i, k := range m.keys {
					if k != nil {
						out[in.goStr(k, "request map key")] = m.vals[i]
					}
				}
			}
			return out
		}
		c := &ginCtx{
			params:  toMap(req[structField(reqT, "Params")]),
			query:   toMap(req[structField(reqT, "Query")]),
			headers: toMap(req[structField(reqT, "Headers")]),
			keys:    map[string]value{},
			chain:   route.chain,
			status:  in.C.BVConstI(200, 64),
		}
		// every :name / *name of the pattern must be supplied
		for _, seg := range strings.Split(pattern, "/") {
			if strings.HasPrefix(seg, ":") || strings.HasPrefix(seg, "*") {
				if _, ok := c.params[seg[1:]]; !ok {
					panic(unsupported{"vhgin.Serve: path parameter " + seg + " not supplied"})
				}
			}
		}
		// a real router only reaches this route with non-empty, slash-free segments
		for _, v := range c.params {
			if s, ok := v.(string); ok {
				if s == "" || strings.Contains(s, "/") {
					panic(pathEnd{"path parameter does not address this route"})
				}
			} else {
				in.Assume(in.C.Not(in.C.Eq(in.strTerm(v), in.C.StrConst(""))))
				in.path.noteAssumption("symbolic path parameters are non-empty and contain no '/' (otherwise the request addresses another route)")
			}
		}
		if b := req[structField(reqT, "Body")].(iface); b.t != nil {
			c.body = b
		}
		if in.branch(tm(req[structField(reqT, "BindFails")])) {
			c.bindFails = true
		}
		ctxT := in.P.namedType(ginPkg + ".Context")
		var cell value = in.zero(ctxT)
		cp := &cell
		in.extra[fmt.Sprintf("ginctx:%p", cp)] = c
		panicked := false
		func() {
			defer func() {
				if r := recover(); r != nil {
					if tp, ok := r.(targetPanic); ok {
						// gin.Recovery turns a handler panic into a 500
						panicked = true
						in.path.notes = append(in.path.notes, "handler panic recovered by gin: "+in.panicMsg(tp))
						if !c.committed {
							c.status = in.C.BVConstI(500, 64)
							c.committed = true
						}
						c.aborted = true
						return
					}
					panic(r)
				}
			}()
			c.index = -1
			in.ginRunChain(fr, cp, c)
		}()
		// Resp
		respT := fr.fn.Signature.Results().At(0).Type()
		resp := in.zero(respT).(structure)
		resp[structField(respT, "Status")] = c.status
		resp[structField(respT, "Documents")] = in.intv(int64(len(c.docs)))
		resp[structField(respT, "Aborted")] = in.boolv(c.aborted)
		resp[structField(respT, "Panicked")] = in.boolv(panicked)
		resp[structField(respT, "Opaque")] = in.boolv(c.opaque)
		var bodies sliceVal
		for _, d := range c.docs {
			bodies = append(bodies, d.body)
		}
		resp[structField(respT, "Body")] = iface{t: types.Typ[types.UnsafePointer], v: &opaque{kind: "ginbody", data: bodies}}
		if n := len(c.docs); n > 0 {
			code, msg := in.ginErrFields(fr, c.docs[n-1].body)
			resp[structField(respT, "ErrCode")] = code
			resp[structField(respT, "ErrMsg")] = msg
		}
		return resp
	})
}

// deepEq compares two values structurally (pointers are followed, slices compared by length
// and elements): used to compare the documents of two responses.
func (in *Interp) deepEq(x, y value) *smt.Term {
	c := in.C
	switch xv := x.(type) {
	case nil:
		return c.BoolConst(y == nil)
	case *value:
		yv, ok := y.(*value)
		if !ok {
			return c.False()
		}
		if xv == nil || yv == nil {
			return c.BoolConst(xv == nil && yv == nil)
		}
		return in.deepEq(*xv, *yv)
	case sliceVal:
		yv, ok := y.(sliceVal)
		if !ok || len(xv) != len(yv) {
			return c.False()
		}
		cs := []*smt.Term{}
		for i := range xv {
			cs = append(cs, in.deepEq(xv[i], yv[i]))
		}
		return c.And(cs...)
	case array:
		yv, ok := y.(array)
		if !ok || len(xv) != len(yv) {
			return c.False()
		}
		cs := []*smt.Term{}
		for i := range xv {
			cs = append(cs, in.deepEq(xv[i], yv[i]))
		}
		return c.And(cs...)
	case structure:
		yv, ok := y.(structure)
		if !ok || len(xv) != len(yv) {
			return c.False()
		}
		cs := []*smt.Term{}
		for i := range xv {
			cs = append(cs, in.deepEq(xv[i], yv[i]))
		}
		return c.And(cs...)
	case iface:
		yv, ok := y.(iface)
		if !ok {
			return c.False()
		}
		if xv.t == nil || yv.t == nil {
			return c.BoolConst(xv.t == nil && yv.t == nil)
		}
		if !types.Identical(xv.t, yv.t) {
			return c.False()
		}
		return in.deepEq(xv.v, yv.v)
	case *smap:
		yv, ok := y.(*smap)
		if !ok {
			return c.False()
		}
		if xv == nil || yv == nil {
			return c.BoolConst(xv == nil && yv == nil)
		}
		if len(xv.keys) != len(yv.keys) {
			return c.False()
		}
		cs := []*smt.Term{}
		for i := range xv.keys {
			cs = append(cs, in.deepEq(xv.keys[i], yv.keys[i]), in.deepEq(xv.vals[i], yv.vals[i]))
		}
		return c.And(cs...)
	case *opaque:
		yv, ok := y.(*opaque)
		if !ok {
			return c.False()
		}
		if xv.kind == "json" && yv.kind == "json" {
			return in.deepEq(xv.data.(value), yv.data.(value))
		}
		return c.BoolConst(xv == yv)
	case *smt.Term, string, bstr, bigVal, timeVal, float64:
		switch y.(type) {
		case *smt.Term, string, bstr, bigVal, timeVal, float64:
			return in.equals(nil, x, y)
		}
		return c.False()
	}
	panic(unsupported{fmt.Sprintf("deepEq on %T", x)})
}

func (in *Interp) panicMsg(tp targetPanic) string {
	if tp.v != nil {
		return in.panicString(tp.v)
	}
	return tp.msg
}

func (in *Interp) ginRunChain(fr *frame, cp *value, c *ginCtx) {
	c.index++
	for c.index < len(c.chain) && !c.aborted {
		h := c.chain[c.index]
		in.call(fr, 0, h, []value{cp})
		c.index++
	}
}

// ginErrFields extracts the "code" and "message" of a JSON document when it is an error object
// (a struct with json tags code / message).
func (in *Interp) ginErrFields(fr *frame, body value) (value, value) {
	b, ok := body.(iface)
	if !ok || b.t == nil {
		return "", ""
	}
	t := b.t
	v := b.v
	if p, ok := t.Underlying().(*types.Pointer); ok {
		pv := v.(*value)
		if pv == nil {
			return "", ""
		}
		t, v = p.Elem(), *pv
	}
	st, ok := t.Underlying().(*types.Struct)
	if !ok {
		return "", ""
	}
	sv, ok := v.(structure)
	if !ok {
		return "", ""
	}
	var code, msg value = "", ""
	for i := 0; i < st.NumFields(); i++ {
		tag := jsonTag(st.Tag(i))
		if tag == "code" {
			code = sv[i]
		}
		if tag == "message" {
			msg = sv[i]
		}
	}
	return code, msg
}

func jsonTag(tag string) string {
	i := strings.Index(tag, `json:"`)
	if i < 0 {
		return ""
	}
	rest := tag[i+6:]
	j := strings.IndexAny(rest, `",`)
	if j < 0 {
		return rest
	}
	return rest[:j]
}

var _ = ssa.NaiveForm
