// Package symex is a path-enumerating symbolic executor over go/ssa.
// Scalars are smt terms (constants fold eagerly), the heap is the host heap:
// a pointer is a *value cell, so aliasing and nil-ness are always concrete.
package symex

import (
	"fmt"
	"go/types"
	"math/big"
	"strings"

	"bhsverif/smt"

	"golang.org/x/tools/go/ssa"
)

type value interface{}

type tuple []value
type array []value
type structure []value

type iface struct {
	t types.Type
	v value
}

type closure struct {
	Fn  *ssa.Function
	Env []value
}

// native is a host-implemented function value (bound intrinsic).
type native struct {
	name string
	fn   func(fr *frame, args []value) value
}

// bigVal is the value of a math/big.Int (and of named types with the same underlying type).
type bigVal struct{ t *smt.Term } // Int sort; nil means zero

// timeVal is the value of a time.Time at one-second resolution.
type timeVal struct{ sec *smt.Term } // BV64 unix seconds

// opaque is a host object behind a pointer or interface (db handles, loggers, contexts ...).
type opaque struct {
	kind string
	data interface{}
}

type chanVal struct {
	buf    []value
	cap    int
	closed bool
}

// smap: ordered association list; keys are canonicalised when concrete.
type smap struct {
	keyT  types.Type
	keys  []value
	vals  []value
	index map[string]int
}

type sliceVal = []value

// bstr is a byte-level string (concrete length, possibly symbolic bytes).
type bstr struct{ b []value }

type bad struct{}

const zeroTimeUnix = -62135596800

func (in *Interp) bigOf(v value) *smt.Term {
	b := v.(bigVal)
	if b.t == nil {
		return in.C.IntConstI(0)
	}
	return b.t
}

func isBigIntType(t types.Type) bool {
	st, ok := t.Underlying().(*types.Struct)
	if !ok || st.NumFields() != 2 {
		return false
	}
	return st.Field(0).Name() == "neg" && st.Field(1).Name() == "abs" && st.Field(0).Pkg() != nil && st.Field(0).Pkg().Path() == "math/big"
}

func isTimeType(t types.Type) bool {
	n, ok := types.Unalias(t).(*types.Named)
	return ok && n.Obj().Pkg() != nil && n.Obj().Pkg().Path() == "time" && n.Obj().Name() == "Time"
}

func intWidth(b *types.Basic) (w int, signed bool, ok bool) {
	switch b.Kind() {
	case types.Int8:
		return 8, true, true
	case types.Int16:
		return 16, true, true
	case types.Int32, types.UntypedRune:
		return 32, true, true
	case types.Int64, types.Int, types.UntypedInt:
		return 64, true, true
	case types.Uint8:
		return 8, false, true
	case types.Uint16:
		return 16, false, true
	case types.Uint32:
		return 32, false, true
	case types.Uint64, types.Uint, types.Uintptr:
		return 64, false, true
	}
	return 0, false, false
}

// zero returns the zero value of t.
func (in *Interp) zero(t types.Type) value {
	if isTimeType(t) {
		return timeVal{in.C.BVConstI(zeroTimeUnix, 64)}
	}
	switch t := t.(type) {
	case *types.Basic:
		if t.Kind() == types.UntypedNil {
			panic("untyped nil has no zero value")
		}
		if t.Info()&types.IsUntyped != 0 {
			t = types.Default(t).(*types.Basic)
		}
		if w, _, ok := intWidth(t); ok {
			return in.C.BVConstU(0, w)
		}
		switch t.Kind() {
		case types.Bool:
			return in.C.False()
		case types.Float32, types.Float64:
			return float64(0)
		case types.Complex64, types.Complex128:
			return complex128(0)
		case types.String:
			return ""
		case types.UnsafePointer:
			return (*value)(nil)
		}
		panic(fmt.Sprint("zero for unexpected basic type: ", t))
	case *types.Pointer:
		return (*value)(nil)
	case *types.Array:
		a := make(array, t.Len())
		for i := range a {
			a[i] = in.zero(t.Elem())
		}
		return a
	case *types.Named, *types.Alias:
		if isBigIntType(t) {
			return bigVal{}
		}
		return in.zero(t.Underlying())
	case *types.Interface:
		return iface{}
	case *types.Slice:
		return sliceVal(nil)
	case *types.Struct:
		if isBigIntType(t) {
			return bigVal{}
		}
		s := make(structure, t.NumFields())
		for i := range s {
			s[i] = in.zero(t.Field(i).Type())
		}
		return s
	case *types.Tuple:
		if t.Len() == 1 {
			return in.zero(t.At(0).Type())
		}
		s := make(tuple, t.Len())
		for i := range s {
			s[i] = in.zero(t.At(i).Type())
		}
		return s
	case *types.Chan:
		return (*chanVal)(nil)
	case *types.Map:
		return (*smap)(nil)
	case *types.Signature:
		return (*ssa.Function)(nil)
	case *types.TypeParam:
		panic("zero of type parameter")
	}
	panic(fmt.Sprint("zero: unexpected ", t))
}

// copyVal makes aggregates unaliased.
func copyVal(v value) value {
	switch v := v.(type) {
	case array:
		a := make(array, len(v))
		for i := range v {
			a[i] = copyVal(v[i])
		}
		return a
	case structure:
		a := make(structure, len(v))
		for i := range v {
			a[i] = copyVal(v[i])
		}
		return a
	case tuple:
		a := make(tuple, len(v))
		for i := range v {
			a[i] = copyVal(v[i])
		}
		return a
	}
	return v
}

// ---- strings: a Go string (concrete) or a Str term

func (in *Interp) strTerm(v value) *smt.Term {
	switch v := v.(type) {
	case string:
		return in.C.StrConst(v)
	case *smt.Term:
		if v.Sort.K != smt.KStr {
			panic(unsupported{"string expected, got term of sort " + v.Sort.String()})
		}
		return v
	case bstr:
		if s, ok := in.bstrConcrete(v); ok {
			return in.C.StrConst(s)
		}
		// a string of symbolic bytes as an atom: the opaque string numbered by an uninterpreted function
		// of its bytes (equal bytes give equal strings; it never equals a literal, a numeral or a hash
		// string - an under-approximation recorded as an assumption).
		if len(v.b) == 0 || len(v.b) > 64 {
			panic(unsupported{"byte-level symbolic string used as Str term"})
		}
		args := make([]*smt.Term, len(v.b))
		sorts := make([]smt.Sort, len(v.b))
		for i, x := range v.b {
			args[i], sorts[i] = x.(*smt.Term), smt.BV(8)
		}
		name := fmt.Sprintf("bytestr%d", len(v.b))
		in.C.DeclareFun(name, sorts, smt.Int)
		in.path.noteAssumption("a string built from symbolic bytes is an opaque atom determined by its bytes (never equal to a literal)")
		return in.C.StrOpq(in.C.App(name, args...))
	}
	panic(fmt.Sprintf("strTerm: unexpected %T", v))
}

// normStr turns closed Str terms back into Go strings.
func (in *Interp) normStr(t *smt.Term) value {
	if s, ok := in.C.GoString(t); ok && !strings.Contains(s, "~") {
		return s
	}
	return t
}

func (in *Interp) bstrConcrete(b bstr) (string, bool) {
	bs := make([]byte, len(b.b))
	for i, x := range b.b {
		t := x.(*smt.Term)
		if !t.IsConst() {
			return "", false
		}
		bs[i] = byte(t.U64())
	}
	return string(bs), true
}

// ---- equality as a Bool term

func (in *Interp) equals(t types.Type, x, y value) *smt.Term {
	c := in.C
	switch x := x.(type) {
	case *smt.Term:
		switch y := y.(type) {
		case *smt.Term:
			return c.Eq(x, y)
		case string:
			return c.Eq(x, c.StrConst(y))
		case bstr:
			return c.Eq(x, in.strTerm(y))
		}
	case string:
		switch y := y.(type) {
		case string:
			return c.BoolConst(x == y)
		case *smt.Term:
			return c.Eq(c.StrConst(x), y)
		case bstr:
			return in.bstrEq(bstr{in.bytesOfString(x)}, y)
		}
	case bstr:
		switch y := y.(type) {
		case bstr:
			return in.bstrEq(x, y)
		case string:
			return in.bstrEq(x, bstr{in.bytesOfString(y)})
		case *smt.Term:
			return c.Eq(in.strTerm(x), y)
		}
	case float64:
		return c.BoolConst(x == y.(float64))
	case complex128:
		return c.BoolConst(x == y.(complex128))
	case *value:
		return c.BoolConst(x == y.(*value))
	case *chanVal:
		return c.BoolConst(x == y.(*chanVal))
	case *smap:
		return c.BoolConst(x == y.(*smap))
	case bigVal:
		return c.Eq(in.bigOf(x), in.bigOf(y))
	case timeVal:
		return c.Eq(x.sec, y.(timeVal).sec)
	case array:
		ya := y.(array)
		et := t.Underlying().(*types.Array).Elem()
		if px, ok := in.packBytes(x); ok {
			if py, ok2 := in.packBytes(ya); ok2 && len(x) > 0 {
				return c.Eq(px, py)
			}
		}
		var cs []*smt.Term
		for i := range x {
			cs = append(cs, in.equals(et, x[i], ya[i]))
		}
		return c.And(cs...)
	case structure:
		ys := y.(structure)
		st := t.Underlying().(*types.Struct)
		var cs []*smt.Term
		for i := range x {
			if st.Field(i).Name() == "_" {
				continue
			}
			cs = append(cs, in.equals(st.Field(i).Type(), x[i], ys[i]))
		}
		return c.And(cs...)
	case iface:
		yi := y.(iface)
		if x.t == nil || yi.t == nil {
			return c.BoolConst(x.t == nil && yi.t == nil)
		}
		if !types.Identical(x.t, yi.t) {
			return c.False()
		}
		return in.equals(x.t, x.v, yi.v)
	case *ssa.Function:
		if yf, ok := y.(*ssa.Function); ok {
			return c.BoolConst(x == yf)
		}
		return c.False()
	case *closure:
		yc, ok := y.(*closure)
		return c.BoolConst(ok && x == yc)
	case *native:
		yn, ok := y.(*native)
		return c.BoolConst(ok && x == yn)
	case sliceVal:
		// only comparison with nil reaches here
		return c.BoolConst(x == nil && y.(sliceVal) == nil)
	case *opaque:
		yo, ok := y.(*opaque)
		return c.BoolConst(ok && x == yo)
	case *engineErr:
		ye, ok := y.(*engineErr)
		return c.BoolConst(ok && x == ye)
	}
	panic(fmt.Sprintf("equals: unexpected %T vs %T (type %v)", x, y, t))
}

func (in *Interp) bstrEq(a, b bstr) *smt.Term {
	if len(a.b) != len(b.b) {
		return in.C.False()
	}
	var cs []*smt.Term
	for i := range a.b {
		cs = append(cs, in.C.Eq(a.b[i].(*smt.Term), b.b[i].(*smt.Term)))
	}
	return in.C.And(cs...)
}

func (in *Interp) bytesOfString(s string) []value {
	out := make([]value, len(s))
	for i := 0; i < len(s); i++ {
		out[i] = in.C.BVConstU(uint64(s[i]), 8)
	}
	return out
}

// packBytes packs an array/slice of 8-bit terms into one bit-vector, element 0 in the
// most significant position (so that extract/concat of one variable folds back).
func (in *Interp) packBytes(a []value) (*smt.Term, bool) {
	if len(a) == 0 {
		return nil, false
	}
	var acc *smt.Term
	for _, e := range a {
		t, ok := e.(*smt.Term)
		if !ok || t.Sort.K != smt.KBV || t.Sort.W != 8 {
			return nil, false
		}
		if acc == nil {
			acc = t
		} else {
			acc = in.C.Concat(acc, t)
		}
	}
	return acc, true
}

// unpackBytes splits a BV(8n) term into n byte terms, most significant first.
func (in *Interp) unpackBytes(t *smt.Term) []value {
	n := t.Sort.W / 8
	out := make([]value, n)
	for i := 0; i < n; i++ {
		hi := t.Sort.W - 1 - 8*i
		out[i] = in.C.Extract(t, hi, hi-7)
	}
	return out
}

// ---- maps

func (in *Interp) keyString(v value) (string, bool) {
	switch v := v.(type) {
	case *smt.Term:
		if v.IsValue() {
			return fmt.Sprintf("t%d", v.ID), true
		}
		return "", false
	case string:
		return "s" + v, true
	case *value:
		return fmt.Sprintf("p%p", v), true
	case float64:
		return fmt.Sprintf("f%v", v), true
	case array:
		var sb strings.Builder
		sb.WriteString("[")
		for _, e := range v {
			s, ok := in.keyString(e)
			if !ok {
				return "", false
			}
			sb.WriteString(s + ",")
		}
		return sb.String(), true
	case structure:
		var sb strings.Builder
		sb.WriteString("{")
		for _, e := range v {
			s, ok := in.keyString(e)
			if !ok {
				return "", false
			}
			sb.WriteString(s + ",")
		}
		return sb.String(), true
	case iface:
		if v.t == nil {
			return "nil", true
		}
		s, ok := in.keyString(v.v)
		return v.t.String() + ":" + s, ok
	case *chanVal:
		return fmt.Sprintf("c%p", v), true
	case *opaque:
		return fmt.Sprintf("o%p", v), true
	case bigVal, timeVal:
		return "", false
	}
	return "", false
}

func newMap(kt types.Type) *smap {
	return &smap{keyT: kt, index: map[string]int{}}
}

// find returns the index of key (forking on equality with symbolic keys), or -1.
func (in *Interp) mapFind(m *smap, key value) int {
	if m == nil {
		return -1
	}
	ks, concrete := in.keyString(key)
	if concrete {
		if i, ok := m.index[ks]; ok {
			return i
		}
	}
	for i, k := range m.keys {
		if k == nil {
			continue
		}
		if _, kc := in.keyString(k); kc && concrete {
			continue // two different concrete keys
		}
		if in.branch(in.equals(m.keyT, k, key)) {
			return i
		}
	}
	return -1
}

func (in *Interp) mapSet(m *smap, key, v value) {
	if i := in.mapFind(m, key); i >= 0 {
		m.vals[i] = v
		return
	}
	m.keys = append(m.keys, key)
	m.vals = append(m.vals, v)
	if ks, ok := in.keyString(key); ok {
		m.index[ks] = len(m.keys) - 1
	}
}

func (in *Interp) mapDelete(m *smap, key value) {
	if i := in.mapFind(m, key); i >= 0 {
		if ks, ok := in.keyString(m.keys[i]); ok {
			delete(m.index, ks)
		}
		m.keys[i] = nil
		m.vals[i] = nil
	}
}

func (m *smap) length() int {
	if m == nil {
		return 0
	}
	n := 0
	for _, k := range m.keys {
		if k != nil {
			n++
		}
	}
	return n
}

// ---- helpers for constants

func (in *Interp) constInt(v value) (int64, bool) {
	t, ok := v.(*smt.Term)
	if !ok || t.Op != smt.OpBVConst {
		return 0, false
	}
	return t.I64(), true
}

func (in *Interp) mustInt(v value, what string) int {
	n, ok := in.constInt(v)
	if !ok {
		// try to concretise through the solver
		t := v.(*smt.Term)
		return int(in.concretize(t, what).Int64())
	}
	return int(n)
}

func bigFromInt64(i int64) *big.Int { return big.NewInt(i) }
