package symex

import (
	"encoding/hex"
	"fmt"
	"math/big"

	"bhsverif/smt"
)

// useBody tells callSSA to execute the function's own SSA body.
type useBody struct{}

const chainhashPkg = RepoModule + "/internal/chaincfg/chainhash"

func (in *Interp) allConcrete(s sliceVal) ([]byte, bool) {
	out := make([]byte, len(s))
	for i, e := range s {
		t, ok := e.(*smt.Term)
		if !ok || !t.IsConst() {
			return nil, false
		}
		out[i] = byte(t.U64())
	}
	return out, true
}

func (P *Program) registerTime() {
	T := "(time.Time)."
	sec := func(v value) *smt.Term { return v.(timeVal).sec }
	P.reg("time.Now", func(fr *frame, args []value) value {
		in := fr.in
		t := in.C.Fresh("now", smt.BV(64))
		in.assumeSilently(in.C.BVSLe(in.C.BVConstI(0, 64), t))
		in.assumeSilently(in.C.BVSLe(t, in.C.BVConstI(1<<40, 64)))
		if in.clock != nil {
			in.assumeSilently(in.C.BVSLe(in.clock, t))
		}
		in.clock = t
		in.path.noteAssumption("time.Now returns arbitrary non-decreasing instants at one-second resolution")
		return timeVal{t}
	})
	P.reg("time.Unix", func(fr *frame, args []value) value {
		in := fr.in
		ns := tm(args[1])
		if !ns.IsConst() || ns.I64() != 0 {
			if ns.IsConst() {
				return timeVal{in.C.BVAdd(tm(args[0]), in.C.BVConstI(ns.I64()/1_000_000_000, 64))}
			}
			panic(unsupported{"time.Unix with symbolic nanoseconds"})
		}
		return timeVal{tm(args[0])}
	})
	P.reg(T+"Unix", func(fr *frame, args []value) value { return sec(args[0]) })
	P.reg(T+"UTC", func(fr *frame, args []value) value { return args[0] })
	P.reg(T+"Local", func(fr *frame, args []value) value { return args[0] })
	P.reg(T+"Before", func(fr *frame, args []value) value { return fr.in.C.BVSLt(sec(args[0]), sec(args[1])) })
	P.reg(T+"After", func(fr *frame, args []value) value { return fr.in.C.BVSLt(sec(args[1]), sec(args[0])) })
	P.reg(T+"Equal", func(fr *frame, args []value) value { return fr.in.C.Eq(sec(args[0]), sec(args[1])) })
	P.reg(T+"Compare", func(fr *frame, args []value) value {
		c := fr.in.C
		a, b := sec(args[0]), sec(args[1])
		return c.Ite(c.BVSLt(a, b), c.BVConstI(-1, 64), c.Ite(c.Eq(a, b), c.BVConstI(0, 64), c.BVConstI(1, 64)))
	})
	P.reg(T+"IsZero", func(fr *frame, args []value) value {
		return fr.in.C.Eq(sec(args[0]), fr.in.C.BVConstI(zeroTimeUnix, 64))
	})
	P.reg(T+"Add", func(fr *frame, args []value) value {
		in := fr.in
		d := tm(args[1])
		if !d.IsConst() {
			// a symbolic duration is accepted when it is a whole number of seconds: x * 1e9
			if d.Op == smt.OpBVMul {
				for i := 0; i < 2; i++ {
					if k := d.Args[i]; k.IsConst() && k.I64() == 1_000_000_000 {
						return timeVal{in.C.BVAdd(sec(args[0]), d.Args[1-i])}
					}
				}
			}
			panic(unsupported{"time.Time.Add with a symbolic duration that is not seconds * 1e9"})
		}
		return timeVal{in.C.BVAdd(sec(args[0]), in.C.BVConstI(d.I64()/1_000_000_000, 64))}
	})
	dur := func(in *Interp, diff *smt.Term) *smt.Term {
		d := in.C.BVMul(diff, in.C.BVConstI(1_000_000_000, 64))
		if !d.IsConst() {
			if in.secDur == nil {
				in.secDur = map[*smt.Term]*smt.Term{}
			}
			in.secDur[d] = diff
		}
		return d
	}
	P.reg(T+"Sub", func(fr *frame, args []value) value {
		in := fr.in
		return dur(in, in.C.BVSub(sec(args[0]), sec(args[1])))
	})
	P.reg(T+"String", func(fr *frame, args []value) value { return fr.in.freshOpq() })
	P.reg(T+"Format", func(fr *frame, args []value) value { return fr.in.freshOpq() })
	P.reg("time.Since", func(fr *frame, args []value) value {
		in := fr.in
		now := in.call(fr, 0, &native{fn: in.P.intrinsics["time.Now"]}, nil).(timeVal)
		return dur(in, in.C.BVSub(now.sec, sec(args[0])))
	})
	P.reg(VH+".Now", P.intrinsics["time.Now"])
	P.reg("time.Until", func(fr *frame, args []value) value {
		in := fr.in
		now := in.call(fr, 0, &native{fn: in.P.intrinsics["time.Now"]}, nil).(timeVal)
		return dur(in, in.C.BVSub(sec(args[0]), now.sec))
	})
	P.reg("time.Sleep", func(fr *frame, args []value) value { return nil })
	P.reg("(time.Duration).String", func(fr *frame, args []value) value { return fr.in.freshOpq() })
	P.reg("(time.Duration).Seconds", func(fr *frame, args []value) value {
		d := tm(args[0])
		if d.IsConst() {
			return float64(d.I64()) / 1e9
		}
		panic(unsupported{"Duration.Seconds of symbolic duration"})
	})
}

// sha256UF applies the uninterpreted function sha256_<n> to n bytes.
func (in *Interp) sha256UF(b []value) array {
	c := in.C
	n := len(b)
	if n == 0 {
		c.DeclareFun("sha256_0", nil, smt.BV(256))
		return in.unpackBytes(c.App("sha256_0"))
	}
	p, ok := in.packBytes(b)
	if !ok {
		panic(unsupported{"sha256 of non-byte data"})
	}
	name := fmt.Sprintf("sha256_%d", n)
	c.DeclareFun(name, []smt.Sort{smt.BV(8 * n)}, smt.BV(256))
	return array(in.unpackBytes(c.App(name, p)))
}

func (P *Program) registerRepoModels() {
	// logging-only helper whose float arithmetic on the height is irrelevant to every property
	P.reg("(*"+RepoModule+"/transports/p2p/p2psync.SyncManager).logSyncState", func(fr *frame, args []value) value { return nil })
	P.reg("crypto/sha256.Sum256", func(fr *frame, args []value) value {
		fr.in.path.noteAssumption("SHA-256 is an uninterpreted function (what is hashed is checked, not the hash)")
		return fr.in.sha256UF(args[0].(sliceVal))
	})
	P.reg(VH+".Sha256", func(fr *frame, args []value) value { return fr.in.sha256UF(args[0].(sliceVal)) })
	P.reg("encoding/hex.EncodeToString", func(fr *frame, args []value) value {
		in := fr.in
		s := args[0].(sliceVal)
		if bs, ok := in.allConcrete(s); ok {
			return hex.EncodeToString(bs)
		}
		if len(s) == 32 {
			p, _ := in.packBytes(s)
			return in.normStr(in.C.StrHex(p))
		}
		panic(unsupported{fmt.Sprintf("hex.EncodeToString of %d symbolic bytes", len(s))})
	})
	P.reg("encoding/hex.DecodedLen", func(fr *frame, args []value) value {
		return fr.in.intv(int64(fr.in.mustInt(args[0], "hex.DecodedLen") / 2))
	})
	P.reg("encoding/hex.EncodedLen", func(fr *frame, args []value) value {
		return fr.in.intv(int64(fr.in.mustInt(args[0], "hex.EncodedLen") * 2))
	})
	P.reg("encoding/hex.Decode", func(fr *frame, args []value) value {
		in := fr.in
		dst := args[0].(sliceVal)
		src, ok := in.allConcrete(args[1].(sliceVal))
		if !ok {
			panic(unsupported{"hex.Decode of symbolic bytes"})
		}
		tmp := make([]byte, hex.DecodedLen(len(src)))
		n, err := hex.Decode(tmp, src)
		if n > len(dst) {
			panic(targetPanic{msg: "runtime error: index out of range (hex.Decode)"})
		}
		for i := 0; i < n; i++ {
			dst[i] = in.C.BVConstU(uint64(tmp[i]), 8)
		}
		if err != nil {
			return tuple{in.intv(int64(n)), in.mkError(err.Error())}
		}
		return tuple{in.intv(int64(n)), iface{}}
	})
	P.reg("encoding/hex.DecodeString", func(fr *frame, args []value) value {
		in := fr.in
		b, err := hex.DecodeString(in.goStr(args[0], "hex.DecodeString"))
		var out sliceVal
		for _, x := range b {
			out = append(out, in.C.BVConstU(uint64(x), 8))
		}
		if err != nil {
			return tuple{out, in.mkError(err.Error())}
		}
		return tuple{out, iface{}}
	})
	// chainhash.Decode on a symbolic string: hex64 strings decode to their value; anything
	// else either fails or (short hex text) yields some hash.
	P.reg(chainhashPkg+".Decode", func(fr *frame, args []value) value {
		in := fr.in
		c := in.C
		st, ok := args[1].(*smt.Term)
		if !ok {
			return useBody{}
		}
		dst := args[0].(*value)
		if in.branch(c.IsHex(st)) {
			*dst = in.hashFromBV(c.HexVal(st))
			return iface{}
		}
		if in.branch(c.IsDec(st)) {
			// a decimal numeral is hex text as well: up to 64 digits decode (to some hash), a sign or more digits do not
			n := c.DecVal(st)
			lim := new(big.Int).Exp(big.NewInt(10), big.NewInt(64), nil)
			if in.branch(c.And(c.ILe(c.IntConstI(0), n), c.ILt(n, c.IntConst(lim)))) {
				*dst = in.hashFromBV(c.Fresh("decoded", smt.BV(256)))
				return iface{}
			}
			return in.mkError("encoding/hex: invalid byte or max hash string length exceeded")
		}
		okv := c.Fresh("decode_ok", smt.Bool)
		if in.branch(okv) {
			*dst = in.hashFromBV(c.Fresh("decoded", smt.BV(256)))
			return iface{}
		}
		return in.mkError("encoding/hex: invalid byte or max hash string length exceeded")
	})
}
