package symex

import (
	"fmt"
	"math/big"
	"os"
	"runtime/debug"
	"sort"
	"strings"
	"sync"
	"time"

	"bhsverif/smt"

	"golang.org/x/tools/go/ssa"
)

type Decision struct {
	Taken bool
	Val   string // for concretisation decisions: the value tried
}

type Nondet struct {
	Name string
	Kind string // bool i8..u64 int str hash time big
	Term *smt.Term
}

type Violation struct {
	Label    string
	Harness  string
	Known    string // class name when it falls into a listed known finding
	Values   []NondetValue
	Path     []Decision
	PanicMsg string
	Notes    []string
}

type NondetValue struct {
	Name string `json:"name"`
	Kind string `json:"kind"`
	Val  string `json:"val"`
}

type LabelStats struct {
	Reached  int
	Proved   int
	Violated int
	Unknown  int
	Trivial  int // discharged by the simplifier without a solver call
}

type pathRun struct {
	ex          *Explorer
	sess        *smt.Session
	prefix      []Decision
	pos         int
	trace       []Decision
	pc          []*smt.Term
	nondets     []Nondet
	classes     map[string]*smt.Term
	assumptions map[string]bool
	feasUnknown bool
	labels      map[string]*LabelStats
	viol        []Violation
	notes       []string
	sepFree     map[int]bool
}

func (p *pathRun) noteAssumption(s string) { p.assumptions[s] = true }

func (p *pathRun) label(l string) *LabelStats {
	s := p.labels[l]
	if s == nil {
		s = &LabelStats{}
		p.labels[l] = s
	}
	return s
}

func (in *Interp) assumeRaw(c *smt.Term) {
	if c.IsTrue() {
		return
	}
	in.path.pc = append(in.path.pc, c)
	in.path.sess.Assert(c)
}

func (in *Interp) assumeSilently(c *smt.Term) { in.assumeRaw(c) }

// Assume restricts the path; an infeasible assumption ends the path.
func (in *Interp) Assume(c *smt.Term) {
	if c.IsTrue() {
		return
	}
	if c.IsFalse() {
		panic(pathEnd{"assumption false"})
	}
	p := in.path
	if p.pos < len(p.prefix) {
		// replaying: feasibility was established when this prefix was discovered
		in.assumeRaw(c)
		return
	}
	switch p.sess.CheckPop(c) {
	case smt.Unsat:
		panic(pathEnd{"assumption infeasible"})
	case smt.Unknown:
		p.feasUnknown = true
		if traceBranches {
			fmt.Fprintf(os.Stderr, "UNKNOWN assume at %s\n", in.curLoc())
		}
	}
	in.assumeRaw(c)
}

func (in *Interp) branch(c *smt.Term) bool {
	if c.IsTrue() {
		return true
	}
	if c.IsFalse() {
		return false
	}
	p := in.path
	if p.pos < len(p.prefix) {
		d := p.prefix[p.pos]
		p.pos++
		p.trace = append(p.trace, d)
		if d.Taken {
			in.assumeRaw(c)
		} else {
			in.assumeRaw(in.C.Not(c))
		}
		return d.Taken
	}
	if len(p.trace) >= in.P.MaxDecisions {
		panic(unsupported{"decision depth limit"})
	}
	if traceBranches {
		fmt.Fprintf(os.Stderr, "BRANCH #%d at %s\n", len(p.trace), in.curLoc())
	}
	canT, canF := true, true
	switch p.sess.CheckPop(c) {
	case smt.Unsat:
		canT = false
	case smt.Sat:
		switch p.sess.CheckPop(in.C.Not(c)) {
		case smt.Unsat:
			canF = false
		case smt.Unknown:
			p.feasUnknown = true
		}
	case smt.Unknown:
		p.feasUnknown = true
		if traceBranches {
			fmt.Fprintf(os.Stderr, "UNKNOWN branch at %s\n", in.curLoc())
		}
		if p.sess.CheckPop(in.C.Not(c)) == smt.Unsat {
			canF = false
		}
	}
	p.pos++
	switch {
	case canT && canF:
		alt := append(append([]Decision{}, p.trace...), Decision{Taken: false})
		p.ex.push(alt)
		p.trace = append(p.trace, Decision{Taken: true})
		in.assumeRaw(c)
		return true
	case canT:
		p.trace = append(p.trace, Decision{Taken: true})
		in.assumeRaw(c)
		return true
	default:
		p.trace = append(p.trace, Decision{Taken: false})
		in.assumeRaw(in.C.Not(c))
		return false
	}
}

func (in *Interp) branchAt(fr *frame, instr *ssa.If, c *smt.Term) bool {
	if c.IsConst() {
		return c.B
	}
	if fr.symVisits == nil {
		fr.symVisits = map[*ssa.BasicBlock]int{}
	}
	fr.symVisits[fr.block]++
	if fr.symVisits[fr.block] > in.Unwind {
		panic(unsupported{fmt.Sprintf("UNWIND limit %d reached in %s%s", in.Unwind, fr.fn, in.where(fr, instr.Pos()))})
	}
	return in.branch(c)
}

// concretize picks a concrete value for t, forking over its feasible values.
func (in *Interp) concretize(t *smt.Term, what string) *big.Int {
	if t.IsConst() {
		if t.Op == smt.OpBVConst {
			return t.SVal()
		}
		return t.Val
	}
	p := in.path
	for n := 0; ; n++ {
		if n > in.P.MaxConcretize {
			panic(unsupported{fmt.Sprintf("too many feasible values while concretising %s (term sort %v, prefix %d, pos %d, trace %s)", what, t.Sort, len(p.prefix), p.pos, traceString(p.trace))})
		}
		var v *smt.Term
		if p.pos < len(p.prefix) {
			d := p.prefix[p.pos]
			bv, _ := new(big.Int).SetString(d.Val, 10)
			v = in.constLike(t, bv)
			p.pos++
			p.trace = append(p.trace, d)
			eq := in.C.Eq(t, v)
			if d.Taken {
				in.assumeRaw(eq)
				return in.valOf(v)
			}
			in.assumeRaw(in.C.Not(eq))
			continue
		}
		if len(p.trace) >= in.P.MaxDecisions {
			panic(unsupported{"decision depth limit"})
		}
		r := p.sess.Check()
		if r != smt.Sat {
			if r == smt.Unknown {
				panic(unsupported{"solver unknown while concretising " + what})
			}
			panic(pathEnd{"no more values"})
		}
		vals, err := p.sess.Values([]*smt.Term{t})
		if err != nil {
			panic(unsupported{"model read failed: " + err.Error()})
		}
		v = vals[0]
		eq := in.C.Eq(t, v)
		d := Decision{Taken: true, Val: in.valOf(v).String()}
		// is there another value?
		if p.sess.CheckPop(in.C.Not(eq)) != smt.Unsat {
			alt := append(append([]Decision{}, p.trace...), Decision{Taken: false, Val: d.Val})
			p.ex.push(alt)
		}
		p.pos++
		p.trace = append(p.trace, d)
		in.assumeRaw(eq)
		return in.valOf(v)
	}
}

func (in *Interp) constLike(t *smt.Term, v *big.Int) *smt.Term {
	if t.Sort.K == smt.KBV {
		return in.C.BVConst(v, t.Sort.W)
	}
	return in.C.IntConst(v)
}

func (in *Interp) valOf(v *smt.Term) *big.Int {
	if v.Op == smt.OpBVConst {
		return v.SVal()
	}
	return v.Val
}

// Assert checks cond on the current path; a violation is recorded with a model.
func (in *Interp) Assert(label string, cond *smt.Term) {
	p := in.path
	st := p.label(label)
	st.Reached++
	c := in.C
	if cond.IsTrue() {
		st.Proved++
		st.Trivial++
		return
	}
	neg := c.Not(cond)
	// known-finding classes for this label
	var knownNames []string
	for _, k := range in.P.Known[label] {
		if _, ok := p.classes[k]; ok {
			knownNames = append(knownNames, k)
		}
	}
	sort.Strings(knownNames)
	outside := []*smt.Term{neg}
	for _, k := range knownNames {
		outside = append(outside, c.Not(p.classes[k]))
	}
	r := p.sess.Check(outside...)
	switch r {
	case smt.Unsat:
		p.sess.Pop()
		if len(knownNames) == 0 {
			st.Proved++
		}
	case smt.Sat:
		st.Violated++
		p.viol = append(p.viol, in.violation(label, ""))
		p.sess.Pop()
	default:
		p.sess.Pop()
		st.Unknown++
		p.notes = append(p.notes, fmt.Sprintf("solver unknown on assertion %s (path %s)", label, traceString(p.trace)))
	}
	provedAll := r == smt.Unsat
	for _, k := range knownNames {
		rk := p.sess.Check(neg, p.classes[k])
		if rk == smt.Sat {
			p.viol = append(p.viol, in.violation(label, k))
			provedAll = false
		} else if rk == smt.Unknown {
			st.Unknown++
			provedAll = false
		}
		p.sess.Pop()
	}
	if provedAll && len(knownNames) > 0 {
		st.Proved++
	}
	// continue under the assertion
	if cond.IsFalse() {
		panic(pathEnd{"assertion false on whole path"})
	}
	if r != smt.Unsat || !provedAll {
		if p.sess.CheckPop(cond) == smt.Unsat {
			panic(pathEnd{"assertion fails on whole path"})
		}
	}
	in.assumeRaw(cond)
}

func (in *Interp) violation(label, known string) Violation {
	p := in.path
	v := Violation{Label: label, Harness: p.ex.Name, Known: known, Path: append([]Decision{}, p.trace...)}
	var ts []*smt.Term
	for _, n := range p.nondets {
		ts = append(ts, n.Term)
	}
	vals, err := p.sess.Values(ts)
	if err != nil {
		v.Notes = append(v.Notes, "model read failed: "+err.Error())
		return v
	}
	// the model's length of each free string (strlen): the realised string is padded up to it, so
	// that code branching on len(s) takes natively the branch it took in the model
	var lens []*smt.Term
	in.C.DeclareFun("strlen", []smt.Sort{smt.Str}, smt.Int)
	for _, n := range p.nondets {
		if n.Term.Sort.K == smt.KStr {
			lens = append(lens, in.C.App("strlen", n.Term))
		}
	}
	var lvals []*smt.Term
	if len(lens) > 0 {
		lvals, _ = p.sess.Values(lens)
	}
	k := 0
	for i, n := range p.nondets {
		val := in.renderValue(n.Kind, vals[i])
		if n.Term.Sort.K == smt.KStr {
			if k < len(lvals) && lvals[k] != nil && lvals[k].Val != nil && lvals[k].Val.IsInt64() {
				// only free atoms (~opqN~ / ~litN~) are padded: numerals, hash strings and program literals have their own length
				if l := lvals[k].Val.Int64(); l > int64(len(val)) && l <= 4096 && strings.HasPrefix(val, "~") && strings.HasSuffix(val, "~") {
					val += strings.Repeat("x", int(l)-len(val))
				}
			}
			k++
		}
		v.Values = append(v.Values, NondetValue{Name: n.Name, Kind: n.Kind, Val: val})
	}
	return v
}

func (in *Interp) renderValue(kind string, v *smt.Term) string {
	switch v.Sort.K {
	case smt.KBool:
		if v.B {
			return "true"
		}
		return "false"
	case smt.KBV:
		switch kind {
		case "i8", "i16", "i32", "i64", "int", "time":
			return v.SVal().String()
		case "hash":
			return fmt.Sprintf("%064x", v.Val)
		}
		return v.Val.String()
	case smt.KInt:
		return v.Val.String()
	case smt.KStr:
		s, _ := in.C.GoString(v)
		return s
	}
	return "?"
}

// failNow records a panic escaping the harness as a violation of label "no-panic".
func (in *Interp) recordPanic(msg string) {
	p := in.path
	st := p.label("no-panic")
	st.Reached++
	c := in.C
	var knownNames []string
	for _, k := range in.P.Known["no-panic"] {
		if _, ok := p.classes[k]; ok {
			knownNames = append(knownNames, k)
		}
	}
	var outside []*smt.Term
	for _, k := range knownNames {
		outside = append(outside, c.Not(p.classes[k]))
	}
	r := p.sess.Check(outside...)
	if r == smt.Sat {
		st.Violated++
		v := in.violation("no-panic", "")
		v.PanicMsg = msg
		p.viol = append(p.viol, v)
	} else if r == smt.Unknown {
		st.Unknown++
	}
	if len(outside) > 0 {
		p.sess.Pop()
	}
	for _, k := range knownNames {
		if p.sess.Check(p.classes[k]) == smt.Sat {
			v := in.violation("no-panic", k)
			v.PanicMsg = msg
			p.viol = append(p.viol, v)
		}
		p.sess.Pop()
	}
}

// ---------------------------------------------------------------- explorer

type Explorer struct {
	P       *Program
	Name    string
	Entry   *ssa.Function
	IntArgs []int64 // concrete integer arguments of the entry point
	Workers int
	Witness int // number of path witnesses to collect for native validation

	mu      sync.Mutex
	stack   [][]Decision
	active  int
	cond    *sync.Cond
	rep     *Report
	stopped bool
}

type Witness struct {
	Values       []NondetValue
	Observations []Observation
	Labels       []string
	Path         string
}

type Report struct {
	Witnesses    []Witness
	WantWitness  int
	Harness      string
	Paths        int
	Completed    int
	Ended        int
	Decisions    int
	Labels       map[string]*LabelStats
	Violations   []Violation
	Unsupported  map[string]int
	Notes        map[string]int
	Assumptions  map[string]bool
	Funcs        map[string]bool
	SQL          map[string]bool
	Queries      int
	SolverNs     int64
	SolverErrors []string
	FeasUnknown  int
	Observations [][]Observation
	WallNs       int64
	MaxPC        int
	Samples      []string
}

func (e *Explorer) push(pfx []Decision) {
	e.mu.Lock()
	e.stack = append(e.stack, pfx)
	e.mu.Unlock()
	e.cond.Signal()
}

func (e *Explorer) pop() ([]Decision, bool) {
	e.mu.Lock()
	defer e.mu.Unlock()
	for {
		if e.stopped {
			return nil, false
		}
		if n := len(e.stack); n > 0 {
			p := e.stack[n-1]
			e.stack = e.stack[:n-1]
			e.active++
			return p, true
		}
		if e.active == 0 {
			e.cond.Broadcast()
			return nil, false
		}
		e.cond.Wait()
	}
}

func (e *Explorer) wantWitness() bool {
	e.mu.Lock()
	defer e.mu.Unlock()
	return len(e.rep.Witnesses) < e.rep.WantWitness
}

func (e *Explorer) done() {
	e.mu.Lock()
	e.active--
	e.mu.Unlock()
	e.cond.Broadcast()
}

func (e *Explorer) Run() *Report {
	t0 := time.Now()
	e.cond = sync.NewCond(&e.mu)
	e.rep = &Report{Harness: e.Name, Labels: map[string]*LabelStats{}, Unsupported: map[string]int{}, Notes: map[string]int{},
		Assumptions: map[string]bool{}, Funcs: map[string]bool{}, SQL: map[string]bool{}, WantWitness: e.Witness}
	e.stack = [][]Decision{nil}
	if e.Workers <= 0 {
		e.Workers = 1
	}
	var wg sync.WaitGroup
	for w := 0; w < e.Workers; w++ {
		wg.Add(1)
		go func() {
			defer wg.Done()
			e.worker()
		}()
	}
	wg.Wait()
	e.rep.WallNs = time.Since(t0).Nanoseconds()
	return e.rep
}

func (e *Explorer) worker() {
	ctx := smt.NewCtx()
	sess, err := smt.NewSession(ctx, e.P.Solver, e.P.TimeoutMs)
	if err != nil {
		e.mu.Lock()
		e.rep.Unsupported["solver start: "+err.Error()]++
		e.stopped = true
		e.mu.Unlock()
		e.cond.Broadcast()
		return
	}
	defer func() { sess.Close() }()
	if d := os.Getenv("BHS_SMTLOG"); d != "" {
		f, _ := os.Create(fmt.Sprintf("%s/worker-%p.smt2", d, sess))
		if f != nil {
			sess.Log = f
			defer f.Close()
		}
	}
	first := true
	for {
		pfx, ok := e.pop()
		if !ok {
			return
		}
		// a fresh context per path keeps memory bounded and ids deterministic
		if sess.Dead {
			sess.Close()
			ctx = smt.NewCtx()
			ns, err := smt.NewSession(ctx, e.P.Solver, e.P.TimeoutMs)
			if err != nil {
				e.done()
				return
			}
			ns.Log = sess.Log
			sess = ns
		} else if !first {
			ctx = smt.NewCtx()
			sess.C = ctx
			sess.Reset()
		}
		first = false
		e.runPath(ctx, sess, pfx)
		e.done()
	}
}

func (e *Explorer) runPath(ctx *smt.Ctx, sess *smt.Session, pfx []Decision) {
	p := &pathRun{ex: e, sess: sess, prefix: pfx, classes: map[string]*smt.Term{}, assumptions: map[string]bool{}, labels: map[string]*LabelStats{}, sepFree: map[int]bool{}}
	in := &Interp{P: e.P, C: ctx, path: p, globals: map[*ssa.Global]*value{}, inited: map[*ssa.Package]bool{},
		Unwind: e.P.Unwind, funcsHit: map[*ssa.Function]bool{}, extra: map[string]interface{}{}}
	q0, ns0 := sess.Queries, sess.SolverNs
	nerr0 := len(sess.Errors)
	status := "completed"
	var unsup string
	func() {
		defer func() {
			r := recover()
			if r == nil {
				return
			}
			switch r := r.(type) {
			case pathEnd:
				status = "ended"
				if strings.HasPrefix(r.why, "assertion") {
					status = "asserted-out" // the path reached its assertions; it ends because one of them fails on the whole path
				}
			case unsupported:
				status = "unsupported"
				unsup = r.msg
			case targetPanic:
				status = "panic"
				msg := r.msg
				if r.v != nil {
					msg = in.panicString(r.v)
				}
				func() {
					defer func() {
						if rr := recover(); rr != nil {
							status = "unsupported"
							unsup = fmt.Sprint("while recording panic: ", rr)
						}
					}()
					in.recordPanic(msg)
				}()
			case blockedSignal:
				status = "panic"
				func() {
					defer func() {
						if rr := recover(); rr != nil {
							status = "unsupported"
							unsup = fmt.Sprint("while recording deadlock: ", rr)
						}
					}()
					in.recordPanic("deadlock: the calling goroutine blocks forever (" + r.what + ")")
				}()
			case killSignal:
				status = "unsupported"
				unsup = "kill armed outside vhdb.RunUntilKill"
			case internalAbort:
				status = "unsupported"
				unsup = "engine: " + r.msg
			default:
				status = "unsupported"
				unsup = fmt.Sprintf("engine panic: %v\n%s", r, trimStack(debug.Stack()))
			}
		}()
		var args []value
		for i, a := range e.IntArgs {
			w := 64
			if b := basicOf(e.Entry.Params[i].Type()); b != nil {
				if ww, _, ok := intWidth(b); ok {
					w = ww
				}
			}
			args = append(args, ctx.BVConstI(a, w))
		}
		in.initPackage(e.Entry.Pkg)
		in.call(nil, 0, e.Entry, args)
		for len(in.goq) > 0 {
			g := in.goq[0]
			in.goq = in.goq[1:]
			g()
		}
	}()
	var wit *Witness
	if status == "completed" && len(p.viol) == 0 && e.wantWitness() {
		func() {
			defer func() {
				if r := recover(); r != nil {
					wit = nil
				}
			}()
			if sess.Check() != smt.Sat {
				return
			}
			var ts []*smt.Term
			for _, n := range p.nondets {
				ts = append(ts, n.Term)
			}
			var oi []int
			for i, o := range in.observed {
				if o.term != nil {
					ts = append(ts, o.term)
					oi = append(oi, i)
				}
			}
			vals, err := sess.Values(ts)
			if err != nil {
				return
			}
			w := &Witness{Path: traceString(p.trace)}
			for i, n := range p.nondets {
				w.Values = append(w.Values, NondetValue{Name: n.Name, Kind: n.Kind, Val: in.renderValue(n.Kind, vals[i])})
			}
			obs := append([]Observation{}, in.observed...)
			for k, i := range oi {
				obs[i].Val = in.renderObs(vals[len(p.nondets)+k], obs[i].uns)
			}
			w.Observations = obs
			for l := range p.labels {
				w.Labels = append(w.Labels, l)
			}
			sort.Strings(w.Labels)
			wit = w
		}()
	}
	if p.pos < len(p.prefix) && status == "completed" {
		status = "unsupported"
		unsup = fmt.Sprintf("replay divergence: prefix of %d decisions, only %d consumed", len(p.prefix), p.pos)
	}
	e.mu.Lock()
	defer e.mu.Unlock()
	rep := e.rep
	rep.Paths++
	if wit != nil && len(rep.Witnesses) < rep.WantWitness {
		rep.Witnesses = append(rep.Witnesses, *wit)
	}
	switch status {
	case "completed", "panic", "asserted-out":
		rep.Completed++
	case "ended":
		rep.Ended++
	case "unsupported":
		rep.Unsupported[unsup]++
	}
	rep.Decisions += len(p.trace)
	for l, s := range p.labels {
		t := rep.Labels[l]
		if t == nil {
			t = &LabelStats{}
			rep.Labels[l] = t
		}
		t.Reached += s.Reached
		t.Proved += s.Proved
		t.Violated += s.Violated
		t.Unknown += s.Unknown
		t.Trivial += s.Trivial
	}
	if len(rep.Violations) < 64 {
		rep.Violations = append(rep.Violations, p.viol...)
	}
	for _, n := range p.notes {
		rep.Notes[n]++
	}
	for a := range p.assumptions {
		rep.Assumptions[a] = true
	}
	for f := range in.funcsHit {
		rep.Funcs[f.String()] = true
	}
	if sq, ok := in.extra["sqlseen"].(map[string]bool); ok {
		for s := range sq {
			rep.SQL[s] = true
		}
	}
	if p.feasUnknown {
		rep.FeasUnknown++
	}
	rep.Queries += sess.Queries - q0
	rep.SolverNs += sess.SolverNs - ns0
	if len(sess.Errors) > nerr0 {
		for _, er := range sess.Errors[nerr0:] {
			if len(rep.SolverErrors) < 10 {
				rep.SolverErrors = append(rep.SolverErrors, er)
			}
		}
		rep.Unsupported["solver error line"]++
	}
	if len(in.observed) > 0 && len(rep.Observations) < 8 {
		rep.Observations = append(rep.Observations, in.observed)
	}
	if len(p.pc) > rep.MaxPC {
		rep.MaxPC = len(p.pc)
	}
	if len(rep.Samples) < 5 {
		var ls []string
		for l, s := range p.labels {
			ls = append(ls, fmt.Sprintf("%s:%d/%d", l, s.Proved, s.Reached))
		}
		sort.Strings(ls)
		rep.Samples = append(rep.Samples, fmt.Sprintf("path#%d status=%s decisions=%d pc=%d nondets=%d obligations=[%s]", rep.Paths, status, len(p.trace), len(p.pc), len(p.nondets), strings.Join(ls, " ")))
	}
}

func trimStack(b []byte) string {
	s := string(b)
	lines := strings.Split(s, "\n")
	var out []string
	for _, l := range lines {
		if strings.Contains(l, "symex") || strings.Contains(l, "sqlm") || strings.Contains(l, "smt") {
			out = append(out, strings.TrimSpace(l))
		}
		if len(out) > 14 {
			break
		}
	}
	return strings.Join(out, " | ")
}

func (in *Interp) panicString(v value) string {
	switch v := v.(type) {
	case iface:
		if v.t == nil {
			return "panic(nil)"
		}
		if s, ok := v.v.(string); ok {
			return s
		}
		return fmt.Sprintf("panic(%s)", v.t)
	case string:
		return v
	}
	return fmt.Sprintf("panic(%T)", v)
}

func traceString(tr []Decision) string {
	var sb strings.Builder
	for _, d := range tr {
		if d.Val != "" {
			if d.Taken {
				sb.WriteString("=" + d.Val + " ")
			}
			continue
		}
		if d.Taken {
			sb.WriteString("T")
		} else {
			sb.WriteString("F")
		}
	}
	return sb.String()
}

var traceBranches = os.Getenv("BHS_TRACE") != ""

func (in *Interp) curLoc() string {
	if in.curFrame == nil || in.curFrame.fn == nil {
		return "?"
	}
	return in.curFrame.fn.String() + in.where(nil, in.curPos)
}
