package symex

import (
	"math/bits"
	"fmt"
	"go/types"
	"net"
	"math/big"
	"strconv"
	"strings"

	"bhsverif/smt"

	"golang.org/x/tools/go/ssa"
)

func (in *Interp) boolv(b bool) value { return in.C.BoolConst(b) }
func (in *Interp) intv(i int64) value { return in.C.BVConstI(i, 64) }

func (in *Interp) nilErr() value { return iface{} }

// callMethod invokes method name on an interface value through the interpreter.
func (in *Interp) callMethod(fr *frame, recv iface, name string, args ...value) (value, bool) {
	if recv.t == nil {
		return nil, false
	}
	if sy, ok := in.synthMethods(recv.t); ok {
		if !sy[name] {
			return nil, false
		}
		return in.call(fr, 0, in.nativeMethod(recv.t, name), append([]value{recv.v}, args...)), true
	}
	ms := in.P.Prog.MethodSets.MethodSet(recv.t)
	for i := 0; i < ms.Len(); i++ {
		sel := ms.At(i)
		if sel.Obj().Name() == name {
			f := in.P.Prog.MethodValue(sel)
			if f == nil {
				return nil, false
			}
			return in.call(fr, 0, f, append([]value{recv.v}, args...)), true
		}
	}
	return nil, false
}

func (in *Interp) errorString(fr *frame, e iface) value {
	if e.t == nil {
		return "<nil>"
	}
	v, ok := in.callMethod(fr, e, "Error")
	if !ok {
		panic(unsupported{"Error() not found on " + e.t.String()})
	}
	return v
}

func (in *Interp) unwrapAll(fr *frame, e iface) []iface {
	if ee, ok := e.v.(*engineErr); ok {
		return ee.cause
	}
	if v, ok := in.callMethod(fr, e, "Unwrap"); ok {
		switch v := v.(type) {
		case iface:
			if v.t == nil {
				return nil
			}
			return []iface{v}
		case sliceVal:
			var out []iface
			for _, x := range v {
				if xi := x.(iface); xi.t != nil {
					out = append(out, xi)
				}
			}
			return out
		}
	}
	return nil
}

func (in *Interp) errorsIs(fr *frame, err, target iface) bool {
	if err.t == nil || target.t == nil {
		return err.t == nil && target.t == nil
	}
	comparable := types.Comparable(target.t)
	var walk func(e iface) bool
	walk = func(e iface) bool {
		if comparable && types.Identical(e.t, target.t) {
			eq := in.equals(e.t, e.v, target.v)
			if in.branch(eq) {
				return true
			}
		}
		if in.hasMethod(e.t, "Is") {
			if r, ok := in.callMethod(fr, e, "Is", target); ok {
				if in.branch(tm(r)) {
					return true
				}
			}
		}
		for _, u := range in.unwrapAll(fr, e) {
			if walk(u) {
				return true
			}
		}
		return false
	}
	return walk(err)
}

func (in *Interp) hasMethod(t types.Type, name string) bool {
	if sy, ok := in.synthMethods(t); ok {
		return sy[name] && name != "Is" && name != "As"
	}
	ms := in.P.Prog.MethodSets.MethodSet(t)
	for i := 0; i < ms.Len(); i++ {
		if ms.At(i).Obj().Name() == name {
			return true
		}
	}
	return false
}

func (in *Interp) errorsAs(fr *frame, err iface, target iface) bool {
	if target.t == nil {
		panic(targetPanic{msg: "errors: target cannot be nil"})
	}
	pt, ok := target.t.Underlying().(*types.Pointer)
	if !ok {
		panic(targetPanic{msg: "errors: target must be a non-nil pointer"})
	}
	tt := pt.Elem()
	dst := target.v.(*value)
	var walk func(e iface) bool
	walk = func(e iface) bool {
		if e.t == nil {
			return false
		}
		if it, ok := tt.Underlying().(*types.Interface); ok {
			if in.implements(e.t, it) {
				*dst = e
				return true
			}
		} else if types.Identical(e.t, tt) {
			*dst = copyVal(e.v)
			return true
		}
		if in.hasMethod(e.t, "As") {
			if r, ok := in.callMethod(fr, e, "As", target); ok && in.branch(tm(r)) {
				return true
			}
		}
		for _, u := range in.unwrapAll(fr, e) {
			if walk(u) {
				return true
			}
		}
		return false
	}
	return walk(err)
}

// fmtArgs renders interpreter values as Go values for native formatting.
func (in *Interp) fmtArg(fr *frame, v value) (interface{}, bool) {
	switch v := v.(type) {
	case iface:
		if v.t == nil {
			return nil, true
		}
		if in.hasMethodNamed(v.t, "Error") {
			s := in.errorString(fr, v)
			if gs, ok := s.(string); ok {
				return fmt.Errorf("%s", gs), true
			}
			return nil, false
		}
		if in.hasMethodNamed(v.t, "String") {
			if r, ok := in.callMethod(fr, v, "String"); ok {
				if gs, ok := r.(string); ok {
					return stringer(gs), true
				}
				return nil, false
			}
		}
		if b := basicOf(v.t); b != nil {
			if t, ok := v.v.(*smt.Term); ok && t.IsConst() {
				if w, signed, isInt := intWidth(b); isInt {
					_ = w
					if signed {
						return t.I64(), true
					}
					return t.U64(), true
				}
				if t.Op == smt.OpBoolConst {
					return t.B, true
				}
			}
		}
		return in.fmtArg(fr, v.v)
	case string:
		return v, true
	case *smt.Term:
		if v.IsConst() {
			if v.Op == smt.OpBoolConst {
				return v.B, true
			}
			return v.SVal(), true
		}
		if s, ok := in.C.GoString(v); ok && !strings.Contains(s, "~") {
			return s, true
		}
		return nil, false
	case float64:
		return v, true
	case bigVal:
		t := in.bigOf(v)
		if t.IsConst() {
			return t.Val, true
		}
		return nil, false
	case *value:
		if v == nil {
			return nil, true
		}
		if b, ok := (*v).(bigVal); ok {
			return in.fmtArg(fr, b)
		}
		return "&{...}", true
	case array:
		if p, ok := in.packBytes(v); ok && p.IsConst() {
			return p.Val.Bytes(), true
		}
		return "[...]", true
	case sliceVal:
		var out []interface{}
		for _, e := range v {
			x, ok := in.fmtArg(fr, e)
			if !ok {
				return nil, false
			}
			out = append(out, x)
		}
		return out, true
	case structure:
		return "{...}", true
	case timeVal:
		return in.fmtArg(fr, v.sec)
	case nil:
		return nil, true
	}
	return fmt.Sprintf("<%T>", v), true
}

type stringer string

func (s stringer) String() string { return string(s) }

func (in *Interp) hasMethodNamed(t types.Type, name string) bool { return in.hasMethod(t, name) }

func (in *Interp) sprintf(fr *frame, format value, args sliceVal) value {
	fs, ok := format.(string)
	if !ok {
		return in.freshOpq()
	}
	var gs []interface{}
	for _, a := range args {
		g, ok := in.fmtArg(fr, a)
		if !ok {
			return in.freshOpq()
		}
		gs = append(gs, g)
	}
	return fmt.Sprintf(fs, gs...)
}

func (in *Interp) freshOpq() value {
	t := in.C.Fresh("opqmsg", smt.Int)
	in.assumeSilently(in.C.ILe(in.C.IntConstI(1_000_000), t))
	return in.C.StrOpq(t)
}

func (P *Program) registerStd() {
	// ---- errors
	P.reg("errors.Is", func(fr *frame, args []value) value {
		return fr.in.boolv(fr.in.errorsIs(fr, args[0].(iface), args[1].(iface)))
	})
	P.reg("errors.As", func(fr *frame, args []value) value {
		return fr.in.boolv(fr.in.errorsAs(fr, args[0].(iface), args[1].(iface)))
	})
	P.reg("github.com/pkg/errors.Is", P.intrinsics["errors.Is"])
	P.reg("github.com/pkg/errors.As", P.intrinsics["errors.As"])
	P.reg("github.com/pkg/errors.callers", func(fr *frame, args []value) value { return (*value)(nil) })
	P.reg("errors.New", func(fr *frame, args []value) value { return fr.in.mkError(args[0]) })
	P.reg("errors.Join", func(fr *frame, args []value) value {
		var cs []iface
		for _, a := range args[0].(sliceVal) {
			if ai := a.(iface); ai.t != nil {
				cs = append(cs, ai)
			}
		}
		if len(cs) == 0 {
			return iface{}
		}
		return fr.in.mkError("joined errors", cs...)
	})
	P.reg("errors.Unwrap", func(fr *frame, args []value) value {
		us := fr.in.unwrapAll(fr, args[0].(iface))
		if len(us) == 0 {
			return iface{}
		}
		return us[0]
	})
	// ---- fmt
	P.reg("fmt.Sprintf", func(fr *frame, args []value) value { return fr.in.sprintf(fr, args[0], args[1].(sliceVal)) })
	P.reg("fmt.Sprint", func(fr *frame, args []value) value {
		in := fr.in
		var gs []interface{}
		for _, a := range args[0].(sliceVal) {
			g, ok := in.fmtArg(fr, a)
			if !ok {
				return in.freshOpq()
			}
			gs = append(gs, g)
		}
		return fmt.Sprint(gs...)
	})
	P.reg("fmt.Errorf", func(fr *frame, args []value) value {
		in := fr.in
		msg := in.sprintf(fr, args[0], args[1].(sliceVal))
		var causes []iface
		if fs, ok := args[0].(string); ok && strings.Contains(fs, "%w") {
			for _, a := range args[1].(sliceVal) {
				ai := a.(iface)
				if ai.t != nil && in.hasMethod(ai.t, "Error") {
					causes = append(causes, ai)
				}
			}
		}
		return in.mkError(msg, causes...)
	})
	for _, n := range []string{"fmt.Println", "fmt.Printf", "fmt.Print", "fmt.Fprintf", "fmt.Fprintln", "fmt.Fprint"} {
		P.reg(n, func(fr *frame, args []value) value { return tuple{fr.in.intv(0), iface{}} })
	}
	// ---- strings / strconv on concrete data (symbolic cases have dedicated models)
	s1 := func(f func(a string) string) intrinsic {
		return func(fr *frame, args []value) value { return f(fr.in.goStr(args[0], "strings arg")) }
	}
	P.reg("strings.ToLower", func(fr *frame, args []value) value {
		in := fr.in
		if gs, ok := args[0].(string); ok {
			return strings.ToLower(gs)
		}
		// symbolic: exact on the spellings of the literals the program compares against; any other
		// string lowers to something that is none of those literals (mixed-case spellings such as
		// "bEARER" are outside the string model)
		c := in.C
		st := in.strTerm(args[0])
		c.DeclareFun("str_lower", []smt.Sort{smt.Str}, smt.Str)
		res := c.App("str_lower", st)
		for _, w := range []string{"bearer", "basic"} {
			forms := c.Or(c.Eq(st, c.StrConst(w)), c.Eq(st, c.StrConst(strings.ToUpper(w))), c.Eq(st, c.StrConst(strings.ToUpper(w[:1])+w[1:])))
			in.assumeSilently(c.Eq(forms, c.Eq(res, c.StrConst(w))))
		}
		in.assumeSilently(c.Implies(c.Or(c.IsHex(st), c.IsDec(st)), c.Eq(res, st)))
		in.path.noteAssumption("strings.ToLower on symbolic text is exact for lower/UPPER/Capitalised spellings of compared literals; other mixed-case spellings are outside the string model")
		return res
	})
	P.reg("strings.ToUpper", s1(strings.ToUpper))
	P.reg("strings.ReplaceAll", func(fr *frame, args []value) value {
		in := fr.in
		return strings.ReplaceAll(in.goStr(args[0], "strings arg"), in.goStr(args[1], "strings arg"), in.goStr(args[2], "strings arg"))
	})
	P.reg("strings.TrimSpace", s1(strings.TrimSpace))
	P.reg("strings.Contains", func(fr *frame, args []value) value {
		in := fr.in
		a, aok := args[0].(string)
		b, bok := args[1].(string)
		if aok && bok {
			return in.boolv(strings.Contains(a, b))
		}
		// symbolic: decided only for whole-string equality; otherwise an uninterpreted predicate
		c := in.C
		c.DeclareFun("str_contains", []smt.Sort{smt.Str, smt.Str}, smt.Bool)
		at, bt := in.strTerm(args[0]), in.strTerm(args[1])
		r := c.App("str_contains", at, bt)
		in.assumeSilently(c.Implies(c.Eq(at, bt), r))
		return r
	})
	P.reg("strings.HasPrefix", func(fr *frame, args []value) value {
		return fr.in.boolv(strings.HasPrefix(fr.in.goStr(args[0], "HasPrefix"), fr.in.goStr(args[1], "HasPrefix")))
	})
	P.reg("strings.HasSuffix", func(fr *frame, args []value) value {
		return fr.in.boolv(strings.HasSuffix(fr.in.goStr(args[0], "HasSuffix"), fr.in.goStr(args[1], "HasSuffix")))
	})
	P.reg("strings.EqualFold", func(fr *frame, args []value) value {
		return fr.in.boolv(strings.EqualFold(fr.in.goStr(args[0], "EqualFold"), fr.in.goStr(args[1], "EqualFold")))
	})
	P.reg("strings.Split", func(fr *frame, args []value) value { return fr.in.stringsSplit(args[0], args[1]) })
	P.reg("strings.Join", func(fr *frame, args []value) value {
		in := fr.in
		var parts []string
		for _, p := range args[0].(sliceVal) {
			parts = append(parts, in.goStr(p, "strings.Join"))
		}
		return strings.Join(parts, in.goStr(args[1], "strings.Join"))
	})
	P.reg("strings.Repeat", func(fr *frame, args []value) value {
		return strings.Repeat(fr.in.goStr(args[0], "Repeat"), fr.in.mustInt(args[1], "Repeat"))
	})
	P.reg("strings.Index", func(fr *frame, args []value) value {
		return fr.in.intv(int64(strings.Index(fr.in.goStr(args[0], "Index"), fr.in.goStr(args[1], "Index"))))
	})
	P.reg("strings.TrimRight", func(fr *frame, args []value) value {
		return strings.TrimRight(fr.in.goStr(args[0], "TrimRight"), fr.in.goStr(args[1], "TrimRight"))
	})
	P.reg("strings.TrimPrefix", func(fr *frame, args []value) value {
		return strings.TrimPrefix(fr.in.goStr(args[0], "TrimPrefix"), fr.in.goStr(args[1], "TrimPrefix"))
	})
	P.reg("strconv.Itoa", func(fr *frame, args []value) value {
		in := fr.in
		return in.normStr(in.C.StrDec(in.C.BV2Int(tm(args[0]))))
	})
	P.reg("strconv.Atoi", func(fr *frame, args []value) value { return fr.in.parseInt(args[0], 64, true, "Atoi") })
	P.reg("strconv.ParseInt", func(fr *frame, args []value) value {
		in := fr.in
		base := in.mustInt(args[1], "ParseInt base")
		bits := in.mustInt(args[2], "ParseInt bits")
		if bits == 0 {
			bits = 64
		}
		if s, ok := args[0].(string); ok {
			v, err := strconv.ParseInt(s, base, bits)
			if err != nil {
				return tuple{in.C.BVConstI(v, 64), in.mkError(err.Error())}
			}
			return tuple{in.C.BVConstI(v, 64), iface{}}
		}
		if base != 10 {
			panic(unsupported{"ParseInt of symbolic string with base != 10"})
		}
		return in.parseInt(args[0], bits, true, "ParseInt")
	})
	P.reg("strconv.ParseUint", func(fr *frame, args []value) value {
		in := fr.in
		base := in.mustInt(args[1], "ParseUint base")
		bits := in.mustInt(args[2], "ParseUint bits")
		if bits == 0 {
			bits = 64
		}
		if s, ok := args[0].(string); ok {
			v, err := strconv.ParseUint(s, base, bits)
			if err != nil {
				return tuple{in.C.BVConstU(v, 64), in.mkError(err.Error())}
			}
			return tuple{in.C.BVConstU(v, 64), iface{}}
		}
		if base != 10 {
			panic(unsupported{"ParseUint of symbolic string with base != 10"})
		}
		return in.parseInt(args[0], bits, false, "ParseUint")
	})
	P.reg("strconv.FormatInt", func(fr *frame, args []value) value {
		in := fr.in
		if in.mustInt(args[1], "FormatInt base") != 10 {
			panic(unsupported{"FormatInt base != 10"})
		}
		return in.normStr(in.C.StrDec(in.C.BV2Int(tm(args[0]))))
	})
	P.reg("strconv.FormatUint", func(fr *frame, args []value) value {
		in := fr.in
		if in.mustInt(args[1], "FormatUint base") != 10 {
			panic(unsupported{"FormatUint base != 10"})
		}
		return in.normStr(in.C.StrDec(in.C.BV2Nat(tm(args[0]))))
	})
	// ---- sync / atomic
	noop := func(fr *frame, args []value) value { return nil }
	P.reg("(*sync.Mutex).Lock", func(fr *frame, args []value) value { fr.in.mutexLock(args[0].(*value)); return nil })
	P.reg("(*sync.Mutex).Unlock", func(fr *frame, args []value) value { fr.in.mutexUnlock(args[0].(*value)); return nil })
	P.reg("(*sync.RWMutex).Lock", func(fr *frame, args []value) value { fr.in.rwLock(args[0].(*value)); return nil })
	P.reg("(*sync.RWMutex).Unlock", func(fr *frame, args []value) value { fr.in.rwUnlock(args[0].(*value)); return nil })
	P.reg("(*sync.RWMutex).RLock", func(fr *frame, args []value) value { fr.in.rwRLock(args[0].(*value)); return nil })
	P.reg("(*sync.RWMutex).RUnlock", func(fr *frame, args []value) value { fr.in.rwRUnlock(args[0].(*value)); return nil })
	for _, n := range []string{"(*sync.WaitGroup).Add", "(*sync.WaitGroup).Done", "(*sync.WaitGroup).Wait", "runtime.Gosched", "runtime.GC"} {
		P.reg(n, noop)
	}
	// TryLock: outside an interleaving there is no other thread (always free); inside, the lock's state decides
	P.reg("(*sync.Mutex).TryLock", func(fr *frame, args []value) value {
		in := fr.in
		c := in.co()
		if c == nil {
			return in.boolv(true)
		}
		mu := args[0].(*value)
		if _, held := c.held[mu]; held {
			return in.boolv(false)
		}
		c.held[mu] = c.cur
		return in.boolv(true)
	})
	P.reg("(*sync.RWMutex).TryLock", func(fr *frame, args []value) value {
		in := fr.in
		c := in.co()
		if c == nil {
			return in.boolv(true)
		}
		st := c.rwOf(args[0].(*value))
		if st.writer >= 0 || st.readers[0]+st.readers[1] > 0 {
			return in.boolv(false)
		}
		st.writer = c.cur
		return in.boolv(true)
	})
	P.reg("(*sync.RWMutex).TryRLock", func(fr *frame, args []value) value {
		in := fr.in
		c := in.co()
		if c == nil {
			return in.boolv(true)
		}
		st := c.rwOf(args[0].(*value))
		if st.writer >= 0 {
			return in.boolv(false)
		}
		st.readers[c.cur]++
		return in.boolv(true)
	})
	P.reg("(*sync.Once).Do", func(fr *frame, args []value) value {
		in := fr.in
		p := args[0].(*value)
		st := (*p).(structure)
		key := fmt.Sprintf("once:%p", p)
		_ = st
		if in.extra[key] == nil {
			in.extra[key] = true
			in.call(fr, 0, args[1], nil)
		}
		return nil
	})
	atomicLoad := func(fr *frame, args []value) value { return fr.in.load(nil, args[0].(*value)) }
	atomicStore := func(fr *frame, args []value) value { fr.in.store(args[0].(*value), args[1]); return nil }
	atomicAdd := func(fr *frame, args []value) value {
		p := args[0].(*value)
		n := fr.in.C.BVAdd(tm(*p), tm(args[1]))
		*p = n
		return n
	}
	atomicSwap := func(fr *frame, args []value) value {
		p := args[0].(*value)
		old := *p
		*p = args[1]
		return old
	}
	atomicCAS := func(fr *frame, args []value) value {
		in := fr.in
		p := args[0].(*value)
		eq := in.C.Eq(tm(*p), tm(args[1]))
		if in.branch(eq) {
			*p = args[2]
			return in.boolv(true)
		}
		return in.boolv(false)
	}
	for _, ty := range []string{"Int32", "Int64", "Uint32", "Uint64", "Uintptr"} {
		P.reg("sync/atomic.Load"+ty, atomicLoad)
		P.reg("sync/atomic.Store"+ty, atomicStore)
		P.reg("sync/atomic.Add"+ty, atomicAdd)
		P.reg("sync/atomic.Swap"+ty, atomicSwap)
		P.reg("sync/atomic.CompareAndSwap"+ty, atomicCAS)
	}
	// ---- sync.Map as an association list keyed by interface values
	smOf := func(in *Interp, v value) *smap {
		p := v.(*value)
		key := fmt.Sprintf("syncmap:%p", p)
		m, _ := in.extra[key].(*smap)
		if m == nil {
			m = newMap(types.NewInterfaceType(nil, nil))
			in.extra[key] = m
		}
		return m
	}
	P.reg("(*sync.Map).Load", func(fr *frame, args []value) value {
		in := fr.in
		m := smOf(in, args[0])
		if i := in.mapFind(m, args[1]); i >= 0 {
			return tuple{m.vals[i], in.boolv(true)}
		}
		return tuple{iface{}, in.boolv(false)}
	})
	P.reg("(*sync.Map).Store", func(fr *frame, args []value) value {
		fr.in.mapSet(smOf(fr.in, args[0]), args[1], args[2])
		return nil
	})
	P.reg("(*sync.Map).LoadOrStore", func(fr *frame, args []value) value {
		in := fr.in
		m := smOf(in, args[0])
		if i := in.mapFind(m, args[1]); i >= 0 {
			return tuple{m.vals[i], in.boolv(true)}
		}
		in.mapSet(m, args[1], args[2])
		return tuple{args[2], in.boolv(false)}
	})
	P.reg("(*sync.Map).Delete", func(fr *frame, args []value) value {
		fr.in.mapDelete(smOf(fr.in, args[0]), args[1])
		return nil
	})
	// ---- context
	P.reg("context.Background", func(fr *frame, args []value) value {
		return iface{t: fr.in.synthType("opaque.context.Context"), v: &opaque{kind: "context"}}
	})
	P.reg("context.TODO", P.intrinsics["context.Background"])
	P.reg("context.WithTimeout", func(fr *frame, args []value) value {
		return tuple{args[0], &native{name: "cancel", fn: func(fr *frame, args []value) value { return nil }}}
	})
	P.reg("context.WithCancel", func(fr *frame, args []value) value {
		return tuple{args[0], &native{name: "cancel", fn: func(fr *frame, args []value) value { return nil }}}
	})
	P.reg("github.com/dchest/uniuri.NewLen", func(fr *frame, args []value) value {
		fr.in.path.noteAssumption("uniuri.NewLen returns an arbitrary string")
		v := fr.in.freshOpq()
		if fr.in.extra["random-strings"] == nil {
			fr.in.extra["random-strings"] = map[*smt.Term]bool{}
		}
		fr.in.extra["random-strings"].(map[*smt.Term]bool)[v.(*smt.Term)] = true
		return v
	})
	// vh.FromRandomSource: the string was produced by the modelled cryptographic generator
	P.reg(VH+".FromRandomSource", func(fr *frame, args []value) value {
		m, _ := fr.in.extra["random-strings"].(map[*smt.Term]bool)
		t, ok := args[0].(*smt.Term)
		return fr.in.boolv(ok && m[t])
	})
	P.reg("github.com/dchest/uniuri.New", P.intrinsics["github.com/dchest/uniuri.NewLen"])
	// ---- encoding/json: the encoder is outside the model; the bytes are a blob tagged with the value
	P.reg("encoding/json.Marshal", func(fr *frame, args []value) value {
		fr.in.path.noteAssumption("json.Marshal yields an opaque blob that stands for the JSON text of its argument")
		return tuple{sliceVal{&opaque{kind: "json", data: args[0]}}, iface{}}
	})
	P.reg(VH+".IsJSONOf", func(fr *frame, args []value) value {
		in := fr.in
		data := args[0].(sliceVal)
		if len(data) != 1 {
			return in.boolv(false)
		}
		o, ok := data[0].(*opaque)
		if !ok || o.kind != "json" {
			return in.boolv(false)
		}
		src := o.data.(iface)
		want := args[1].(iface)
		if src.t == nil || want.t == nil || !types.Identical(src.t, want.t) {
			return in.boolv(false)
		}
		return in.equals(src.t, src.v, want.v)
	})
	// ---- net.IP as bytes (possibly symbolic)
	ipBytes := func(v value) sliceVal { s, _ := v.(sliceVal); return s }
	v4prefix := func(in *Interp) sliceVal {
		p := make(sliceVal, 12)
		for i := range p {
			p[i] = in.C.BVConstU(0, 8)
		}
		p[10], p[11] = in.C.BVConstU(0xff, 8), in.C.BVConstU(0xff, 8)
		return p
	}
	isV4in16 := func(in *Interp, ip sliceVal) *smt.Term {
		var cs []*smt.Term
		for i := 0; i < 10; i++ {
			cs = append(cs, in.C.Eq(tm(ip[i]), in.C.BVConstU(0, 8)))
		}
		cs = append(cs, in.C.Eq(tm(ip[10]), in.C.BVConstU(0xff, 8)), in.C.Eq(tm(ip[11]), in.C.BVConstU(0xff, 8)))
		return in.C.And(cs...)
	}
	P.reg("(net.IP).To16", func(fr *frame, args []value) value {
		ip := ipBytes(args[0])
		switch len(ip) {
		case 4:
			return sliceVal(append(v4prefix(fr.in), ip...))
		case 16:
			return ip
		}
		return sliceVal(nil)
	})
	P.reg("(net.IP).To4", func(fr *frame, args []value) value {
		ip := ipBytes(args[0])
		if len(ip) == 4 {
			return ip
		}
		if len(ip) == 16 && fr.in.branch(isV4in16(fr.in, ip)) {
			return sliceVal(ip[12:16])
		}
		return sliceVal(nil)
	})
	P.reg("(net.IP).Equal", func(fr *frame, args []value) value {
		in := fr.in
		a, b := ipBytes(args[0]), ipBytes(args[1])
		norm := func(x sliceVal) sliceVal {
			if len(x) == 4 {
				return append(v4prefix(in), x...)
			}
			return x
		}
		if (len(a) != 4 && len(a) != 16) || (len(b) != 4 && len(b) != 16) {
			return in.boolv(len(a) == len(b) && len(a) == 0)
		}
		return in.bstrEq(bstr{norm(a)}, bstr{norm(b)})
	})
	P.reg("(net.IP).String", func(fr *frame, args []value) value { return fr.in.freshOpq() })
	P.reg("net.ParseIP", func(fr *frame, args []value) value {
		ip := net.ParseIP(fr.in.goStr(args[0], "net.ParseIP"))
		var out sliceVal
		for _, b := range ip {
			out = append(out, fr.in.C.BVConstU(uint64(b), 8))
		}
		return out
	})
	// ---- net: concrete address text only
	// (*net.TCPAddr).String / Network: exact for the zero address and for concrete IPv4 + port
	P.reg("(*net.TCPAddr).String", func(fr *frame, args []value) value {
		in := fr.in
		p, _ := args[0].(*value)
		if p == nil {
			return "<nil>"
		}
		st := (*p).(structure)
		t := in.P.namedType("net.TCPAddr")
		ip, _ := st[structField(t, "IP")].(sliceVal)
		port, ok := st[structField(t, "Port")].(*smt.Term)
		if !ok || !port.IsConst() {
			return in.freshOpq()
		}
		bs := make([]byte, 0, len(ip))
		for _, b := range ip {
			bt, ok := b.(*smt.Term)
			if !ok || !bt.IsConst() {
				return in.freshOpq()
			}
			bs = append(bs, byte(bt.I64()))
		}
		return (&net.TCPAddr{IP: net.IP(bs), Port: int(port.I64())}).String()
	})
	P.reg("(*net.TCPAddr).Network", func(fr *frame, args []value) value { return "tcp" })
	P.reg("net.SplitHostPort", func(fr *frame, args []value) value {
		in := fr.in
		h, p, err := net.SplitHostPort(in.goStr(args[0], "net.SplitHostPort"))
		if err != nil {
			return tuple{"", "", in.mkError(err.Error())}
		}
		return tuple{h, p, iface{}}
	})
	P.reg("net.JoinHostPort", func(fr *frame, args []value) value {
		return net.JoinHostPort(fr.in.goStr(args[0], "host"), fr.in.goStr(args[1], "port"))
	})
	P.reg(RepoModule+"/transports/p2p/addrmgr.GroupKey", func(fr *frame, args []value) value {
		// the address group is a function of the address: an uninterpreted key per address object
		fr.in.path.noteAssumption("addrmgr.GroupKey is an uninterpreted function of the address object")
		return fmt.Sprintf("group:%p", args[0])
	})
	P.reg("crypto/rand.Int", func(fr *frame, args []value) value {
		in := fr.in
		max := in.bigOf(*args[1].(*value))
		in.path.noteAssumption("crypto/rand.Int returns an arbitrary value in [0, max)")
		var t *smt.Term
		if max.IsConst() && max.Op == smt.OpIntConst && max.Val.IsUint64() {
			// a bit-vector variable seen as a natural number: Int64() of the result folds back to it,
			// so that the path condition stays in one theory
			r := in.C.Fresh("rand", smt.BV(64))
			in.assumeSilently(in.C.BVULt(r, in.C.BVConstU(max.Val.Uint64(), 64)))
			t = in.C.BV2Nat(r)
		} else {
			t = in.C.Fresh("rand", smt.Int)
			in.assumeSilently(in.C.ILe(in.C.IntConstI(0), t))
			in.assumeSilently(in.C.ILt(t, max))
		}
		var cell value = bigVal{t}
		return tuple{&cell, iface{}}
	})
	// ---- math/rand: a generator made with rand.New(rand.NewSource(seed)) is a deterministic function
	// of its seed and of the number of values drawn so far (uninterpreted function mathrand); the
	// package-level functions (seeded by the runtime) return arbitrary values.
	type randState struct {
		seed *smt.Term
		ctr  int
	}
	P.reg("math/rand.NewSource", func(fr *frame, args []value) value {
		var cell value = &opaque{kind: "rand.Source", data: args[0].(*smt.Term)}
		return iface{t: types.NewPointer(fr.in.P.namedType("math/rand.rngSource")), v: &cell}
	})
	P.reg("math/rand.New", func(fr *frame, args []value) value {
		src, _ := args[0].(iface)
		p, ok := src.v.(*value)
		if !ok || p == nil {
			panic(unsupported{"math/rand.New over a source that is not rand.NewSource(seed)"})
		}
		o, ok := (*p).(*opaque)
		if !ok || o.kind != "rand.Source" {
			panic(unsupported{"math/rand.New over a source that is not rand.NewSource(seed)"})
		}
		fr.in.path.noteAssumption("math/rand: a seeded generator is a deterministic function of (seed, draw number)")
		var cell value = &opaque{kind: "rand.Rand", data: &randState{seed: o.data.(*smt.Term)}}
		return &cell
	})
	randNext := func(fr *frame, recv value) *smt.Term {
		in := fr.in
		if recv == nil { // package-level function
			in.path.noteAssumption("package-level math/rand functions return arbitrary values")
			return in.C.Fresh("mathrand", smt.BV(64))
		}
		st := (*recv.(*value)).(*opaque).data.(*randState)
		in.C.DeclareFun("mathrand", []smt.Sort{smt.BV(64), smt.Int}, smt.BV(64))
		t := in.C.App("mathrand", st.seed, in.C.IntConstI(int64(st.ctr)))
		st.ctr++
		return t
	}
	for _, m := range []struct {
		name  string
		width int  // result width
		bound bool // takes n
		bits  int  // non-negative result bits when unbounded
	}{{"Intn", 64, true, 0}, {"Int63n", 64, true, 0}, {"Int31n", 32, true, 0}, {"Int63", 64, false, 63}, {"Int", 64, false, 63}, {"Int31", 32, false, 31}, {"Uint32", 32, false, 32}, {"Uint64", 64, false, 64}} {
		m := m
		gen := func(method bool) func(fr *frame, args []value) value {
			return func(fr *frame, args []value) value {
				in := fr.in
				var recv value
				if method {
					recv, args = args[0], args[1:]
				}
				r := randNext(fr, recv)
				if m.bound {
					n := args[0].(*smt.Term)
					if !in.branch(in.C.BVSLt(in.C.BVConstU(0, n.Sort.W), n)) {
						panic(targetPanic{msg: "invalid argument to " + m.name})
					}
					// the draw reduced into [0, n): a function of the draw and n (no remainder arithmetic)
					if n.Sort.W < 64 {
						n = in.C.ZExt(n, 64)
					}
					in.C.DeclareFun("mathrand_below", []smt.Sort{smt.BV(64), smt.BV(64)}, smt.BV(64))
					b := in.C.App("mathrand_below", r, n)
					in.assumeSilently(in.C.BVULt(b, n))
					if m.width < 64 {
						b = in.C.Extract(b, m.width-1, 0)
					}
					return b
				}
				if m.bits < 64 {
					r = in.C.BVLShr(r, in.C.BVConstU(uint64(64-m.bits), 64))
				}
				if m.width < 64 {
					r = in.C.Extract(r, m.width-1, 0)
				}
				return r
			}
		}
		P.reg("(*math/rand.Rand)."+m.name, gen(true))
		P.reg("math/rand."+m.name, gen(false))
	}
	// ---- sort.Slice / SliceStable: a stable insertion sort driven by the program's own less
	// function (each comparison of symbolic keys is a branch)
	sortSlice := func(fr *frame, args []value) value {
		in := fr.in
		sv, ok := args[0].(iface)
		if !ok || sv.t == nil {
			return nil
		}
		xs, ok := sv.v.(sliceVal)
		if !ok {
			panic(unsupported{"sort.Slice on a non-slice"})
		}
		less := func(i, j int) bool {
			r := in.call(fr, 0, args[1], []value{in.intv(int64(i)), in.intv(int64(j))})
			return in.branch(tm(r))
		}
		for i := 1; i < len(xs); i++ {
			for j := i; j > 0 && less(j, j-1); j-- {
				xs[j], xs[j-1] = xs[j-1], xs[j]
			}
		}
		return nil
	}
	// ---- math/bits.Len*: bit length (an ite chain over the leading bit for symbolic arguments)
	bitsLen := func(w int) intrinsic {
		return func(fr *frame, args []value) value {
			in := fr.in
			c := in.C
			x := tm(args[0])
			if x.IsConst() {
				return in.intv(int64(bits.Len64(x.U64())))
			}
			xw := x.Sort.W
			r := c.BVConstI(0, 64)
			for i := 0; i < xw && i < w; i++ {
				bit := c.Eq(c.Extract(x, i, i), c.BVConstU(1, 1))
				r = c.Ite(bit, c.BVConstI(int64(i+1), 64), r)
			}
			return r
		}
	}
	P.reg("math/bits.Len", bitsLen(64))
	P.reg("math/bits.Len64", bitsLen(64))
	P.reg("math/bits.Len32", bitsLen(32))
	P.reg("math/bits.Len16", bitsLen(16))
	P.reg("math/bits.Len8", bitsLen(8))
	// ---- internal/bytealg (assembly in the standard library): first index of a byte
	indexByte := func(fr *frame, args []value) value {
		in := fr.in
		var bs []value
		switch x := args[0].(type) {
		case sliceVal:
			bs = x
		case string:
			bs = in.bytesOfString(x)
		case bstr:
			bs = x.b
		default:
			panic(unsupported{"bytealg.IndexByte on a symbolic string"})
		}
		c := tm(args[1])
		for i, b := range bs {
			if in.branch(in.C.Eq(tm(b), c)) {
				return in.intv(int64(i))
			}
		}
		return in.intv(-1)
	}
	P.reg("internal/bytealg.IndexByte", indexByte)
	P.reg("internal/bytealg.IndexByteString", indexByte)
	P.reg("sort.Slice", sortSlice)
	P.reg("sort.SliceStable", sortSlice)
	// ---- misc
	P.reg("os.Exit", func(fr *frame, args []value) value { panic(targetPanic{msg: "os.Exit called"}) })
}

// parseInt models strconv parsing of a (possibly symbolic) decimal string.
func (in *Interp) parseInt(s value, bits int, signed bool, what string) value {
	c := in.C
	if gs, ok := s.(string); ok {
		if signed {
			v, err := strconv.ParseInt(gs, 10, bits)
			if err != nil {
				return tuple{c.BVConstI(v, 64), in.mkError(err.Error())}
			}
			return tuple{c.BVConstI(v, 64), iface{}}
		}
		v, err := strconv.ParseUint(gs, 10, bits)
		if err != nil {
			return tuple{c.BVConstU(v, 64), in.mkError(err.Error())}
		}
		return tuple{c.BVConstU(v, 64), iface{}}
	}
	st := in.strTerm(s)
	errv := in.mkError("strconv." + what + ": parsing: invalid syntax or out of range")
	if !in.branch(c.IsDec(st)) {
		// non-numeric text. (Non-canonical numerals such as "+5" or "007" are outside the string model.)
		in.path.noteAssumption("strconv: only canonical decimal numerals parse; '+5', '007' style inputs are outside the string model")
		return tuple{c.BVConstI(0, 64), errv}
	}
	n := c.DecVal(st)
	var lo, hi *big.Int
	if signed {
		lo = new(big.Int).Neg(bigPow2(uint(bits - 1)))
		hi = new(big.Int).Sub(bigPow2(uint(bits-1)), big.NewInt(1))
	} else {
		lo = big.NewInt(0)
		hi = new(big.Int).Sub(bigPow2(uint(bits)), big.NewInt(1))
	}
	inr := c.And(c.ILe(c.IntConst(lo), n), c.ILe(n, c.IntConst(hi)))
	if !in.branch(inr) {
		// strconv returns the clamped value with a range error
		return tuple{c.BVConstI(0, 64), errv}
	}
	return tuple{c.Int2BV(n, 64), iface{}}
}

// stringsSplit supports concrete strings, and symbolic strings built as cat of
// separator-free atoms and the literal separator.
func (in *Interp) stringsSplit(s, sep value) value {
	sp := in.goStr(sep, "strings.Split separator")
	if gs, ok := s.(string); ok {
		var out sliceVal
		for _, p := range strings.Split(gs, sp) {
			out = append(out, p)
		}
		return out
	}
	t := in.strTerm(s)
	// flatten cat
	var atoms []*smt.Term
	var flat func(x *smt.Term)
	flat = func(x *smt.Term) {
		if x.Op == smt.OpStrCat {
			flat(x.Args[0])
			flat(x.Args[1])
			return
		}
		atoms = append(atoms, x)
	}
	flat(t)
	var out sliceVal
	var cur *smt.Term
	flush := func() {
		if cur == nil {
			out = append(out, "")
		} else {
			out = append(out, in.normStr(cur))
		}
		cur = nil
	}
	for _, a := range atoms {
		if gs, ok := in.C.GoString(a); ok && !strings.Contains(gs, "~") {
			parts := strings.Split(gs, sp)
			for i, p := range parts {
				if i > 0 {
					flush()
				}
				if p != "" {
					pt := in.C.StrConst(p)
					if cur == nil {
						cur = pt
					} else {
						cur = in.C.StrCat(cur, pt)
					}
				}
			}
			continue
		}
		if !in.isSepFreeAtom(a) {
			panic(unsupported{"strings.Split on a symbolic string that is not a cat of separator-free atoms"})
		}
		if cur == nil {
			cur = a
		} else {
			cur = in.C.StrCat(cur, a)
		}
	}
	flush()
	return out
}

func (in *Interp) isSepFreeAtom(a *smt.Term) bool {
	return in.path.sepFree[a.ID]
}

var _ = ssa.NaiveForm
