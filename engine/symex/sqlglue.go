package symex

import (
	"bytes"
	"encoding/json"
	"fmt"
	"go/types"
	"os"
	"os/exec"
	"path/filepath"
	"reflect"
	"regexp"
	"sort"
	"strings"
	"sync"

	"bhsverif/smt"
	"bhsverif/sqlm"

	"golang.org/x/tools/go/ssa"
)

// ---- schema / plan probe (real SQLite)

type probeCol struct {
	Name    string `json:"name"`
	Type    string `json:"type"`
	Dflt    string `json:"dflt"`
	HasDflt bool   `json:"has_dflt"`
	PK      int    `json:"pk"`
}
type probeIndex struct {
	Name   string   `json:"name"`
	Unique bool     `json:"unique"`
	Cols   []string `json:"cols"`
}
type probeTable struct {
	Cols    []probeCol   `json:"cols"`
	Indexes []probeIndex `json:"indexes"`
}
type ProbeOut struct {
	Version string                `json:"sqlite_version"`
	Tables  map[string]probeTable `json:"tables"`
	Plans   map[string][]string   `json:"plans"`
	Errors  map[string]string     `json:"errors"`
}

type SchemaInfo struct {
	Statements []string
	mu         sync.Mutex
	Probe      ProbeOut
	Plans      map[string][]string // by normalised text
	repo       string
}

var sqlStart = regexp.MustCompile(`(?is)^\s*(select|with|insert|update|delete)\b`)

func collectSQL(prog *ssa.Program) []string {
	seen := map[string]bool{}
	var out []string
	for _, pkg := range prog.AllPackages() {
		if !strings.HasPrefix(pkg.Pkg.Path(), RepoModule+"/database") {
			continue
		}
		var fns []*ssa.Function
		for _, m := range pkg.Members {
			switch m := m.(type) {
			case *ssa.Function:
				fns = append(fns, m)
			case *ssa.Type:
				for _, t := range []types.Type{m.Type(), types.NewPointer(m.Type())} {
					ms := prog.MethodSets.MethodSet(t)
					for i := 0; i < ms.Len(); i++ {
						if f := prog.MethodValue(ms.At(i)); f != nil {
							fns = append(fns, f)
						}
					}
				}
			}
		}
		for i := 0; i < len(fns); i++ {
			f := fns[i]
			fns = append(fns, f.AnonFuncs...)
			for _, b := range f.Blocks {
				for _, ins := range b.Instrs {
					for _, op := range ins.Operands(nil) {
						if c, ok := (*op).(*ssa.Const); ok && c.Value != nil {
							if bt, ok := c.Type().Underlying().(*types.Basic); ok && bt.Info()&types.IsString != 0 {
								s := constantString(c)
								if sqlStart.MatchString(s) && !strings.Contains(s, "%") && !seen[s] {
									seen[s] = true
									out = append(out, s)
								}
							}
						}
					}
				}
			}
		}
	}
	return out
}

func runProbe(repo string, stmts []string) (ProbeOut, error) {
	var po ProbeOut
	in, _ := json.Marshal(map[string]interface{}{"migrations_dir": filepath.Join(repo, "database/migrations"), "statements": stmts})
	cmd := exec.Command("/verif/bin/schemaprobe")
	cmd.Stdin = bytes.NewReader(in)
	var stderr bytes.Buffer
	cmd.Stderr = &stderr
	out, err := cmd.Output()
	if err != nil {
		return po, fmt.Errorf("schemaprobe: %v: %s", err, stderr.String())
	}
	if err := json.Unmarshal(out, &po); err != nil {
		return po, err
	}
	return po, nil
}

func (P *Program) loadSchema() error {
	stmts := collectSQL(P.Prog)
	po, err := runProbe(P.RepoDir, stmts)
	if err != nil {
		return err
	}
	si := &SchemaInfo{Probe: po, Plans: map[string][]string{}, repo: P.RepoDir, Statements: stmts}
	for s, lines := range po.Plans {
		si.Plans[sqlm.NormSQL(s)] = lines
	}
	P.Schema = si
	return nil
}

// PlanFor returns the plan of a statement, probing the real engine on first sight.
func (si *SchemaInfo) PlanFor(sql string) []string {
	n := sqlm.NormSQL(sql)
	si.mu.Lock()
	defer si.mu.Unlock()
	if p, ok := si.Plans[n]; ok {
		return p
	}
	po, err := runProbe(si.repo, []string{sql})
	if err != nil || po.Plans[sql] == nil {
		si.Plans[n] = nil
		return nil
	}
	si.Plans[n] = po.Plans[sql]
	return si.Plans[n]
}

// ---- per-path database state

type dbState struct {
	db      *sqlm.DB
	parsed  map[string]interface{}
	commits int
	failAt  int // the failAt-th commit from the start fails (0 = never)
	// failStmt: the failure is delivered at the first write statement inside that transaction instead
	failStmt, fired bool
	killAt  int // execution stops right after the killAt-th commit (0 = never)
	writes  []string
	// storage-operation boundaries (one per statement execution and per commit) and the intruder
	ops       int
	intrudeAt int
	intruder  value
}

// storageOp marks a storage-operation boundary: an armed intruder (another request served in the
// meantime) runs right before the chosen operation.
func (in *Interp) storageOp(fr *frame, st *dbState) {
	st.ops++
	if st.intruder != nil && st.ops == st.intrudeAt {
		f := st.intruder
		st.intruder = nil
		in.call(fr, 0, f, nil)
	}
}

type dbHandle struct{ st *dbState }
type txHandle struct {
	st    *dbState
	base  *sqlm.DB
	local *sqlm.DB
	done  bool
	wrote bool
}

type killSignal struct{}

type inList struct{ vals []value }

var tableStructs = map[string]string{
	"headers":  RepoModule + "/repository/dto.DbBlockHeader",
	"tokens":   RepoModule + "/repository/dto.DbToken",
	"webhooks": RepoModule + "/repository/dto.DbWebhook",
}

func (P *Program) namedType(qual string) *types.Named {
	i := strings.LastIndex(qual, ".")
	pkg := P.TPkgs[qual[:i]]
	if pkg == nil {
		return nil
	}
	o := pkg.Scope().Lookup(qual[i+1:])
	if o == nil {
		return nil
	}
	n, _ := o.Type().(*types.Named)
	return n
}

func kindOfGo(t types.Type) (sqlm.Kind, bool) {
	if isTimeType(t) {
		return sqlm.KTime, true
	}
	if b, ok := t.Underlying().(*types.Basic); ok {
		switch {
		case b.Info()&types.IsInteger != 0:
			return sqlm.KInt, true
		case b.Info()&types.IsString != 0:
			return sqlm.KStr, true
		case b.Info()&types.IsBoolean != 0:
			return sqlm.KBool, true
		}
	}
	return 0, false
}

func kindOfSQL(ty string) sqlm.Kind {
	u := strings.ToUpper(ty)
	switch {
	case strings.Contains(u, "INT"):
		return sqlm.KInt
	case strings.Contains(u, "TIMESTAMP") || strings.Contains(u, "DATE"):
		return sqlm.KTime
	case strings.Contains(u, "BOOL"):
		return sqlm.KBool
	}
	return sqlm.KStr
}

func dbTag(f *types.Var, tag string) string {
	st := reflect.StructTag(tag)
	if v, ok := st.Lookup("db"); ok {
		return strings.Split(v, ",")[0]
	}
	return strings.ToLower(f.Name())
}

func (in *Interp) newDBState() *dbState {
	si, _ := in.P.Schema.(*SchemaInfo)
	if si == nil {
		panic(unsupported{"no schema probe available"})
	}
	db := &sqlm.DB{Tables: map[string]*sqlm.Table{}, Indexes: map[string][]sqlm.IndexInfo{}, Plans: si.Plans, TmpIdx: map[string]*sqlm.CreateIndex{}}
	for name, pt := range si.Probe.Tables {
		if name == "schema_migrations" {
			continue
		}
		goKinds := map[string]sqlm.Kind{}
		if q, ok := tableStructs[name]; ok {
			if nt := in.P.namedType(q); nt != nil {
				st := nt.Underlying().(*types.Struct)
				for i := 0; i < st.NumFields(); i++ {
					if k, ok := kindOfGo(st.Field(i).Type()); ok {
						goKinds[dbTag(st.Field(i), st.Tag(i))] = k
					}
				}
			}
		}
		t := &sqlm.Table{Name: name}
		for _, c := range pt.Cols {
			k, ok := goKinds[c.Name]
			if !ok {
				k = kindOfSQL(c.Type)
			}
			t.Cols = append(t.Cols, sqlm.Column{Name: c.Name, K: k, Dflt: c.Dflt, HasD: c.HasDflt, PK: c.PK > 0})
		}
		db.Tables[name] = t
		for _, ix := range pt.Indexes {
			db.Indexes[name] = append(db.Indexes[name], sqlm.IndexInfo{Name: ix.Name, Cols: ix.Cols, Unique: ix.Unique})
		}
	}
	return &dbState{db: db, parsed: map[string]interface{}{}}
}

// ---- sqlm.Env implementation

type sqlEnv struct{ in *Interp }

func (e sqlEnv) Ctx() *smt.Ctx                        { return e.in.C }
func (e sqlEnv) Branch(c *smt.Term) bool              { return e.in.branch(c) }
func (e sqlEnv) Unsupported(msg string)               { panic(unsupported{msg}) }
func (e sqlEnv) Note(msg string)                      { e.in.path.noteAssumption(msg) }
func (e sqlEnv) Fresh(p string, s smt.Sort) *smt.Term { return e.in.C.Fresh(p, s) }
func (e sqlEnv) Concretize(t *smt.Term, what string) int64 {
	return e.in.concretize(t, what).Int64()
}
func (e sqlEnv) IsUnsat(c *smt.Term) bool {
	if c.IsFalse() {
		return true
	}
	return e.in.path.sess.CheckPop(c) == smt.Unsat
}
func (e sqlEnv) MustBeUnsat(c *smt.Term, what string) {
	if c.IsFalse() {
		return
	}
	if e.in.path.sess.CheckPop(c) != smt.Unsat {
		panic(unsupported{"UNWIND " + what})
	}
}

// ---- Go <-> SQL values

func (in *Interp) toSQL(v value, t types.Type) sqlm.ParamVal {
	c := in.C
	nn := func(k sqlm.Kind, tt *smt.Term) sqlm.ParamVal {
		return sqlm.ParamVal{V: sqlm.Val{K: k, T: tt, Null: c.False()}}
	}
	switch x := v.(type) {
	case iface:
		if x.t == nil {
			return sqlm.ParamVal{V: sqlm.Val{K: sqlm.KInt, T: c.BVConstI(0, 64), Null: c.True()}}
		}
		if il, ok := x.v.(*inList); ok {
			var vs []sqlm.Val
			for _, e := range il.vals {
				vs = append(vs, in.toSQL(e, nil).V)
			}
			return sqlm.ParamVal{IsList: true, List: vs}
		}
		return in.toSQL(x.v, x.t)
	case string:
		return nn(sqlm.KStr, c.StrConst(x))
	case bstr:
		return nn(sqlm.KStr, in.strTerm(x))
	case timeVal:
		return nn(sqlm.KTime, x.sec)
	case *smt.Term:
		switch x.Sort.K {
		case smt.KStr:
			return nn(sqlm.KStr, x)
		case smt.KBool:
			return nn(sqlm.KBool, x)
		case smt.KBV:
			signed := true
			if t != nil {
				signed = isSigned(t)
			}
			if signed {
				return nn(sqlm.KInt, c.SExt(x, 64))
			}
			return nn(sqlm.KInt, c.ZExt(x, 64))
		}
	case structure:
		// sql.NullString and friends
		if t != nil && strings.HasPrefix(t.String(), "database/sql.Null") {
			inner := in.toSQL(x[0], t.Underlying().(*types.Struct).Field(0).Type())
			inner.V.Null = c.Not(tm(x[1]))
			return inner
		}
	case sliceVal:
		var vs []sqlm.Val
		var et types.Type
		if t != nil {
			if s, ok := t.Underlying().(*types.Slice); ok {
				et = s.Elem()
			}
		}
		for _, e := range x {
			vs = append(vs, in.toSQL(e, et).V)
		}
		return sqlm.ParamVal{IsList: true, List: vs}
	}
	panic(unsupported{fmt.Sprintf("sql: cannot bind Go value %T (%v)", v, t)})
}

// fromSQL converts v for storing into a Go location of type t. ok=false: the value cannot be scanned (NULL into non-nullable).
func (in *Interp) fromSQL(v sqlm.Val, t types.Type) (value, *smt.Term) {
	c := in.C
	if isTimeType(t) {
		if v.K != sqlm.KTime && v.K != sqlm.KInt {
			panic(unsupported{"sql: scanning " + v.K.String() + " into time.Time"})
		}
		return timeVal{v.T}, v.Null
	}
	if st, ok := t.Underlying().(*types.Struct); ok && strings.HasPrefix(t.String(), "database/sql.Null") {
		inner, _ := in.fromSQL(sqlm.Val{K: v.K, T: v.T, Null: c.False()}, st.Field(0).Type())
		zero := in.zero(st.Field(0).Type())
		var f0 value
		if v.Null.IsFalse() {
			f0 = inner
		} else if v.Null.IsTrue() {
			f0 = zero
		} else {
			switch iv := inner.(type) {
			case *smt.Term:
				f0 = c.Ite(v.Null, in.asTerm(zero), iv)
			case string:
				f0 = in.normStr(c.Ite(v.Null, in.strTerm(zero), in.strTerm(iv)))
			default:
				panic(unsupported{"sql: nullable scan of composite"})
			}
		}
		return structure{f0, c.Not(v.Null)}, c.False()
	}
	b, ok := t.Underlying().(*types.Basic)
	if !ok {
		panic(unsupported{"sql: scan destination " + t.String()})
	}
	if w, _, isInt := intWidth(b); isInt {
		switch v.K {
		case sqlm.KInt, sqlm.KTime:
			return c.Extract(v.T, w-1, 0), v.Null
		case sqlm.KBool:
			return c.Ite(v.T, c.BVConstI(1, w), c.BVConstI(0, w)), v.Null
		}
	}
	if b.Info()&types.IsString != 0 {
		switch v.K {
		case sqlm.KStr:
			return in.normStr(v.T), v.Null
		case sqlm.KInt:
			return in.normStr(c.StrDec(c.BV2Int(v.T))), v.Null
		}
	}
	if b.Info()&types.IsBoolean != 0 {
		switch v.K {
		case sqlm.KBool:
			return v.T, v.Null
		case sqlm.KInt:
			return c.Not(c.Eq(v.T, c.BVConstI(0, 64))), v.Null
		}
	}
	panic(unsupported{fmt.Sprintf("sql: scanning %v into %v", v.K, t)})
}

func (in *Interp) asTerm(v value) *smt.Term {
	switch x := v.(type) {
	case *smt.Term:
		return x
	case string:
		return in.C.StrConst(x)
	}
	panic(unsupported{fmt.Sprintf("term expected, got %T", v)})
}

// scanRow stores row r into a destination of type t (struct by db tags, or a scalar).
// It returns the condition under which the scan fails (NULL into a non-nullable field).
func (in *Interp) scanRow(cols []sqlm.RCol, r sqlm.RRow, t types.Type) (value, *smt.Term) {
	c := in.C
	if st, ok := t.Underlying().(*types.Struct); ok && !isTimeType(t) && !strings.HasPrefix(t.String(), "database/sql.Null") {
		out := in.zero(t).(structure)
		bad := c.False()
		for ci, col := range cols {
			fi := -1
			for i := 0; i < st.NumFields(); i++ {
				if dbTag(st.Field(i), st.Tag(i)) == col.Name {
					fi = i
				}
			}
			if fi < 0 {
				panic(unsupported{"sql: missing destination name " + col.Name + " in " + t.String()})
			}
			v, null := in.fromSQL(r.Vals[ci], st.Field(fi).Type())
			out[fi] = v
			bad = c.Or(bad, null)
		}
		return out, bad
	}
	if len(cols) != 1 {
		panic(unsupported{fmt.Sprintf("sql: scanning %d columns into %v", len(cols), t)})
	}
	return in.fromSQL(r.Vals[0], t)
}

func (in *Interp) parseSQL(st *dbState, text string) interface{} {
	if p, ok := st.parsed[text]; ok {
		return p
	}
	p, err := sqlm.Parse(text)
	if err != nil {
		panic(unsupported{"UNSUPPORTED sql: " + err.Error() + " in: " + sqlm.NormSQL(text)})
	}
	st.parsed[text] = p
	seen, _ := in.extra["sqlseen"].(map[string]bool)
	if seen == nil {
		seen = map[string]bool{}
		in.extra["sqlseen"] = seen
	}
	seen[sqlm.NormSQL(text)] = true
	if si, ok := in.P.Schema.(*SchemaInfo); ok {
		if _, isSel := p.(*sqlm.Select); isSel {
			if _, have := st.db.Plans[sqlm.NormSQL(text)]; !have {
				if lines := si.PlanFor(text); lines != nil {
					// Plans is shared (read-mostly); PlanFor already cached it there under the lock
					_ = lines
				}
			}
		}
	}
	return p
}

func (in *Interp) bindArgs(args sliceVal) *sqlm.Args {
	a := &sqlm.Args{}
	for _, x := range args {
		a.Pos = append(a.Pos, in.toSQL(x, nil))
	}
	return a
}

// bindNamed builds named arguments from a struct (db tags) or a map[string]interface{}.
func (in *Interp) bindNamed(arg iface) *sqlm.Args {
	a := &sqlm.Args{Named: map[string]sqlm.ParamVal{}}
	switch v := arg.v.(type) {
	case structure:
		st := arg.t.Underlying().(*types.Struct)
		for i := 0; i < st.NumFields(); i++ {
			a.Named[dbTag(st.Field(i), st.Tag(i))] = in.toSQL(v[i], st.Field(i).Type())
		}
	case *value:
		if v == nil {
			panic(unsupported{"sql: nil named argument"})
		}
		return in.bindNamed(iface{t: deref(arg.t), v: *v})
	case *smap:
		for i, k := range v.keys {
			if k == nil {
				continue
			}
			a.Named[in.goStr(k, "named parameter key")] = in.toSQL(v.vals[i], nil)
		}
	default:
		panic(unsupported{fmt.Sprintf("sql: named argument of %T", arg.v)})
	}
	return a
}

var errNoRowsKey = "database/sql.ErrNoRows"

// sqlErrTxDone: the sentinel database/sql returns from Commit/Rollback on a finished transaction
// (code compares with it: `errors.Is(tx.Rollback(), sql.ErrTxDone)` in deferred rollbacks).
func (in *Interp) sqlErrTxDone() iface {
	pkg := in.P.Pkgs["database/sql"]
	if pkg == nil {
		panic(unsupported{"database/sql not loaded"})
	}
	return (*in.globalAddr(pkg.Var("ErrTxDone"))).(iface)
}

func (in *Interp) sqlErrNoRows() iface {
	pkg := in.P.Pkgs["database/sql"]
	if pkg == nil {
		panic(unsupported{"database/sql not loaded"})
	}
	g := pkg.Var("ErrNoRows")
	return (*in.globalAddr(g)).(iface)
}

// doQuery runs a SELECT against db and returns ordered rows and their count term.
func (in *Interp) doQuery(st *dbState, db *sqlm.DB, text string, args *sqlm.Args) (*sqlm.Rel, []sqlm.RRow) {
	p := in.parseSQL(st, text)
	sel, ok := p.(*sqlm.Select)
	if !ok {
		panic(unsupported{"sql: query method used with a non-SELECT statement"})
	}
	rel := db.Query(sqlEnv{in}, text, sel, args)
	return rel, nil
}

func (in *Interp) ordered(db *sqlm.DB, rel *sqlm.Rel, need int) []sqlm.RRow {
	if rel.Unordered && need > 0 && len(rel.Rows) > 1 && db.OrderMatters(sqlEnv{in}, rel) {
		// the caller only maps over the rows (order-insensitive use) when it passes need<0
		panic(unsupported{"UNSUPPORTED order-dependent use of unordered result"})
	}
	return db.Ordered(sqlEnv{in}, rel)
}

// sqlGet implements Get/GetContext: first row or sql.ErrNoRows.
func (in *Interp) sqlGet(st *dbState, db *sqlm.DB, dest iface, text string, args *sqlm.Args) value {
	rel, _ := in.doQuery(st, db, text, args)
	c := in.C
	cnt := db.Count(sqlEnv{in}, rel)
	if !in.branch(c.Not(c.Eq(cnt, c.BVConstI(0, 64)))) {
		return in.sqlErrNoRows()
	}
	rows := in.ordered(db, rel, 1)
	dp := dest.v.(*value)
	et := deref(dest.t)
	v, bad := in.scanRow(rel.Cols, rows[0], et)
	if in.branch(bad) {
		return in.mkError("sql: Scan error: converting NULL to " + et.String() + " is unsupported")
	}
	*dp = v
	return iface{}
}

// sqlSelect implements Select/SelectContext into *[]T or *[]*T.
func (in *Interp) sqlSelect(st *dbState, db *sqlm.DB, dest iface, text string, args *sqlm.Args) value {
	rel, _ := in.doQuery(st, db, text, args)
	cnt := db.Count(sqlEnv{in}, rel)
	n := int(in.concretize(cnt, "sql result count").Int64())
	dp := dest.v.(*value)
	sl, ok := deref(dest.t).Underlying().(*types.Slice)
	if !ok {
		panic(unsupported{"sql: Select destination " + dest.t.String()})
	}
	et := sl.Elem()
	ptr := false
	if p, ok := et.Underlying().(*types.Pointer); ok {
		ptr = true
		et = p.Elem()
	}
	var rows []sqlm.RRow
	if n > 0 {
		if rel.Unordered && len(rel.Rows) > 1 {
			in.path.noteAssumption("unordered SQL result delivered in table order (only order-insensitive uses are claimed)")
			in.extra["unordered_used"] = true
		}
		rows = db.Ordered(sqlEnv{in}, rel)
	}
	out := make(sliceVal, 0, n)
	for i := 0; i < n; i++ {
		v, bad := in.scanRow(rel.Cols, rows[i], et)
		if in.branch(bad) {
			return in.mkError("sql: Scan error: converting NULL is unsupported")
		}
		if ptr {
			cell := v
			out = append(out, &cell)
		} else {
			out = append(out, v)
		}
	}
	if n == 0 {
		*dp = sliceVal(nil)
	} else {
		*dp = out
	}
	return iface{}
}

func (in *Interp) sqlExec(st *dbState, db *sqlm.DB, text string, args *sqlm.Args) (value, *smt.Term) {
	if isPragma(text) {
		in.path.noteAssumption("PRAGMA statements have no effect on the relational content")
		return iface{}, in.C.BVConstI(0, 64)
	}
	p := in.parseSQL(st, text)
	env := sqlEnv{in}
	c := in.C
	switch s := p.(type) {
	case *sqlm.Insert:
		now := in.call(nil, 0, &native{fn: in.P.intrinsics["time.Now"]}, nil).(timeVal)
		conflict := db.ExecInsert(env, s, args, sqlm.Val{K: sqlm.KTime, T: now.sec, Null: c.False()})
		if s.OnConflict == "NOTHING" {
			return iface{}, c.Ite(conflict, c.BVConstI(0, 64), c.BVConstI(1, 64))
		}
		if in.branch(conflict) {
			// undo the appended (dead) row
			t := db.Tables[s.Table]
			t.Rows = t.Rows[:len(t.Rows)-1]
			return in.mkError("UNIQUE constraint failed: " + s.Table), c.BVConstI(0, 64)
		}
		return iface{}, c.BVConstI(1, 64)
	case *sqlm.Update:
		return iface{}, db.ExecUpdate(env, text, s, args)
	case *sqlm.Delete:
		return iface{}, db.ExecDelete(env, text, s, args)
	case *sqlm.CreateIndex:
		if s.Unique {
			if in.branch(db.UniqueViolation(env, s)) {
				return in.mkError("UNIQUE constraint failed: index " + s.Name), c.BVConstI(0, 64)
			}
		}
		db.TmpIdx[s.Name] = s
		return iface{}, c.BVConstI(0, 64)
	case *sqlm.DropIndex:
		if _, ok := db.TmpIdx[s.Name]; !ok && !s.IfExists {
			return in.mkError("no such index: " + s.Name), c.BVConstI(0, 64)
		}
		delete(db.TmpIdx, s.Name)
		return iface{}, c.BVConstI(0, 64)
	}
	panic(unsupported{"sql: Exec of a SELECT"})
}

func (in *Interp) sqlResult(n *smt.Term) value {
	return iface{t: in.synthType("opaque.sql.Result"), v: &opaque{kind: "sql.Result", data: n}}
}

func (P *Program) registerSQL() {
	X := "github.com/jmoiron/sqlx"
	hDB := hDBOf
	hTx := func(v value) *txHandle {
		p := v.(*value)
		if p == nil {
			panic(targetPanic{msg: "runtime error: invalid memory address or nil pointer dereference (nil *sqlx.Tx)"})
		}
		if st, ok := (*p).(structure); ok {
			p = st[0].(*value)
		}
		return (*p).(*opaque).data.(*txHandle)
	}
	P.reg("(*"+X+".DB).Rebind", func(fr *frame, args []value) value { return args[1] })
	P.reg(X+".Rebind", func(fr *frame, args []value) value { return args[1] })
	P.reg(X+".In", func(fr *frame, args []value) value {
		in := fr.in
		var out sliceVal
		for _, a := range args[1].(sliceVal) {
			ai := a.(iface)
			if sl, ok := ai.v.(sliceVal); ok {
				if _, isSlice := ai.t.Underlying().(*types.Slice); isSlice {
					if len(sl) == 0 {
						return tuple{"", sliceVal(nil), in.mkError("empty slice passed to 'in' query")}
					}
					out = append(out, iface{t: in.synthType("engine.inlist"), v: &inList{vals: append([]value{}, sl...)}})
					// keep element static type for signedness
					continue
				}
			}
			out = append(out, a)
		}
		return tuple{args[0], out, iface{}}
	})
	get := func(off int) intrinsic {
		return func(fr *frame, args []value) value {
			in := fr.in
			st := hDB(args[0])
			in.storageOp(fr, st)
			return in.sqlGet(st, st.db, args[off].(iface), in.goStr(args[off+1], "sql text"), in.bindArgs(args[off+2].(sliceVal)))
		}
	}
	sel := func(off int) intrinsic {
		return func(fr *frame, args []value) value {
			in := fr.in
			st := hDB(args[0])
			in.storageOp(fr, st)
			return in.sqlSelect(st, st.db, args[off].(iface), in.goStr(args[off+1], "sql text"), in.bindArgs(args[off+2].(sliceVal)))
		}
	}
	P.reg("(*"+X+".DB).Get", get(1))
	P.reg("(*"+X+".DB).GetContext", get(2))
	P.reg("(*"+X+".DB).Select", sel(1))
	P.reg("(*"+X+".DB).SelectContext", sel(2))
	P.reg("(*"+X+".DB).BeginTxx", func(fr *frame, args []value) value {
		st := hDB(args[0])
		var inner value = &opaque{kind: "sql.Tx", data: &txHandle{st: st, base: st.db, local: st.db.Clone()}}
		txT := fr.fn.Signature.Results().At(0).Type()
		outer := fr.in.zero(deref(txT))
		outer.(structure)[0] = &inner
		return tuple{&outer, iface{}}
	})
	stmtFault := func(in *Interp, st *dbState) (value, bool) {
		if st.failStmt && st.failAt > 0 && st.commits+1 == st.failAt {
			st.failAt, st.fired = 0, true
			return tuple{in.sqlResult(nil), in.mkError("injected storage failure at statement")}, true
		}
		return nil, false
	}
	P.reg("(*"+X+".Tx).NamedExecContext", func(fr *frame, args []value) value {
		in := fr.in
		tx := hTx(args[0])
		tx.wrote = true
		in.storageOp(fr, tx.st)
		if r, ok := stmtFault(in, tx.st); ok {
			return r
		}
		err, n := in.sqlExec(tx.st, tx.local, in.goStr(args[2], "sql text"), in.bindNamed(args[3].(iface)))
		return tuple{in.sqlResult(n), err}
	})
	txExec := func(fr *frame, args []value) value {
		in := fr.in
		tx := hTx(args[0])
		tx.wrote = true
		in.storageOp(fr, tx.st)
		if r, ok := stmtFault(in, tx.st); ok {
			return r
		}
		err, n := in.sqlExec(tx.st, tx.local, in.goStr(args[2], "sql text"), in.bindArgs(args[3].(sliceVal)))
		return tuple{in.sqlResult(n), err}
	}
	P.reg("(*"+X+".Tx).ExecContext", txExec)
	P.reg("(*database/sql.Tx).ExecContext", txExec)
	commit := func(fr *frame, args []value) value {
		in := fr.in
		tx := hTx(args[0])
		if tx.done {
			return in.sqlErrTxDone()
		}
		tx.done = true
		st := tx.st
		in.storageOp(fr, st)
		if st.db != tx.base {
			// another transaction committed since this one began: apply this one's writes on top is not
			// modelled; intruders are restricted to reads
			if tx.wrote && st.db != tx.base {
				panic(unsupported{"interleaved write transactions are not modelled"})
			}
		}
		st.commits++
		if st.failAt > 0 && st.commits == st.failAt {
			st.fired = true
			return in.mkError("injected storage failure at commit")
		}
		if tx.wrote {
			st.db = tx.local
		} // a transaction that wrote nothing leaves whatever was committed meanwhile in place
		if st.killAt > 0 && st.commits == st.killAt {
			panic(killSignal{})
		}
		return iface{}
	}
	rollback := func(fr *frame, args []value) value {
		tx := hTx(args[0])
		if tx.done {
			return fr.in.sqlErrTxDone()
		}
		tx.done = true
		return iface{}
	}
	P.reg("(*"+X+".Tx).Commit", commit)
	P.reg("(*database/sql.Tx).Commit", commit)
	P.reg("(*"+X+".Tx).Rollback", rollback)
	P.reg("(*database/sql.Tx).Rollback", rollback)
	// autoExec: a statement executed outside a transaction is its own committed write
	isWrite := func(q string) bool {
		t := strings.ToLower(strings.TrimSpace(q))
		return strings.HasPrefix(t, "insert") || strings.HasPrefix(t, "update") || strings.HasPrefix(t, "delete")
	}
	autoExec := func(fr *frame, st *dbState, query string, binds *sqlm.Args) value {
		in := fr.in
		in.storageOp(fr, st)
		w := isWrite(query)
		if w {
			st.commits++
			if st.failAt > 0 && st.commits == st.failAt {
				st.fired = true
				return tuple{in.sqlResult(nil), in.mkError("injected storage failure at commit")}
			}
		}
		local := st.db.Clone()
		err, n := in.sqlExec(st, local, query, binds)
		if err.(iface).t == nil {
			st.db = local
		}
		if w && st.killAt > 0 && st.commits == st.killAt {
			panic(killSignal{})
		}
		return tuple{in.sqlResult(n), err}
	}
	dbExec := func(fr *frame, args []value) value {
		in := fr.in
		return autoExec(fr, hDB(args[0]), in.goStr(args[1], "sql text"), in.bindArgs(args[2].(sliceVal)))
	}
	// prepared statements: bound to the pool (each execution autocommits) or to a transaction
	type stmtHandle struct {
		st    *dbState
		tx    *txHandle
		query string
	}
	mkStmt := func(in *Interp, h *stmtHandle) value {
		var inner value = &opaque{kind: "sql.Stmt", data: h}
		outer := in.zero(in.P.namedType(X + ".Stmt"))
		outer.(structure)[0] = &inner
		return &outer
	}
	hStmt := func(v value) *stmtHandle {
		p := v.(*value)
		if p == nil {
			panic(targetPanic{msg: "runtime error: invalid memory address or nil pointer dereference (nil *sqlx.Stmt)"})
		}
		if st, ok := (*p).(structure); ok {
			p = st[0].(*value)
		}
		return (*p).(*opaque).data.(*stmtHandle)
	}
	P.reg("(*"+X+".DB).Preparex", func(fr *frame, args []value) value {
		return tuple{mkStmt(fr.in, &stmtHandle{st: hDB(args[0]), query: fr.in.goStr(args[1], "sql text")}), iface{}}
	})
	P.reg("(*"+X+".DB).PreparexContext", func(fr *frame, args []value) value {
		return tuple{mkStmt(fr.in, &stmtHandle{st: hDB(args[0]), query: fr.in.goStr(args[2], "sql text")}), iface{}}
	})
	P.reg("(*"+X+".Tx).Preparex", func(fr *frame, args []value) value {
		tx := hTx(args[0])
		return tuple{mkStmt(fr.in, &stmtHandle{st: tx.st, tx: tx, query: fr.in.goStr(args[1], "sql text")}), iface{}}
	})
	P.reg("(*"+X+".Tx).PreparexContext", func(fr *frame, args []value) value {
		tx := hTx(args[0])
		return tuple{mkStmt(fr.in, &stmtHandle{st: tx.st, tx: tx, query: fr.in.goStr(args[2], "sql text")}), iface{}}
	})
	stmtx := func(k int) intrinsic {
		return func(fr *frame, args []value) value {
			tx := hTx(args[0])
			h := hStmt(args[k].(iface).v)
			return mkStmt(fr.in, &stmtHandle{st: tx.st, tx: tx, query: h.query})
		}
	}
	P.reg("(*"+X+".Tx).Stmtx", stmtx(1))
	P.reg("(*"+X+".Tx).StmtxContext", stmtx(2))
	stmtExec := func(k int) intrinsic {
		return func(fr *frame, args []value) value {
			in := fr.in
			h := hStmt(args[0])
			binds := in.bindArgs(args[k].(sliceVal))
			if h.tx != nil {
				h.tx.wrote = true
				in.storageOp(fr, h.tx.st)
				if r, ok := stmtFault(in, h.tx.st); ok {
					return r
				}
				err, n := in.sqlExec(h.tx.st, h.tx.local, h.query, binds)
				return tuple{in.sqlResult(n), err}
			}
			return autoExec(fr, h.st, h.query, binds)
		}
	}
	P.reg("(*"+X+".Stmt).Exec", stmtExec(1))
	P.reg("(*"+X+".Stmt).ExecContext", stmtExec(2))
	P.reg("(*"+X+".Stmt).Close", func(fr *frame, args []value) value { return iface{} })
	P.reg("(*database/sql.Stmt).Exec", stmtExec(1))
	P.reg("(*database/sql.Stmt).ExecContext", stmtExec(2))
	P.reg("(*database/sql.Stmt).Close", func(fr *frame, args []value) value { return iface{} })
	P.reg("(*"+X+".DB).Exec", dbExec)
	P.reg("(*database/sql.DB).Exec", dbExec)
	queryRow := func(fr *frame, args []value) value {
		// used as an existence probe whose result is compared with nil, and for PRAGMA values
		var cell value = &opaque{kind: "sql.Row", data: fr.in.goStr(args[1], "sql text")}
		return &cell
	}
	P.reg("(*database/sql.Row).Scan", func(fr *frame, args []value) value {
		in := fr.in
		o := (*args[0].(*value)).(*opaque)
		text, _ := o.data.(string)
		if !isPragma(text) {
			panic(unsupported{"sql.Row.Scan of a non-PRAGMA query"})
		}
		for _, d := range args[1].(sliceVal) {
			di := d.(iface)
			*di.v.(*value) = in.zero(deref(di.t))
		}
		return iface{}
	})
	// the index list of a table (sqlite_master), from the probed schema
	P.reg("(*database/sql.DB).Query", func(fr *frame, args []value) value {
		in := fr.in
		text := in.goStr(args[1], "sql text")
		if !strings.Contains(text, "sqlite_master") {
			panic(unsupported{"sql.DB.Query: " + sqlm.NormSQL(text)})
		}
		st := hDB(args[0])
		in.path.noteAssumption("sqlite_master index listing answered from the probed schema (name, CREATE INDEX text reconstructed)")
		h := &rowsHandle{cols: []sqlm.RCol{{Name: "name", K: sqlm.KStr}, {Name: "sql", K: sqlm.KStr}}}
		for tbl, idx := range st.db.Indexes {
			if !strings.Contains(text, "'"+tbl+"'") {
				continue
			}
			for _, ix := range idx {
				if strings.HasPrefix(ix.Name, "sqlite_autoindex") {
					continue
				}
				ddl := "CREATE INDEX " + ix.Name + " ON " + tbl + " (" + strings.Join(ix.Cols, ", ") + ")"
				h.rows = append(h.rows, sqlm.RRow{Present: in.C.True(), Vals: []sqlm.Val{
					{K: sqlm.KStr, T: in.C.StrConst(ix.Name), Null: in.C.False()}, {K: sqlm.KStr, T: in.C.StrConst(ddl), Null: in.C.False()}}})
			}
		}
		sort.Slice(h.rows, func(i, j int) bool { return h.rows[i].Vals[0].T.ID < h.rows[j].Vals[0].T.ID })
		var inner value = &opaque{kind: "sql.Rows", data: h}
		return tuple{&inner, iface{}}
	})
	P.reg("(*"+X+".DB).QueryRow", queryRow)
	P.reg("(*database/sql.DB).QueryRow", queryRow)
	P.reg("(*"+X+".DB).Close", func(fr *frame, args []value) value { return iface{} })
	P.reg("(*database/sql.DB).Close", func(fr *frame, args []value) value { return iface{} })
}

const VHDB = RepoModule + "/internal/zzverif/vhdb"

func (P *Program) registerVHDB() {
	hDB := hDBOf
	// ---- the start-up sequence of the database package: connect attaches the model database that
	// belongs to the configured file path (creating it, with the schema of the migrations, on first
	// use); doMigrations is a no-op (schema already in place). Everything else in database.Init -
	// genesis insertion, import, any consistency check - is executed from source.
	DBP := RepoModule + "/database"
	P.reg(VHDB+".TempPath", func(fr *frame, args []value) value {
		n, _ := fr.in.extra["temp-paths"].(int)
		fr.in.extra["temp-paths"] = n + 1
		return fmt.Sprintf("/vhdb-model/%d.sqlite", n)
	})
	P.reg(VHDB+".TempRelPath", func(fr *frame, args []value) value {
		n, _ := fr.in.extra["temp-paths"].(int)
		fr.in.extra["temp-paths"] = n + 1
		return fmt.Sprintf("vh-%d%s", n, fr.in.goStr(args[0], "suffix"))
	})
	P.reg(VHDB+".MigrationsDir", func(fr *frame, args []value) value { return "/vhdb-model/migrations" })
	// sqlx.Open / sqlx.Connect on the sqlite driver: attaches the model database of the file named by the DSN.
	// The real sqLiteAdapter.connect runs (DSN construction included). The crash model of the checks - a
	// transaction is applied entirely or not at all when the process is killed - is SQLite's rollback
	// journal; a DSN that keeps the journal in memory or switches it off takes that away, and then the
	// model does not describe the tree: inconclusive, with the reason.
	openSqlite := func(fr *frame, args []value) value {
		in := fr.in
		driver := in.goStr(args[0], "sql driver name")
		dsn := in.goStr(args[1], "data source name")
		if driver != "sqlite3" {
			panic(unsupported{"sqlx.Open with driver " + driver + " (only sqlite3 is modelled)"})
		}
		path, query := strings.TrimPrefix(dsn, "file:"), ""
		if k := strings.IndexByte(path, '?'); k >= 0 {
			path, query = path[:k], path[k+1:]
		}
		for _, kv := range strings.Split(query, "&") {
			k, v, _ := strings.Cut(kv, "=")
			k, v = strings.ToLower(k), strings.ToUpper(v)
			if (k == "_journal_mode" || k == "_journal") && (v == "MEMORY" || v == "OFF") {
				panic(unsupported{"the store is opened with journal_mode=" + v + " (" + dsn + "): a process kill inside a write transaction is then not rolled back on restart, so the atomic-transaction crash model of this check does not describe this tree"})
			}
			if k == "mode" && v == "MEMORY" || path == ":memory:" {
				panic(unsupported{"the store is opened in memory (" + dsn + "): nothing survives a restart; outside the model"})
			}
		}
		key := "dbfile:" + path
		st, _ := in.extra[key].(*dbState)
		if st == nil {
			st = in.newDBState()
			in.extra[key] = st
		}
		var inner value = &opaque{kind: "sql.DB", data: &dbHandle{st: st}}
		outer := in.zero(in.P.namedType("github.com/jmoiron/sqlx.DB"))
		outer.(structure)[0] = &inner
		var dbv value = &outer
		in.path.noteAssumption("sqlx.Open attaches the model database of the file named in the DSN; doMigrations is a no-op (schema in place)")
		return tuple{dbv, iface{}}
	}
	P.reg("github.com/jmoiron/sqlx.Open", openSqlite)
	P.reg("github.com/jmoiron/sqlx.Connect", openSqlite)
	P.reg("(*"+DBP+".sqLiteAdapter).doMigrations", func(fr *frame, args []value) value { return iface{} })
	P.reg(VHDB+".NewDB", func(fr *frame, args []value) value {
		var inner value = &opaque{kind: "sql.DB", data: &dbHandle{st: fr.in.newDBState()}}
		outer := fr.in.zero(deref(fr.fn.Signature.Results().At(0).Type()))
		outer.(structure)[0] = &inner
		return &outer
	})
	insertRow := func(table string) intrinsic {
		return func(fr *frame, args []value) value {
			in := fr.in
			st := hDB(args[0])
			t := st.db.Tables[table]
			nt := in.P.namedType(tableStructs[table])
			sty := nt.Underlying().(*types.Struct)
			row := &sqlm.Row{Live: in.C.True(), Vals: make([]sqlm.Val, len(t.Cols))}
			sv := args[1].(structure)
			set := make([]bool, len(t.Cols))
			for i := 0; i < sty.NumFields(); i++ {
				ci := t.Col(dbTag(sty.Field(i), sty.Tag(i)))
				if ci < 0 {
					panic(unsupported{"vhdb: struct field without column: " + sty.Field(i).Name()})
				}
				row.Vals[ci] = in.toSQL(sv[i], sty.Field(i).Type()).V
				set[ci] = true
			}
			for ci := range t.Cols {
				if !set[ci] {
					row.Vals[ci] = sqlm.Val{K: t.Cols[ci].K, T: in.zeroSQL(t.Cols[ci].K), Null: in.C.True()}
				}
			}
			t.Rows = append(t.Rows, row)
			return nil
		}
	}
	rows := func(table string) intrinsic {
		return func(fr *frame, args []value) value {
			in := fr.in
			st := hDB(args[0])
			t := st.db.Tables[table]
			nt := in.P.namedType(tableStructs[table])
			var cols []sqlm.RCol
			for _, c := range t.Cols {
				cols = append(cols, sqlm.RCol{Name: c.Name, K: c.K})
			}
			sty := nt.Underlying().(*types.Struct)
			var out sliceVal
			for _, r := range t.Rows {
				if !in.branch(r.Live) {
					continue
				}
				// project onto the struct's columns
				var pc []sqlm.RCol
				var pv []sqlm.Val
				for i := 0; i < sty.NumFields(); i++ {
					ci := t.Col(dbTag(sty.Field(i), sty.Tag(i)))
					pc = append(pc, cols[ci])
					pv = append(pv, r.Vals[ci])
				}
				v, bad := in.scanRow(pc, sqlm.RRow{Present: in.C.True(), Vals: pv}, nt)
				if in.branch(bad) {
					panic(unsupported{"vhdb: NULL in stored row"})
				}
				out = append(out, v)
			}
			return out
		}
	}
	P.reg(VHDB+".InsertHeaderRow", insertRow("headers"))
	P.reg(VHDB+".InsertTokenRow", insertRow("tokens"))
	P.reg(VHDB+".InsertWebhookRow", insertRow("webhooks"))
	P.reg(VHDB+".HeaderRows", rows("headers"))
	P.reg(VHDB+".TokenRows", rows("tokens"))
	P.reg(VHDB+".WebhookRows", rows("webhooks"))
	P.reg(VHDB+".FailCommit", func(fr *frame, args []value) value {
		st := hDB(args[0])
		st.failAt = st.commits + fr.in.mustInt(args[1], "fault position")
		return nil
	})
	P.reg(VHDB+".FailStatement", func(fr *frame, args []value) value {
		st := hDB(args[0])
		st.failAt = st.commits + fr.in.mustInt(args[1], "fault position")
		st.failStmt, st.fired = true, false
		return nil
	})
	P.reg(VHDB+".FaultFired", func(fr *frame, args []value) value { return fr.in.boolv(hDB(args[0]).fired) })
	P.reg(VHDB+".KillAfterCommit", func(fr *frame, args []value) value {
		st := hDB(args[0])
		st.killAt = st.commits + fr.in.mustInt(args[1], "kill position")
		return nil
	})
	P.reg(VHDB+".Reopen", func(fr *frame, args []value) value {
		st := hDB(args[0])
		st.failAt, st.killAt, st.failStmt = 0, 0, false
		return args[0]
	})
	P.reg(VHDB+".RunUntilKill", func(fr *frame, args []value) value {
		in := fr.in
		killed := false
		func() {
			defer func() {
				if r := recover(); r != nil {
					if _, ok := r.(killSignal); ok {
						killed = true
						return
					}
					panic(r)
				}
			}()
			in.call(fr, 0, args[0], nil)
		}()
		return in.boolv(killed)
	})
	P.reg(VHDB+".Intrude", func(fr *frame, args []value) value {
		st := hDB(args[0])
		st.intrudeAt = st.ops + fr.in.mustInt(args[1], "intrusion position")
		st.intruder = args[2]
		return nil
	})
	P.reg(VHDB+".OpCount", func(fr *frame, args []value) value { return fr.in.intv(int64(hDB(args[0]).ops)) })
	P.reg(VHDB+".WriteCount", func(fr *frame, args []value) value { return fr.in.intv(int64(hDB(args[0]).commits)) })
}

func (in *Interp) zeroSQL(k sqlm.Kind) *smt.Term {
	switch k {
	case sqlm.KStr:
		return in.C.StrConst("")
	case sqlm.KBool:
		return in.C.False()
	}
	return in.C.BVConstI(0, 64)
}

func hDBOf(v value) *dbState {
	p := v.(*value)
	if p == nil {
		panic(targetPanic{msg: "runtime error: invalid memory address or nil pointer dereference (nil *sqlx.DB)"})
	}
	if st, ok := (*p).(structure); ok {
		p = st[0].(*value)
		if p == nil {
			panic(targetPanic{msg: "runtime error: invalid memory address or nil pointer dereference (nil *sql.DB)"})
		}
	}
	return (*p).(*opaque).data.(*dbHandle).st
}

// ---- write-statement enumeration (C03 immutability)

func (in *Interp) writeStatements(st *dbState, table string) []string {
	si := in.P.Schema.(*SchemaInfo)
	var out []string
	for _, s := range si.Statements {
		p, err := sqlm.Parse(s)
		if err != nil {
			if strings.Contains(strings.ToLower(s), table) && !strings.HasPrefix(strings.ToLower(strings.TrimSpace(s)), "select") && !strings.HasPrefix(strings.ToLower(strings.TrimSpace(s)), "with") {
				panic(unsupported{"UNSUPPORTED sql (write statement not parsed): " + err.Error() + ": " + sqlm.NormSQL(s)})
			}
			continue
		}
		switch x := p.(type) {
		case *sqlm.Insert:
			if x.Table == table {
				out = append(out, s)
			}
		case *sqlm.Update:
			if x.Table == table {
				out = append(out, s)
			}
		case *sqlm.Delete:
			if x.Table == table {
				out = append(out, s)
			}
		}
	}
	sort.Strings(out)
	return out
}

func (in *Interp) freshSQL(k sqlm.Kind) sqlm.Val {
	c := in.C
	switch k {
	case sqlm.KStr:
		t := in.newNondet("arg", "str", smt.Str)
		in.constrainStr(t)
		return sqlm.Val{K: k, T: t, Null: c.False()}
	case sqlm.KBool:
		return sqlm.Val{K: k, T: in.newNondet("arg", "bool", smt.Bool), Null: c.False()}
	case sqlm.KTime:
		t := in.newNondet("arg", "time", smt.BV(64))
		in.assumeSilently(c.BVSLe(c.BVConstI(0, 64), t))
		in.assumeSilently(c.BVSLe(t, c.BVConstI(1<<32-1, 64)))
		return sqlm.Val{K: k, T: t, Null: c.False()}
	}
	return sqlm.Val{K: k, T: in.newNondet("arg", "i64", smt.BV(64)), Null: c.False()}
}

type wsParam struct {
	Name string `json:"name"`
	Idx  int    `json:"idx"`
	Kind string `json:"kind"`
	List bool   `json:"list"`
}
type wsStmt struct {
	SQL    string    `json:"sql"`
	Params []wsParam `json:"params"`
}

// arbitraryArgs binds every parameter of a write statement to a fresh value of the kind of the
// column it is assigned to or compared with (IN lists get two elements).
func (in *Interp) arbitraryArgs(t *sqlm.Table, p interface{}, spec *[]wsParam, dry bool) *sqlm.Args {
	a := &sqlm.Args{Named: map[string]sqlm.ParamVal{}}
	bound := map[string]bool{}
	bind := func(prm sqlm.Param, k sqlm.Kind, list bool) {
		key := fmt.Sprintf("%s#%d", prm.Name, prm.Idx)
		if bound[key] {
			return
		}
		bound[key] = true
		if spec != nil {
			n := ""
			if prm.Idx < 0 {
				n = strings.TrimPrefix(prm.Name, ":")
			}
			*spec = append(*spec, wsParam{Name: n, Idx: prm.Idx, Kind: k.String(), List: list})
		}
		if dry {
			return
		}
		var pv sqlm.ParamVal
		if list {
			pv = sqlm.ParamVal{IsList: true, List: []sqlm.Val{in.freshSQL(k), in.freshSQL(k)}}
		} else {
			pv = sqlm.ParamVal{V: in.freshSQL(k)}
		}
		if prm.Idx >= 0 {
			for len(a.Pos) <= prm.Idx {
				a.Pos = append(a.Pos, sqlm.ParamVal{V: sqlm.Val{K: sqlm.KInt, T: in.C.BVConstI(0, 64), Null: in.C.True()}})
			}
			a.Pos[prm.Idx] = pv
		} else {
			a.Named[strings.TrimPrefix(prm.Name, ":")] = pv
		}
	}
	colKind := func(name string) sqlm.Kind {
		if ci := t.Col(name); ci >= 0 {
			return t.Cols[ci].K
		}
		return sqlm.KStr
	}
	var walk func(e sqlm.Expr)
	walk = func(e sqlm.Expr) {
		switch x := e.(type) {
		case sqlm.Bin:
			if cr, ok := x.L.(sqlm.ColRef); ok {
				if prm, ok := x.R.(sqlm.Param); ok {
					bind(prm, colKind(cr.Col), false)
					return
				}
			}
			if cr, ok := x.R.(sqlm.ColRef); ok {
				if prm, ok := x.L.(sqlm.Param); ok {
					bind(prm, colKind(cr.Col), false)
					return
				}
			}
			walk(x.L)
			walk(x.R)
		case sqlm.Not:
			walk(x.X)
		case sqlm.InList:
			if cr, ok := x.X.(sqlm.ColRef); ok {
				for _, it := range x.List {
					if prm, ok := it.(sqlm.Param); ok {
						bind(prm, colKind(cr.Col), len(x.List) == 1)
					}
				}
			}
		case sqlm.Between:
			if cr, ok := x.X.(sqlm.ColRef); ok {
				if prm, ok := x.Lo.(sqlm.Param); ok {
					bind(prm, colKind(cr.Col), false)
				}
				if prm, ok := x.Hi.(sqlm.Param); ok {
					bind(prm, colKind(cr.Col), false)
				}
			}
		case sqlm.Param:
			bind(x, sqlm.KInt, false)
		}
	}
	switch s := p.(type) {
	case *sqlm.Insert:
		for i, cn := range s.Cols {
			if prm, ok := s.Vals[i].(sqlm.Param); ok {
				bind(prm, colKind(cn), false)
			}
		}
	case *sqlm.Update:
		for _, st := range s.Set {
			if prm, ok := st.E.(sqlm.Param); ok {
				bind(prm, colKind(st.Col), false)
			} else {
				walk(st.E)
			}
		}
		if s.Where != nil {
			walk(s.Where)
		}
	case *sqlm.Delete:
		if s.Where != nil {
			walk(s.Where)
		}
	}
	return a
}

var writeStmtOnce sync.Once

func (P *Program) registerWriteStmts() {
	P.reg(VHDB+".NumWriteStatements", func(fr *frame, args []value) value {
		in := fr.in
		st := in.newDBState()
		table := in.goStr(args[0], "table")
		stmts := in.writeStatements(st, table)
		writeStmtOnce.Do(func() {
			var specs []wsStmt
			for _, s := range stmts {
				p, _ := sqlm.Parse(s)
				var ps []wsParam
				in.arbitraryArgs(st.db.Tables[table], p, &ps, true)
				sort.SliceStable(ps, func(i, j int) bool { return false })
				specs = append(specs, wsStmt{SQL: s, Params: ps})
			}
			b, _ := json.MarshalIndent(specs, "", " ")
			os.MkdirAll("/verif/work", 0o755)
			os.WriteFile("/verif/work/writestmts-"+table+".json", b, 0o644)
		})
		return in.intv(int64(len(stmts)))
	})
	P.reg(VHDB+".ExecWriteStatement", func(fr *frame, args []value) value {
		in := fr.in
		st := hDBOf(args[0])
		table := in.goStr(args[1], "table")
		stmts := in.writeStatements(st, table)
		i := in.mustInt(args[2], "statement index")
		p := in.parseSQL(st, stmts[i])
		a := in.arbitraryArgs(st.db.Tables[table], p, nil, false)
		local := st.db.Clone()
		in.sqlExec(st, local, stmts[i], a)
		st.db = local
		in.path.notes = append(in.path.notes, "write statement exercised: "+sqlm.NormSQL(stmts[i]))
		return nil
	})
}

func isPragma(text string) bool {
	return strings.HasPrefix(strings.ToUpper(strings.TrimSpace(text)), "PRAGMA")
}
