package symex

import (
	"fmt"
	"go/token"
	"go/types"
	"os"
	"path/filepath"
	"strings"

	"golang.org/x/tools/go/packages"
	"golang.org/x/tools/go/ssa"
	"golang.org/x/tools/go/ssa/ssautil"
)

const RepoModule = "github.com/bitcoin-sv/block-headers-service"

// Program is the loaded SSA program plus engine configuration shared by all paths.
type Program struct {
	// DroppedOptional: non-empty (the load error) when the optional harness files had to be left out
	DroppedOptional string
	Prog            *ssa.Program
	Fset          *token.FileSet
	Pkgs          map[string]*ssa.Package
	TPkgs         map[string]*types.Package
	RepoDir       string
	MaxSteps      int64
	MaxAlloc      int
	MaxDecisions  int
	MaxConcretize int
	Unwind        int
	Solver        string
	TimeoutMs     int
	DeferGo       bool
	OpaquePkgs    []string
	Known         map[string][]string // assertion label -> known-finding class names
	Schema        interface{}
	intrinsics    map[string]intrinsic
	synth         map[string]*types.Named
}

// Overlay maps harness files of /verif/harness into virtual paths under the repository.
// harnessDir/<sub>/x.go  ->  repo/internal/zzverif/<sub>/x.go
// harnessDir/_inpkg/<repo-relative-dir>/x.go -> repo/<repo-relative-dir>/zz_x.go
// IsOptionalHarness: the file carries the marker line //vh:optional before its package clause.
func IsOptionalHarness(b []byte) bool {
	s := string(b)
	if i := strings.Index(s, "\npackage "); i >= 0 {
		s = s[:i+1]
	}
	return strings.HasPrefix(s, "//vh:optional") || strings.Contains(s, "\n//vh:optional\n")
}

func BuildOverlay(repoDir, harnessDir string, skipOptional bool) (map[string][]byte, []string, error) {
	ov := map[string][]byte{}
	pkgs := map[string]bool{}
	err := filepath.Walk(harnessDir, func(p string, info os.FileInfo, err error) error {
		if err != nil || info.IsDir() || !strings.HasSuffix(p, ".go") {
			return err
		}
		rel, _ := filepath.Rel(harnessDir, p)
		b, err := os.ReadFile(p)
		if err != nil {
			return err
		}
		if strings.HasSuffix(p, "_native.go") || strings.HasSuffix(p, "_test.go") {
			return nil // native-only bodies are not part of the symbolic program
		}
		if skipOptional && IsOptionalHarness(b) {
			return nil
		}
		if strings.HasPrefix(rel, "_inpkg/") {
			sub := strings.TrimPrefix(rel, "_inpkg/")
			dir, file := filepath.Split(sub)
			ov[filepath.Join(repoDir, dir, "zz_"+file)] = b
			pkgs[RepoModule+"/"+strings.TrimSuffix(dir, "/")] = true
			return nil
		}
		ov[filepath.Join(repoDir, "internal/zzverif", rel)] = b
		pkgs[RepoModule+"/internal/zzverif/"+filepath.Dir(rel)] = true
		return nil
	})
	for p, b := range Rewrites(repoDir) {
		ov[p] = b
	}
	var ps []string
	for p := range pkgs {
		ps = append(ps, p)
	}
	return ov, ps, err
}

// SourceRewrite turns a size constant of the repository into a package variable - in the
// overlay only, never in /repo - so that a harness can run the real loop with a small value.
// It is applied only when the declaration is found exactly once in the current source; the
// generated accessor tells the harness whether it was.
type SourceRewrite struct {
	File, Old, New string
	Accessor       string // virtual file with the setter
	Applied        string // accessor body when the rewrite applies
	NotApplied     string // accessor body otherwise
}

var SourceRewrites = []SourceRewrite{{
	File: "database/sqlite_adapter.go", Old: "const sqliteBatchSize = 500", New: "var sqliteBatchSize = 500",
	Accessor:   "database/zz_batchsize.go",
	Applied:    "package database\n\n// setBatchSize (verification overlay): the import batch size is a variable here.\nfunc setBatchSize(n int) bool { sqliteBatchSize = n; return true }\n",
	NotApplied: "package database\n\nfunc setBatchSize(int) bool { return false }\n",
}}

// Rewrites returns the overlay entries of SourceRewrites for repoDir (virtual path -> content).
func Rewrites(repoDir string) map[string][]byte {
	out := map[string][]byte{}
	for _, rw := range SourceRewrites {
		path := filepath.Join(repoDir, rw.File)
		b, err := os.ReadFile(path)
		if err == nil && strings.Count(string(b), rw.Old) == 1 {
			out[path] = []byte(strings.Replace(string(b), rw.Old, rw.New, 1))
			out[filepath.Join(repoDir, rw.Accessor)] = []byte(rw.Applied)
		} else {
			out[filepath.Join(repoDir, rw.Accessor)] = []byte(rw.NotApplied)
		}
	}
	return out
}

// SourcePkgs are dependencies executed from source rather than modelled.
var SourcePkgs = []string{"github.com/pkg/errors", "bytes", "io", "encoding/binary", "github.com/gin-gonic/gin", "container/list", "unicode/utf8", "slices", "cmp", "crypto/subtle", "crypto/internal/fips140/subtle"}

// Load loads the repository with all harness files; if that does not type-check it retries
// without the optional harness files (those that call unexported repository functions whose
// signatures a refactor may change) and records that in Program.DroppedOptional.
func Load(repoDir, harnessDir string, extraPatterns ...string) (*Program, error) {
	P, err := load(repoDir, harnessDir, false, extraPatterns...)
	if err != nil {
		P2, err2 := load(repoDir, harnessDir, true, extraPatterns...)
		if err2 != nil {
			return nil, fmt.Errorf("%v\n(without the optional harness files: %v)", err, err2)
		}
		P2.DroppedOptional = err.Error()
		return P2, nil
	}
	return P, nil
}

func load(repoDir, harnessDir string, skipOptional bool, extraPatterns ...string) (*Program, error) {
	ov, hpk, err := BuildOverlay(repoDir, harnessDir, skipOptional)
	if err != nil {
		return nil, err
	}
	cfg := &packages.Config{
		Mode:    packages.LoadSyntax,
		Dir:     repoDir,
		Overlay: ov,
		Env:     append(os.Environ(), "GOFLAGS=-mod=mod", "GOPROXY=off"),
		Tests:   false,
	}
	patterns := append([]string{"./..."}, hpk...)
	patterns = append(patterns, SourcePkgs...)
	patterns = append(patterns, extraPatterns...)
	initial, err := packages.Load(cfg, patterns...)
	if err != nil {
		return nil, err
	}
	var errs []string
	packages.Visit(initial, nil, func(p *packages.Package) {
		for _, e := range p.Errors {
			errs = append(errs, e.Error())
		}
	})
	if len(errs) > 0 {
		if len(errs) > 12 {
			errs = errs[:12]
		}
		return nil, fmt.Errorf("load errors:\n%s", strings.Join(errs, "\n"))
	}
	// LoadSyntax gives syntax only for the initial packages; repo packages that the
	// harnesses import are needed from source as well, so load them as roots too.
	need := map[string]bool{}
	packages.Visit(initial, nil, func(p *packages.Package) {
		if strings.HasPrefix(p.PkgPath, RepoModule) && len(p.Syntax) == 0 {
			need[p.PkgPath] = true
		}
	})
	if len(need) > 0 {
		for p := range need {
			patterns = append(patterns, p)
		}
		initial, err = packages.Load(cfg, patterns...)
		if err != nil {
			return nil, err
		}
		errs = nil
		packages.Visit(initial, nil, func(p *packages.Package) {
			for _, e := range p.Errors {
				errs = append(errs, e.Error())
			}
		})
		if len(errs) > 0 {
			return nil, fmt.Errorf("load errors:\n%s", strings.Join(errs, "\n"))
		}
	}
	prog, _ := ssautil.Packages(initial, ssa.InstantiateGenerics)
	prog.Build()
	P := &Program{Prog: prog, Fset: prog.Fset, Pkgs: map[string]*ssa.Package{}, TPkgs: map[string]*types.Package{}, RepoDir: repoDir,
		MaxSteps: 200_000_000, MaxAlloc: 1 << 22, MaxDecisions: 4000, MaxConcretize: 600, Unwind: 64,
		Solver: "cvc5", TimeoutMs: 20000, Known: map[string][]string{}, synth: map[string]*types.Named{}}
	for _, p := range prog.AllPackages() {
		P.Pkgs[p.Pkg.Path()] = p
		P.TPkgs[p.Pkg.Path()] = p.Pkg
	}
	P.OpaquePkgs = []string{"github.com/rs/zerolog", RepoModule + "/metrics", "github.com/prometheus/", "log", "github.com/kr/pretty", "github.com/centrifugal/", "github.com/swaggo/", "net/http/pprof", "github.com/dchest/uniuri"}
	P.registerIntrinsics()
	if err := P.loadSchema(); err != nil {
		return nil, err
	}
	return P, nil
}

func (P *Program) Func(pkgPath, name string) *ssa.Function {
	p := P.Pkgs[pkgPath]
	if p == nil {
		return nil
	}
	return p.Func(name)
}

func (P *Program) isOpaquePkg(fn *ssa.Function) bool {
	path := ""
	if fn.Pkg != nil {
		path = fn.Pkg.Pkg.Path()
	} else if fn.Object() != nil && fn.Object().Pkg() != nil {
		path = fn.Object().Pkg().Path()
	} else if recv := fn.Signature.Recv(); recv != nil {
		// wrapper/thunk of a method
		t := recv.Type()
		if p, ok := t.(*types.Pointer); ok {
			t = p.Elem()
		}
		if n, ok := t.(*types.Named); ok && n.Obj().Pkg() != nil {
			path = n.Obj().Pkg().Path()
		}
	}
	for _, o := range P.OpaquePkgs {
		if path == o || strings.HasPrefix(path, o) {
			return true
		}
	}
	return false
}

// opaqueResult fabricates a result for a body-less function of an opaque package:
// zero values, except that pointers point at a fresh zero object so chained calls work.
func (in *Interp) opaqueResult(fn *ssa.Function) value {
	res := fn.Signature.Results()
	mk := func(t types.Type) value {
		if p, ok := t.Underlying().(*types.Pointer); ok {
			var cell value
			func() {
				defer func() {
					if recover() != nil {
						cell = &opaque{kind: p.Elem().String()}
					}
				}()
				cell = in.zero(p.Elem())
			}()
			return &cell
		}
		if _, ok := t.Underlying().(*types.Interface); ok {
			if types.Identical(t, types.Universe.Lookup("error").Type()) {
				return iface{} // opaque calls succeed
			}
			return iface{t: in.synthType("opaque." + t.String()), v: &opaque{kind: t.String()}}
		}
		return in.zero(t)
	}
	switch res.Len() {
	case 0:
		return nil
	case 1:
		return mk(res.At(0).Type())
	}
	var tup tuple
	for i := 0; i < res.Len(); i++ {
		tup = append(tup, mk(res.At(i).Type()))
	}
	return tup
}
