package symex

import (
	"fmt"
	"go/types"
	"reflect"
	"strings"

	"bhsverif/smt"
)

// A model of the configuration libraries for C20: the process-global viper instance, the part of
// mapstructure the repository uses (struct -> nested map by `mapstructure` tags) and the process
// environment. The repository's own code (SetDefaults, Load, envConfig, loadFromFile,
// unmarshallToAppConfig) runs from source against it.
//
// Contract modelled (viper 1.x as documented): a key's value is the first of: explicit Set,
// environment variable (only with AutomaticEnv; name = upper(prefix + "_" + replacer(key)); an empty
// variable counts as unset), configuration file read by ReadInConfig, registered default.
// Unmarshal fills a field only if its key is known to viper (has a default, a file entry or an
// explicit Set) - which is why a key without a registered default stops honouring its variable.
// Keys are case-insensitive. Nested maps given to SetDefault register their leaves.

const VHCFG = RepoModule + "/internal/zzverif/vhcfg"
const viperPkg = "github.com/spf13/viper"

type cfgLeaf struct {
	t types.Type // type of the Go value (nil for harness Val values)
	v value      // Go value, or a harness Val structure when t == nil
}

type viperState struct {
	defaults, overrides, file map[string]cfgLeaf
	envPrefix                 string
	replacer                  []string
	autoEnv                   bool
	cfgFile                   value
}

func (in *Interp) viper() *viperState {
	st, _ := in.extra["viper"].(*viperState)
	if st == nil {
		st = &viperState{defaults: map[string]cfgLeaf{}, overrides: map[string]cfgLeaf{}, file: map[string]cfgLeaf{}}
		in.extra["viper"] = st
	}
	return st
}

func (in *Interp) envModel() map[string]value {
	m, _ := in.extra["env"].(map[string]value)
	if m == nil {
		m = map[string]value{}
		in.extra["env"] = m
	}
	return m
}

// tagOf: the name part of the field's mapstructure tag ("name,omitempty" -> "name").
func tagOf(st *types.Struct, i int) string {
	name, _, _ := strings.Cut(reflect.StructTag(st.Tag(i)).Get("mapstructure"), ",")
	return name
}

// tagHas reports an option of the field's mapstructure tag (omitempty, squash, remain).
func tagHas(st *types.Struct, i int, opt string) bool {
	_, opts, _ := strings.Cut(reflect.StructTag(st.Tag(i)).Get("mapstructure"), ",")
	for _, o := range strings.Split(opts, ",") {
		if o == opt {
			return true
		}
	}
	return false
}

// flattenDefault registers value v (of static type t) under key: structs and maps recurse.
func (in *Interp) flattenDefault(dst map[string]cfgLeaf, key string, t types.Type, v value) {
	key = strings.ToLower(key)
	if ifc, ok := v.(iface); ok {
		if ifc.t == nil {
			return // nil: nothing known below this key
		}
		in.flattenDefault(dst, key, ifc.t, ifc.v)
		return
	}
	if m, ok := v.(*smap); ok {
		if m == nil {
			return
		}
		for i, k := range m.keys {
			if k == nil {
				continue
			}
			in.flattenDefault(dst, key+"."+in.goStr(k, "configuration map key"), nil, m.vals[i])
		}
		return
	}
	dst[key] = cfgLeaf{t: t, v: v}
}

// structToMap: mapstructure.Decode(struct or *struct, &map[string]interface{}): one entry per tagged
// exported field; nested structs (also behind non-nil pointers) become nested maps; a nil pointer stays nil.
func (in *Interp) structToMap(t types.Type, v value, into *smap) {
	if p, ok := t.Underlying().(*types.Pointer); ok {
		pv, _ := v.(*value)
		if pv == nil {
			return
		}
		t, v = p.Elem(), *pv
	}
	st, ok := t.Underlying().(*types.Struct)
	if !ok {
		panic(unsupported{"mapstructure.Decode of a non-struct"})
	}
	sv := v.(structure)
	for i := 0; i < st.NumFields(); i++ {
		f := st.Field(i)
		tag := tagOf(st, i)
		if !f.Exported() {
			continue
		}
		if tag == "" {
			tag = f.Name()
		}
		ft, fv := f.Type(), sv[i]
		if tagHas(st, i, "squash") || tagHas(st, i, "remain") {
			panic(unsupported{"mapstructure tag option squash/remain on " + f.Name()})
		}
		if tag == "-" {
			continue
		}
		// omitempty: a zero value is left out of the map (so viper never learns the key)
		if tagHas(st, i, "omitempty") {
			if _, isStruct := ft.Underlying().(*types.Struct); !isStruct && in.branch(in.equals(ft, fv, in.zero(ft))) {
				continue
			}
		}
		et := ft
		if p, ok := ft.Underlying().(*types.Pointer); ok {
			et = p.Elem()
			pv, _ := fv.(*value)
			if pv == nil {
				in.mapSet(into, tag, iface{}) // nil pointer: no nested keys
				continue
			}
		}
		if _, isStruct := et.Underlying().(*types.Struct); isStruct && !isNamed(et, "time.Time") {
			sub := newMap(types.Typ[types.String])
			in.structToMap(ft, fv, sub)
			in.mapSet(into, tag, iface{t: types.NewMap(types.Typ[types.String], types.NewInterfaceType(nil, nil)), v: sub})
			continue
		}
		in.mapSet(into, tag, iface{t: ft, v: fv})
	}
}

func isNamed(t types.Type, qual string) bool {
	n, ok := t.(*types.Named)
	return ok && n.Obj().Pkg() != nil && n.Obj().Pkg().Path()+"."+n.Obj().Name() == qual
}

// resolve: the effective value of key, or ok=false if no source has one.
func (in *Interp) viperResolve(key string) (cfgLeaf, bool) {
	st := in.viper()
	key = strings.ToLower(key)
	if l, ok := st.overrides[key]; ok {
		return l, true
	}
	if st.autoEnv {
		name := key
		if len(st.replacer) > 0 {
			name = strings.NewReplacer(st.replacer...).Replace(name)
		}
		if st.envPrefix != "" {
			name = st.envPrefix + "_" + name
		}
		name = strings.ToUpper(name)
		if v, ok := in.envModel()[name]; ok {
			return cfgLeaf{v: v}, true
		}
	}
	if l, ok := st.file[key]; ok {
		return l, true
	}
	if l, ok := st.defaults[key]; ok {
		return l, true
	}
	return cfgLeaf{}, false
}

func (in *Interp) viperKnown(key string) bool {
	st := in.viper()
	key = strings.ToLower(key)
	_, a := st.overrides[key]
	_, b := st.file[key]
	_, c := st.defaults[key]
	return a || b || c
}

// valField reads field name of a harness Val structure.
func (in *Interp) valField(v value, name string) value {
	return v.(structure)[structField(in.P.namedType(VHCFG+".Val"), name)]
}

// assignLeaf stores a resolved value into a field of type ft.
func (in *Interp) assignLeaf(ft types.Type, l cfgLeaf) value {
	if l.t != nil { // a Go value of (a type assignable to) the field's type
		if types.Identical(l.t, ft) {
			return copyVal(l.v)
		}
		panic(unsupported{"viper.Unmarshal: default of type " + l.t.String() + " for a field of type " + ft.String()})
	}
	b, ok := ft.Underlying().(*types.Basic)
	if !ok {
		panic(unsupported{"viper.Unmarshal into a field of type " + ft.String()})
	}
	switch {
	case b.Info()&types.IsString != 0:
		return in.valField(l.v, "S")
	case b.Info()&types.IsBoolean != 0:
		return in.valField(l.v, "B")
	case b.Info()&types.IsInteger != 0:
		i := in.valField(l.v, "I").(*smt.Term)
		w := in.widthOf(ft)
		if w < 64 {
			return in.C.Extract(i, w-1, 0)
		}
		return i
	}
	panic(unsupported{"viper.Unmarshal into a field of type " + ft.String()})
}

func (in *Interp) widthOf(t types.Type) int {
	switch t.Underlying().(*types.Basic).Kind() {
	case types.Int8, types.Uint8:
		return 8
	case types.Int16, types.Uint16:
		return 16
	case types.Int32, types.Uint32:
		return 32
	}
	return 64
}

// unmarshalInto fills the struct behind p (type *T) from the resolved values of all known keys.
func (in *Interp) unmarshalInto(t types.Type, p *value, prefix string) {
	st := t.Underlying().(*types.Struct)
	sv := (*p).(structure)
	for i := 0; i < st.NumFields(); i++ {
		f := st.Field(i)
		tag := tagOf(st, i)
		if !f.Exported() {
			continue
		}
		if tag == "" {
			tag = f.Name()
		}
		key := prefix + strings.ToLower(tag)
		ft := f.Type()
		et := ft
		isPtr := false
		if pt, ok := ft.Underlying().(*types.Pointer); ok {
			et, isPtr = pt.Elem(), true
		}
		if _, isStruct := et.Underlying().(*types.Struct); isStruct && !isNamed(et, "time.Time") {
			// a section: descend if any known key lies below it
			below := false
			for _, m := range []map[string]cfgLeaf{in.viper().defaults, in.viper().file, in.viper().overrides} {
				for k := range m {
					if strings.HasPrefix(k, key+".") {
						below = true
					}
				}
			}
			if !below {
				continue
			}
			if isPtr {
				pv, _ := sv[i].(*value)
				if pv == nil {
					cell := in.zero(et)
					pv = &cell
					sv[i] = pv
				}
				in.unmarshalInto(et, pv, key+".")
			} else {
				cell := sv[i]
				in.unmarshalInto(et, &cell, key+".")
				sv[i] = cell
			}
			continue
		}
		if !in.viperKnown(key) {
			continue
		}
		if l, ok := in.viperResolve(key); ok {
			sv[i] = in.assignLeaf(ft, l)
		}
	}
}

func (P *Program) registerViper() {
	P.reg("github.com/mitchellh/mapstructure.Decode", func(fr *frame, args []value) value {
		in := fr.in
		src, _ := args[0].(iface)
		dst, _ := args[1].(iface)
		pm, ok := dst.v.(*value)
		if src.t == nil || !ok || pm == nil {
			panic(unsupported{"mapstructure.Decode: only struct -> *map[string]interface{} is modelled"})
		}
		m, ok := (*pm).(*smap)
		if !ok || m == nil {
			panic(unsupported{"mapstructure.Decode: only struct -> *map[string]interface{} is modelled"})
		}
		in.path.noteAssumption("mapstructure.Decode(struct, &map): one entry per `mapstructure` tag, nested structs become nested maps")
		in.structToMap(src.t, src.v, m)
		return iface{}
	})
	P.reg("strings.NewReplacer", func(fr *frame, args []value) value {
		var pairs []string
		for _, a := range args[0].(sliceVal) {
			pairs = append(pairs, fr.in.goStr(a, "replacer pair"))
		}
		var cell value = &opaque{kind: "strings.Replacer", data: pairs}
		return &cell
	})
	P.reg(viperPkg+".Reset", func(fr *frame, args []value) value { delete(fr.in.extra, "viper"); return nil })
	P.reg(viperPkg+".SetDefault", func(fr *frame, args []value) value {
		in := fr.in
		in.path.noteAssumption("viper is modelled by its documented contract: Set > environment (AutomaticEnv, prefix, key replacer, empty = unset) > file > default; Unmarshal fills the keys viper knows")
		in.flattenDefault(in.viper().defaults, in.goStr(args[0], "viper key"), nil, args[1])
		return nil
	})
	P.reg(viperPkg+".Set", func(fr *frame, args []value) value {
		in := fr.in
		in.flattenDefault(in.viper().overrides, in.goStr(args[0], "viper key"), nil, args[1])
		return nil
	})
	// MergeConfigMap / MergeConfig: values merged into the configuration (file) layer - the layer that a
	// later ReadInConfig replaces
	P.reg(viperPkg+".MergeConfigMap", func(fr *frame, args []value) value {
		in := fr.in
		m, ok := args[0].(*smap)
		if !ok || m == nil {
			return iface{}
		}
		for i, k := range m.keys {
			if k != nil {
				in.flattenDefault(in.viper().file, in.goStr(k, "configuration map key"), nil, m.vals[i])
			}
		}
		return iface{}
	})
	P.reg(viperPkg+".SetEnvPrefix", func(fr *frame, args []value) value {
		fr.in.viper().envPrefix = fr.in.goStr(args[0], "environment prefix")
		return nil
	})
	P.reg(viperPkg+".SetEnvKeyReplacer", func(fr *frame, args []value) value {
		p, _ := args[0].(*value)
		if p == nil {
			fr.in.viper().replacer = nil
			return nil
		}
		fr.in.viper().replacer = (*p).(*opaque).data.([]string)
		return nil
	})
	P.reg(viperPkg+".AutomaticEnv", func(fr *frame, args []value) value { fr.in.viper().autoEnv = true; return nil })
	P.reg(viperPkg+".GetString", func(fr *frame, args []value) value {
		in := fr.in
		l, ok := in.viperResolve(in.goStr(args[0], "viper key"))
		if !ok {
			return ""
		}
		if l.t == nil {
			return in.valField(l.v, "S")
		}
		return l.v
	})
	P.reg(viperPkg+".SetConfigFile", func(fr *frame, args []value) value { fr.in.viper().cfgFile = args[0]; return nil })
	P.reg(viperPkg+".ReadInConfig", func(fr *frame, args []value) value {
		in := fr.in
		st := in.viper()
		if st.cfgFile == nil {
			return in.mkError("Config File Not Found")
		}
		y, ok := in.extra["yaml:"+in.goStr(st.cfgFile, "configuration file path")].(map[string]value)
		if !ok {
			return in.mkError("open: no such file or directory")
		}
		st.file = map[string]cfgLeaf{}
		for k, v := range y {
			st.file[strings.ToLower(k)] = cfgLeaf{v: v}
		}
		return iface{}
	})
	P.reg(viperPkg+".Unmarshal", func(fr *frame, args []value) value {
		in := fr.in
		dst, _ := args[0].(iface)
		p, ok := dst.v.(*value)
		if dst.t == nil || !ok || p == nil {
			return in.mkError("viper.Unmarshal: result must be a pointer")
		}
		in.unmarshalInto(deref(dst.t), p, "")
		return iface{}
	})
	// ---- the harness side
	P.reg(VHCFG+".Reset", func(fr *frame, args []value) value {
		delete(fr.in.extra, "viper")
		delete(fr.in.extra, "env")
		return nil
	})
	P.reg(VHCFG+".TempDir", func(fr *frame, args []value) value {
		n, _ := fr.in.extra["vhcfg-tempdirs"].(int)
		fr.in.extra["vhcfg-tempdirs"] = n + 1
		return fmt.Sprintf("/vhdb-model/dir%d", n)
	})
	P.reg(VHCFG+".Setenv", func(fr *frame, args []value) value {
		fr.in.envModel()[fr.in.goStr(args[0], "environment variable name")] = copyVal(args[1])
		return nil
	})
	P.reg(VHCFG+".WriteYAML", func(fr *frame, args []value) value {
		in := fr.in
		path := in.goStr(args[0], "configuration file path")
		in.extra["yaml:"+path] = map[string]value{in.goStr(args[1], "key"): copyVal(args[2])}
		in.fs()[in.fsKey(path)] = &fileObj{}
		return nil
	})
	leafKind := func(t types.Type) int64 {
		if isNamed(t, "time.Duration") {
			return 4
		}
		b, ok := t.Underlying().(*types.Basic)
		if !ok {
			return -1
		}
		switch {
		case b.Info()&types.IsString != 0:
			return 0
		case b.Info()&types.IsBoolean != 0:
			return 2
		case b.Kind() == types.Uint16:
			return 3
		case b.Kind() == types.Int || b.Kind() == types.Int64 || b.Kind() == types.Int32:
			return 1
		}
		return -1
	}
	var walk func(in *Interp, t types.Type, prefix string, out *sliceVal)
	walk = func(in *Interp, t types.Type, prefix string, out *sliceVal) {
		st := t.Underlying().(*types.Struct)
		leafT := in.P.namedType(VHCFG + ".Leaf")
		for i := 0; i < st.NumFields(); i++ {
			f := st.Field(i)
			tag := tagOf(st, i)
			if tag == "" || !f.Exported() {
				continue
			}
			ft := f.Type()
			if p, ok := ft.Underlying().(*types.Pointer); ok {
				ft = p.Elem()
			}
			key := prefix + tag
			if _, isStruct := ft.Underlying().(*types.Struct); isStruct && !isNamed(ft, "time.Duration") {
				walk(in, ft, key+".", out)
				continue
			}
			l := in.zero(leafT).(structure)
			l[structField(leafT, "Key")] = key
			l[structField(leafT, "Kind")] = in.intv(leafKind(ft))
			*out = append(*out, l)
		}
	}
	P.reg(VHCFG+".Leaves", func(fr *frame, args []value) value {
		var out sliceVal
		walk(fr.in, fr.in.P.namedType(RepoModule+"/config.AppConfig"), "", &out)
		return out
	})
	P.reg(VHCFG+".Get", func(fr *frame, args []value) value {
		in := fr.in
		valT := in.P.namedType(VHCFG + ".Val")
		out := in.zero(valT).(structure)
		missing := func() value { out[structField(valT, "Kind")] = in.intv(-1); return out }
		var t types.Type = types.NewPointer(in.P.namedType(RepoModule + "/config.AppConfig"))
		v := args[0]
		step := func() bool { // dereference pointers
			for {
				p, ok := t.Underlying().(*types.Pointer)
				if !ok {
					return true
				}
				pv, _ := v.(*value)
				if pv == nil {
					return false
				}
				t, v = p.Elem(), *pv
			}
		}
		for _, part := range strings.Split(in.goStr(args[1], "key"), ".") {
			if !step() {
				return missing()
			}
			st, ok := t.Underlying().(*types.Struct)
			if !ok {
				return missing()
			}
			found := false
			for i := 0; i < st.NumFields(); i++ {
				if tagOf(st, i) == part {
					t, v, found = st.Field(i).Type(), v.(structure)[i], true
					break
				}
			}
			if !found {
				return missing()
			}
		}
		if !step() {
			return missing()
		}
		k := leafKind(t)
		out[structField(valT, "Kind")] = in.intv(k)
		switch k {
		case 0:
			out[structField(valT, "S")] = v
		case 2:
			out[structField(valT, "B")] = v
		case 1, 4:
			tv := v.(*smt.Term)
			if tv.Sort.W < 64 {
				tv = in.C.SExt(tv, 64)
			}
			out[structField(valT, "I")] = tv
		case 3:
			out[structField(valT, "I")] = in.C.ZExt(v.(*smt.Term), 64)
		}
		return out
	})
	LOGP := RepoModule + "/logging"
	mkLogger := func(fr *frame, res types.Type) value {
		cell := fr.in.zero(deref(res))
		return &cell
	}
	P.reg(LOGP+".GetDefaultLogger", func(fr *frame, args []value) value {
		return mkLogger(fr, fr.fn.Signature.Results().At(0).Type())
	})
	P.reg(LOGP+".CreateLogger", func(fr *frame, args []value) value {
		fr.in.path.noteAssumption("logging.CreateLogger succeeds (the harness only supplies valid level names)")
		return tuple{mkLogger(fr, fr.fn.Signature.Results().At(0).Type()), iface{}}
	})
}
