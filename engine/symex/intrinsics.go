package symex

import (
	"fmt"
	"go/types"
	"math/big"
	"strconv"
	"strings"
	"sync"

	"bhsverif/smt"

	"golang.org/x/tools/go/ssa"
)

type intrinsic func(fr *frame, args []value) value

var synthMu sync.Mutex

// synthType returns an engine-made named type used as dynamic type of host objects.
func (in *Interp) synthType(name string) types.Type {
	synthMu.Lock()
	defer synthMu.Unlock()
	if t, ok := in.P.synth[name]; ok {
		return t
	}
	tn := types.NewTypeName(0, nil, name, nil)
	t := types.NewNamed(tn, types.NewStruct(nil, nil), nil)
	in.P.synth[name] = t
	return t
}

func synthName(t types.Type) (string, bool) {
	n, ok := t.(*types.Named)
	if !ok || n.Obj().Pkg() != nil {
		return "", false
	}
	name := n.Obj().Name()
	if name == "error" || name == "any" || name == "comparable" {
		return "", false
	}
	return name, true
}

// synthMethods lists the methods of an engine-made type.
func (in *Interp) synthMethods(t types.Type) (map[string]bool, bool) {
	name, ok := synthName(t)
	if !ok {
		return nil, false
	}
	switch {
	case name == "runtime.errorString", name == "engine.error":
		return map[string]bool{"Error": true, "Unwrap": true, "RuntimeError": name == "runtime.errorString"}, true
	case strings.HasPrefix(name, "opaque.context.Context"):
		return map[string]bool{"Done": true, "Err": true, "Value": true, "Deadline": true}, true
	}
	return map[string]bool{}, true
}

// engineErr is the payload of an "engine.error" interface value.
type engineErr struct {
	msg   value // string | Str term
	cause []iface
}

func (in *Interp) mkError(msg value, causes ...iface) iface {
	var cell value = &engineErr{msg: msg, cause: causes}
	_ = cell
	return iface{t: in.synthType("engine.error"), v: &engineErr{msg: msg, cause: causes}}
}

func (in *Interp) nativeMethod(typ types.Type, name string) value {
	sn, ok := synthName(typ)
	if !ok {
		return nil
	}
	switch sn {
	case "runtime.errorString":
		if name == "Error" {
			return &native{name: "errorString.Error", fn: func(fr *frame, args []value) value { return args[0] }}
		}
	case "engine.error":
		switch name {
		case "Error":
			return &native{name: "engine.error.Error", fn: func(fr *frame, args []value) value { return args[0].(*engineErr).msg }}
		case "Unwrap":
			return &native{name: "engine.error.Unwrap", fn: func(fr *frame, args []value) value {
				e := args[0].(*engineErr)
				if len(e.cause) == 0 {
					return iface{}
				}
				return e.cause[0]
			}}
		}
	}
	if strings.HasPrefix(sn, "opaque.context.Context") {
		switch name {
		case "Err":
			return &native{name: "ctx.Err", fn: func(fr *frame, args []value) value { return iface{} }}
		case "Done":
			return &native{name: "ctx.Done", fn: func(fr *frame, args []value) value { return (*chanVal)(nil) }}
		case "Value":
			return &native{name: "ctx.Value", fn: func(fr *frame, args []value) value { return iface{} }}
		}
	}
	panic(unsupported{fmt.Sprintf("method %s on host object %s", name, sn)})
}

func (in *Interp) lookupIntrinsic(fn *ssa.Function) intrinsic {
	if h, ok := in.P.intrinsics[fn.String()]; ok {
		return h
	}
	if o := fn.Origin(); o != nil && o != fn {
		if h, ok := in.P.intrinsics[o.String()]; ok {
			return h
		}
	}
	return nil
}

func (P *Program) reg(name string, h intrinsic) { P.intrinsics[name] = h }

func tm(v value) *smt.Term { return v.(*smt.Term) }

func (in *Interp) newNondet(name, kind string, s smt.Sort) *smt.Term {
	p := in.path
	t := in.C.Var(fmt.Sprintf("n%d_%s", len(p.nondets), name), s)
	p.nondets = append(p.nondets, Nondet{Name: name, Kind: kind, Term: t})
	return t
}

func (in *Interp) goStr(v value, what string) string {
	switch v := v.(type) {
	case string:
		return v
	case bstr:
		if s, ok := in.bstrConcrete(v); ok {
			return s
		}
	case *smt.Term:
		if s, ok := in.C.GoString(v); ok {
			return s
		}
	}
	panic(unsupported{what + ": concrete string required"})
}

const VH = RepoModule + "/internal/zzverif/vh"

func (P *Program) registerIntrinsics() {
	P.intrinsics = map[string]intrinsic{}
	P.registerVH()
	P.registerBig()
	P.registerStd()
	P.registerTime()
	P.registerRepoModels()
	P.registerSQL()
	P.registerVHDB()
	P.registerWriteStmts()
	P.registerGin()
	P.registerGinCompare()
	P.registerViper()
	P.registerCSV()
}

func (P *Program) registerVH() {
	nd := func(kind string, s smt.Sort) intrinsic {
		return func(fr *frame, args []value) value {
			return fr.in.newNondet(fr.in.goStr(args[0], "nondet name"), kind, s)
		}
	}
	P.reg(VH+".Interleave", func(fr *frame, args []value) value {
		fr.in.interleave(fr, [2]value{args[0], args[1]})
		return nil
	})
	P.reg(VH+".Yield", func(fr *frame, args []value) value {
		fr.in.yield(fr.in.mustInt(args[0], "vh.Yield bound"))
		return nil
	})
	P.reg(VH+".NondetBool", nd("bool", smt.Bool))
	P.reg(VH+".NondetI8", nd("i8", smt.BV(8)))
	P.reg(VH+".NondetU8", nd("u8", smt.BV(8)))
	P.reg(VH+".NondetI32", nd("i32", smt.BV(32)))
	P.reg(VH+".NondetU32", nd("u32", smt.BV(32)))
	P.reg(VH+".NondetI64", nd("i64", smt.BV(64)))
	P.reg(VH+".NondetU64", nd("u64", smt.BV(64)))
	P.reg(VH+".NondetInt", nd("int", smt.BV(64)))
	P.reg(VH+".NondetStr", func(fr *frame, args []value) value {
		in := fr.in
		t := in.newNondet(in.goStr(args[0], "nondet name"), "str", smt.Str)
		in.constrainStr(t)
		return t
	})
	P.reg(VH+".NondetText", func(fr *frame, args []value) value {
		in := fr.in
		t := in.newNondet(in.goStr(args[0], "nondet name"), "text", smt.Str)
		in.constrainStr(t)
		in.assumeSilently(in.C.Not(in.C.IsDec(t)))
		return t
	})
	P.reg(VH+".NondetHuge", func(fr *frame, args []value) value {
		in := fr.in
		c := in.C
		n := in.newNondet(in.goStr(args[0], "nondet name"), "huge", smt.Int)
		lo := c.IntConst(new(big.Int).Neg(bigPow2(63)))
		hi := c.IntConst(new(big.Int).Sub(bigPow2(63), big.NewInt(1)))
		in.assumeSilently(c.Or(c.ILt(n, lo), c.ILt(hi, n)))
		return c.StrDec(n)
	})
	P.reg(VH+".NondetAtom", func(fr *frame, args []value) value {
		in := fr.in
		c := in.C
		t := in.newNondet(in.goStr(args[0], "nondet name"), "atom", smt.Str)
		in.constrainStr(t)
		// space-free: a literal atom is one of a few space-free literals; hex/dec/opq never contain a space
		var lits []*smt.Term
		for _, l := range []string{"", "Bearer", "bearer", "Basic", "x"} {
			lits = append(lits, c.Eq(t, c.StrConst(l)))
		}
		in.assumeSilently(c.Implies(c.IsLit(t), c.Or(lits...)))
		in.path.sepFree[t.ID] = true
		return t
	})
	P.reg(VH+".NondetHash", func(fr *frame, args []value) value {
		in := fr.in
		t := in.newNondet(in.goStr(args[0], "nondet name"), "hash", smt.BV(256))
		return in.hashFromBV(t)
	})
	P.reg(VH+".NondetBig", func(fr *frame, args []value) value {
		in := fr.in
		t := in.newNondet(in.goStr(args[0], "nondet name"), "big", smt.Int)
		var cell value = bigVal{t}
		return &cell
	})
	P.reg(VH+".NondetTime", func(fr *frame, args []value) value {
		in := fr.in
		t := in.newNondet(in.goStr(args[0], "nondet name"), "time", smt.BV(64))
		// representable range of the service: the uint32 epoch range
		in.assumeSilently(in.C.BVSLe(in.C.BVConstI(0, 64), t))
		in.assumeSilently(in.C.BVSLe(t, in.C.BVConstI(1<<32-1, 64)))
		return timeVal{t}
	})
	P.reg(VH+".Assume", func(fr *frame, args []value) value { fr.in.Assume(tm(args[0])); return nil })
	P.reg(VH+".Assert", func(fr *frame, args []value) value {
		in := fr.in
		label := in.goStr(args[0], "assert label")
		if in.path.pos < len(in.path.prefix) {
			// evaluated by the path that discovered this prefix, under the same path condition
			c := tm(args[1])
			if c.IsFalse() {
				panic(pathEnd{"assertion false on whole path"})
			}
			in.assumeRaw(c)
			return nil
		}
		in.Assert(label, tm(args[1]))
		return nil
	})
	P.reg(VH+".Reach", func(fr *frame, args []value) value {
		in := fr.in
		if in.path.pos >= len(in.path.prefix) {
			st := in.path.label("reach:" + in.goStr(args[0], "reach label"))
			st.Reached++
			st.Proved++
		}
		return nil
	})
	P.reg(VH+".Class", func(fr *frame, args []value) value {
		fr.in.path.classes[fr.in.goStr(args[0], "class name")] = tm(args[1])
		return nil
	})
	P.reg(VH+".Observe", func(fr *frame, args []value) value {
		in := fr.in
		in.observed = append(in.observed, in.observation(in.goStr(args[0], "observe name"), args[1].(iface).t, args[1].(iface).v))
		return nil
	})
	P.reg(VH+".And", func(fr *frame, args []value) value {
		var ts []*smt.Term
		for _, a := range args[0].(sliceVal) {
			ts = append(ts, tm(a))
		}
		return fr.in.C.And(ts...)
	})
	P.reg(VH+".Or", func(fr *frame, args []value) value {
		var ts []*smt.Term
		for _, a := range args[0].(sliceVal) {
			ts = append(ts, tm(a))
		}
		return fr.in.C.Or(ts...)
	})
	P.reg(VH+".Not", func(fr *frame, args []value) value { return fr.in.C.Not(tm(args[0])) })
	P.reg(VH+".Implies", func(fr *frame, args []value) value { return fr.in.C.Implies(tm(args[0]), tm(args[1])) })
	P.reg(VH+".Iff", func(fr *frame, args []value) value { return fr.in.C.Eq(tm(args[0]), tm(args[1])) })
	P.reg(VH+".IteI32", func(fr *frame, args []value) value { return fr.in.C.Ite(tm(args[0]), tm(args[1]), tm(args[2])) })
	P.reg(VH+".IteU8", func(fr *frame, args []value) value { return fr.in.C.Ite(tm(args[0]), tm(args[1]), tm(args[2])) })
	P.reg(VH+".IteI64", func(fr *frame, args []value) value { return fr.in.C.Ite(tm(args[0]), tm(args[1]), tm(args[2])) })
	P.reg(VH+".IteBig", func(fr *frame, args []value) value {
		in := fr.in
		a := in.bigOf(*args[1].(*value))
		b := in.bigOf(*args[2].(*value))
		var cell value = bigVal{in.C.Ite(tm(args[0]), a, b)}
		return &cell
	})
	P.reg(VH+".IteStr", func(fr *frame, args []value) value {
		in := fr.in
		return in.normStr(in.C.Ite(tm(args[0]), in.strTerm(args[1]), in.strTerm(args[2])))
	})
	P.reg(VH+".StrEq", func(fr *frame, args []value) value {
		return fr.in.equals(types.Typ[types.String], args[0], args[1])
	})
	P.reg(VH+".HashEq", func(fr *frame, args []value) value {
		in := fr.in
		a, _ := in.packBytes(args[0].(array))
		b, _ := in.packBytes(args[1].(array))
		return in.C.Eq(a, b)
	})
	P.reg(VH+".BigEq", func(fr *frame, args []value) value {
		in := fr.in
		return in.C.Eq(in.bigOf(*args[0].(*value)), in.bigOf(*args[1].(*value)))
	})
	P.reg(VH+".BigLt", func(fr *frame, args []value) value {
		in := fr.in
		return in.C.ILt(in.bigOf(*args[0].(*value)), in.bigOf(*args[1].(*value)))
	})
	P.reg(VH+".BigLe", func(fr *frame, args []value) value {
		in := fr.in
		return in.C.ILe(in.bigOf(*args[0].(*value)), in.bigOf(*args[1].(*value)))
	})
	P.reg(VH+".Choose", func(fr *frame, args []value) value {
		in := fr.in
		n := in.mustInt(args[0], "choose bound")
		t := in.newNondet("choose", "choose", smt.BV(64))
		in.assumeSilently(in.C.BVULt(t, in.C.BVConstU(uint64(n), 64)))
		v := in.concretize(t, "choose")
		return in.C.BVConst(v, 64)
	})
	P.reg(VH+".Concrete", func(fr *frame, args []value) value {
		in := fr.in
		t := tm(args[0])
		v := in.concretize(t, "vh.Concrete")
		return in.constLike(t, v)
	})
	P.reg(VH+".Concretely", func(fr *frame, args []value) value { return fr.in.boolv(fr.in.branch(tm(args[0]))) })
	P.reg(VH+".Bytes", func(fr *frame, args []value) value {
		in := fr.in
		n := in.mustInt(args[1], "byte count")
		name := in.goStr(args[0], "nondet name")
		out := make(sliceVal, n)
		for i := range out {
			out[i] = in.newNondet(name, "u8", smt.BV(8))
		}
		return out
	})
	P.reg(VH+".SetAllocView", func(fr *frame, args []value) value {
		fr.in.extra["allocview"] = fr.in.mustInt(args[0], "alloc view")
		fr.in.extra["allocbytes"] = fr.in.C.BVConstI(0, 64)
		return nil
	})
	P.reg(VH+".AllocatedBytes", func(fr *frame, args []value) value {
		if t, ok := fr.in.extra["allocbytes"].(*smt.Term); ok {
			return t
		}
		return fr.in.intv(0)
	})
	P.reg(VH+".Settle", func(fr *frame, args []value) value { return nil })
	P.reg(VH+".MustNotBlock", func(fr *frame, args []value) value {
		in := fr.in
		label := in.goStr(args[0], "label")
		blocked := false
		func() {
			defer func() {
				if r := recover(); r != nil {
					if _, ok := r.(blockedSignal); ok {
						blocked = true
						return
					}
					panic(r)
				}
			}()
			in.call(fr, 0, args[1], nil)
		}()
		if in.path.pos >= len(in.path.prefix) {
			in.Assert(label, in.C.BoolConst(!blocked))
		} else if blocked {
			panic(pathEnd{"assertion false on whole path"})
		}
		return nil
	})
	P.reg(VH+".Symbolic", func(fr *frame, args []value) value { return fr.in.C.True() })
	P.reg(VH+".SetUnwind", func(fr *frame, args []value) value { fr.in.Unwind = fr.in.mustInt(args[0], "unwind"); return nil })
	P.reg(VH+".Logger", func(fr *frame, args []value) value {
		lt := fr.fn.Signature.Results().At(0).Type()
		cell := fr.in.zero(deref(lt))
		return &cell
	})
	P.reg(VH+".UF", func(fr *frame, args []value) value {
		// UF(name string, arg uint32) *big.Int : non-negative integer-valued uninterpreted function
		in := fr.in
		name := in.goStr(args[0], "uf name")
		in.C.DeclareFun(name, []smt.Sort{smt.BV(32)}, smt.Int)
		t := in.C.App(name, tm(args[1]))
		in.assumeSilently(in.C.ILe(in.C.IntConstI(0), t))
		var cell value = bigVal{t}
		return &cell
	})
	P.reg(VH+".HashUF", func(fr *frame, args []value) value {
		// HashUF(name string, parts ...[]byte-like packed) : 256-bit UF over a packed BV argument list
		panic(unsupported{"vh.HashUF not implemented"})
	})
}

// constrainStr restricts a free Str variable to the well-formed part of the algebra.
func (in *Interp) constrainStr(t *smt.Term) {
	c := in.C
	// no cat at top level for free inputs; lit index non-negative; dec canonical by construction
	in.assumeSilently(c.Not(c.IsCat(t)))
	in.assumeSilently(c.Implies(c.IsLit(t), c.ILe(c.IntConstI(0), c.LitIdx(t))))
	in.assumeSilently(c.Implies(c.IsOpq(t), c.ILe(c.IntConstI(0), c.OpqVal(t))))
}

// hashFromBV builds a [32]byte value whose display string (byte-reversed hex) is hex(t):
// byte i of the array is the i-th least significant byte of t.
func (in *Interp) hashFromBV(t *smt.Term) array {
	a := make(array, 32)
	for i := 0; i < 32; i++ {
		a[i] = in.C.Extract(t, 8*i+7, 8*i)
	}
	return a
}

// hashToBV is the inverse of hashFromBV.
func (in *Interp) hashToBV(a []value) *smt.Term {
	var acc *smt.Term
	for i := 31; i >= 0; i-- {
		t := a[i].(*smt.Term)
		if acc == nil {
			acc = t
		} else {
			acc = in.C.Concat(acc, t)
		}
	}
	return acc
}

func (in *Interp) show(v value) string {
	switch v := v.(type) {
	case *smt.Term:
		if v.IsConst() {
			if v.Op == smt.OpBoolConst {
				return strconv.FormatBool(v.B)
			}
			return v.SVal().String()
		}
		if s, ok := in.C.GoString(v); ok {
			return s
		}
		return fmt.Sprintf("<sym %s>", v.Sort)
	case string:
		return v
	case bigVal:
		return in.show(in.bigOf(v))
	case timeVal:
		return in.show(v.sec)
	case array:
		if p, ok := in.packBytes(v); ok && p.IsConst() {
			return fmt.Sprintf("%0*x", len(v)*2, p.Val)
		}
		var ss []string
		for _, e := range v {
			ss = append(ss, in.show(e))
		}
		return "[" + strings.Join(ss, " ") + "]"
	case structure:
		var ss []string
		for _, e := range v {
			ss = append(ss, in.show(e))
		}
		return "{" + strings.Join(ss, " ") + "}"
	case sliceVal:
		var ss []string
		for _, e := range v {
			ss = append(ss, in.show(e))
		}
		return "[" + strings.Join(ss, " ") + "]"
	case iface:
		if v.t == nil {
			return "<nil>"
		}
		return in.show(v.v)
	case *value:
		if v == nil {
			return "<nil>"
		}
		return "&" + in.show(*v)
	case nil:
		return "<nil>"
	}
	return fmt.Sprintf("<%T>", v)
}

// ---------------------------------------------------------------- math/big

func (P *Program) registerBig() {
	B := "(*math/big.Int)."
	get := func(in *Interp, v value) *smt.Term {
		p := v.(*value)
		if p == nil {
			panic(targetPanic{msg: "runtime error: invalid memory address or nil pointer dereference"})
		}
		return in.bigOf(*p)
	}
	set := func(in *Interp, dst value, t *smt.Term) value {
		p := dst.(*value)
		if p == nil {
			panic(targetPanic{msg: "runtime error: invalid memory address or nil pointer dereference"})
		}
		*p = bigVal{t}
		return p
	}
	bin := func(f func(c *smt.Ctx, a, b *smt.Term) *smt.Term) intrinsic {
		return func(fr *frame, args []value) value {
			in := fr.in
			return set(in, args[0], f(in.C, get(in, args[1]), get(in, args[2])))
		}
	}
	P.reg("math/big.NewInt", func(fr *frame, args []value) value {
		var cell value = bigVal{fr.in.C.BV2Int(tm(args[0]))}
		return &cell
	})
	P.reg(B+"Add", bin(func(c *smt.Ctx, a, b *smt.Term) *smt.Term { return c.IAdd(a, b) }))
	P.reg(B+"Sub", bin(func(c *smt.Ctx, a, b *smt.Term) *smt.Term { return c.ISub(a, b) }))
	P.reg(B+"Mul", bin(func(c *smt.Ctx, a, b *smt.Term) *smt.Term { return c.IMul(a, b) }))
	divLike := func(euclid bool, wantMod bool) intrinsic {
		return func(fr *frame, args []value) value {
			in := fr.in
			c := in.C
			a, b := get(in, args[1]), get(in, args[2])
			if in.branch(c.Eq(b, c.IntConstI(0))) {
				panic(targetPanic{msg: "division by zero"})
			}
			q, m := c.IDiv(a, b), c.IMod(a, b) // SMT-LIB: euclidean
			if !euclid {
				// truncated division: adjust when a<0 and remainder nonzero
				neg := c.ILt(a, c.IntConstI(0))
				nz := c.Not(c.Eq(m, c.IntConstI(0)))
				bpos := c.ILt(c.IntConstI(0), b)
				adj := c.And(neg, nz)
				q = c.Ite(adj, c.Ite(bpos, c.IAdd(q, c.IntConstI(1)), c.ISub(q, c.IntConstI(1))), q)
				m = c.Ite(adj, c.Ite(bpos, c.ISub(m, b), c.IAdd(m, b)), m)
			}
			if wantMod {
				return set(in, args[0], m)
			}
			return set(in, args[0], q)
		}
	}
	P.reg(B+"Div", divLike(true, false))
	P.reg(B+"Mod", divLike(true, true))
	P.reg(B+"Quo", divLike(false, false))
	P.reg(B+"Rem", divLike(false, true))
	P.reg(B+"Neg", func(fr *frame, args []value) value {
		return set(fr.in, args[0], fr.in.C.INeg(get(fr.in, args[1])))
	})
	P.reg(B+"Abs", func(fr *frame, args []value) value {
		c := fr.in.C
		a := get(fr.in, args[1])
		return set(fr.in, args[0], c.Ite(c.ILt(a, c.IntConstI(0)), c.INeg(a), a))
	})
	P.reg(B+"Set", func(fr *frame, args []value) value { return set(fr.in, args[0], get(fr.in, args[1])) })
	P.reg(B+"SetInt64", func(fr *frame, args []value) value {
		return set(fr.in, args[0], fr.in.C.BV2Int(tm(args[1])))
	})
	P.reg(B+"SetUint64", func(fr *frame, args []value) value {
		return set(fr.in, args[0], fr.in.C.BV2Nat(tm(args[1])))
	})
	P.reg(B+"Lsh", func(fr *frame, args []value) value {
		in := fr.in
		n := in.concretize(tm(args[2]), "big.Int.Lsh shift count")
		if n.Sign() < 0 || n.Cmp(big.NewInt(4096)) > 0 {
			panic(unsupported{"big.Int.Lsh by " + n.String()})
		}
		return set(in, args[0], in.C.IMul(get(in, args[1]), in.C.IntConst(bigPow2(uint(n.Uint64())))))
	})
	P.reg(B+"Rsh", func(fr *frame, args []value) value {
		in := fr.in
		n := in.concretize(tm(args[2]), "big.Int.Rsh shift count")
		if n.Sign() < 0 || n.Cmp(big.NewInt(4096)) > 0 {
			panic(unsupported{"big.Int.Rsh by " + n.String()})
		}
		return set(in, args[0], in.C.IDiv(get(in, args[1]), in.C.IntConst(bigPow2(uint(n.Uint64())))))
	})
	P.reg(B+"Cmp", func(fr *frame, args []value) value {
		in := fr.in
		c := in.C
		a, b := get(in, args[0]), get(in, args[1])
		return c.Ite(c.ILt(a, b), c.BVConstI(-1, 64), c.Ite(c.Eq(a, b), c.BVConstI(0, 64), c.BVConstI(1, 64)))
	})
	P.reg(B+"Sign", func(fr *frame, args []value) value {
		in := fr.in
		c := in.C
		a := get(in, args[0])
		z := c.IntConstI(0)
		return c.Ite(c.ILt(a, z), c.BVConstI(-1, 64), c.Ite(c.Eq(a, z), c.BVConstI(0, 64), c.BVConstI(1, 64)))
	})
	P.reg(B+"String", func(fr *frame, args []value) value {
		in := fr.in
		p := args[0].(*value)
		if p == nil {
			return "<nil>"
		}
		return in.normStr(in.C.StrDec(in.bigOf(*p)))
	})
	P.reg(B+"Text", func(fr *frame, args []value) value {
		in := fr.in
		if in.mustInt(args[1], "big.Text base") != 10 {
			panic(unsupported{"big.Int.Text with base != 10"})
		}
		return in.normStr(in.C.StrDec(get(in, args[0])))
	})
	P.reg(B+"SetString", func(fr *frame, args []value) value {
		in := fr.in
		c := in.C
		base := in.mustInt(args[2], "big.SetString base")
		if s, ok := args[1].(string); ok {
			v, okk := new(big.Int).SetString(s, base)
			if !okk {
				return tuple{(*value)(nil), c.False()}
			}
			return tuple{set(in, args[0], c.IntConst(v)), c.True()}
		}
		if base != 10 {
			panic(unsupported{"big.Int.SetString of symbolic string with base != 10"})
		}
		st := in.strTerm(args[1])
		isd := c.IsDec(st)
		if in.branch(isd) {
			return tuple{set(in, args[0], c.DecVal(st)), c.True()}
		}
		// a 64-digit all-decimal hash string would parse as well; character-level coincidences are outside the model
		in.path.noteAssumption("big.Int.SetString: a non-dec string never parses as a decimal number")
		return tuple{(*value)(nil), c.False()}
	})
	P.reg(B+"Int64", func(fr *frame, args []value) value { return fr.in.C.Int2BV(get(fr.in, args[0]), 64) })
	P.reg(B+"Uint64", func(fr *frame, args []value) value { return fr.in.C.Int2BV(get(fr.in, args[0]), 64) })
	P.reg(B+"IsInt64", func(fr *frame, args []value) value {
		c := fr.in.C
		a := get(fr.in, args[0])
		lo := c.IntConst(new(big.Int).Neg(bigPow2(63)))
		hi := c.IntConst(new(big.Int).Sub(bigPow2(63), big.NewInt(1)))
		return c.And(c.ILe(lo, a), c.ILe(a, hi))
	})
	P.reg(B+"BitLen", func(fr *frame, args []value) value {
		in := fr.in
		a := get(in, args[0])
		if a.IsConst() {
			return in.C.BVConstI(int64(a.Val.BitLen()), 64)
		}
		panic(unsupported{"big.Int.BitLen of symbolic value"})
	})
	P.reg(B+"Exp", func(fr *frame, args []value) value {
		in := fr.in
		x, y := get(in, args[1]), get(in, args[2])
		if mp := args[3].(*value); mp != nil {
			panic(unsupported{"big.Int.Exp with modulus"})
		}
		if x.IsConst() && y.IsConst() {
			return set(in, args[0], in.C.IntConst(new(big.Int).Exp(x.Val, y.Val, nil)))
		}
		panic(unsupported{"big.Int.Exp of symbolic values"})
	})
}

// observation keeps scalar observations as terms so that a path witness can evaluate them.
func (in *Interp) observation(name string, t types.Type, v value) Observation {
	o := Observation{Name: name}
	if t != nil {
		if b := basicOf(t); b != nil {
			if _, signed, ok := intWidth(b); ok && !signed {
				o.uns = true
			}
		}
	}
	switch x := v.(type) {
	case *smt.Term:
		o.term = x
	case bigVal:
		o.term = in.bigOf(x)
	case timeVal:
		o.term = x.sec
	case *value:
		if x != nil {
			if b, ok := (*x).(bigVal); ok {
				o.term = in.bigOf(b)
			}
		}
	case array:
		if len(x) == 32 {
			if _, ok := x[0].(*smt.Term); ok {
				o.term = in.C.StrHex(in.hashToBV(x))
			}
		}
	}
	if o.term != nil && o.term.IsValue() {
		o.Val = in.renderObs(o.term, o.uns)
		o.term = nil
	} else if o.term == nil {
		o.Val = in.show(v)
	}
	return o
}

func (in *Interp) renderObs(t *smt.Term, uns bool) string {
	if uns && t.Sort.K == smt.KBV {
		return t.Val.String()
	}
	switch t.Sort.K {
	case smt.KBool:
		if t.B {
			return "true"
		}
		return "false"
	case smt.KStr:
		s, _ := in.C.GoString(t)
		return s
	case smt.KInt:
		return t.Val.String()
	}
	return t.SVal().String()
}
