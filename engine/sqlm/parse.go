// Package sqlm parses the SQL dialect used by the repository's statement constants and
// evaluates it over bounded symbolic tables.
package sqlm

import (
	"fmt"
	"strings"
)

type tokKind int

const (
	tEOF tokKind = iota
	tIdent
	tNum
	tStr
	tParam // ? $n :name
	tSym
)

type token struct {
	k tokKind
	s string // upper-cased for identifiers in u
	u string
}

func lex(src string) ([]token, error) {
	var out []token
	i := 0
	for i < len(src) {
		c := src[i]
		switch {
		case c == ' ' || c == '\t' || c == '\n' || c == '\r':
			i++
		case c == '-' && i+1 < len(src) && src[i+1] == '-':
			for i < len(src) && src[i] != '\n' {
				i++
			}
		case c == '\'':
			j := i + 1
			var sb strings.Builder
			for {
				if j >= len(src) {
					return nil, fmt.Errorf("unterminated string")
				}
				if src[j] == '\'' {
					if j+1 < len(src) && src[j+1] == '\'' {
						sb.WriteByte('\'')
						j += 2
						continue
					}
					break
				}
				sb.WriteByte(src[j])
				j++
			}
			out = append(out, token{k: tStr, s: sb.String()})
			i = j + 1
		case c >= '0' && c <= '9':
			j := i
			for j < len(src) && src[j] >= '0' && src[j] <= '9' {
				j++
			}
			out = append(out, token{k: tNum, s: src[i:j]})
			i = j
		case c == '?':
			out = append(out, token{k: tParam, s: "?"})
			i++
		case c == '$' || c == ':':
			j := i + 1
			for j < len(src) && isIdentChar(src[j]) {
				j++
			}
			if j == i+1 {
				return nil, fmt.Errorf("bad parameter at %d", i)
			}
			out = append(out, token{k: tParam, s: src[i:j]})
			i = j
		case isIdentStart(c) || c == '"':
			if c == '"' {
				j := strings.IndexByte(src[i+1:], '"')
				if j < 0 {
					return nil, fmt.Errorf("unterminated quoted identifier")
				}
				id := src[i+1 : i+1+j]
				out = append(out, token{k: tIdent, s: id, u: "\"" + strings.ToUpper(id)})
				i += j + 2
				break
			}
			j := i
			for j < len(src) && isIdentChar(src[j]) {
				j++
			}
			out = append(out, token{k: tIdent, s: src[i:j], u: strings.ToUpper(src[i:j])})
			i = j
		default:
			two := ""
			if i+1 < len(src) {
				two = src[i : i+2]
			}
			switch two {
			case "!=", "<>", "<=", ">=", "||":
				out = append(out, token{k: tSym, s: two})
				i += 2
				continue
			}
			if strings.ContainsRune("(),.;=<>+-*/", rune(c)) {
				out = append(out, token{k: tSym, s: string(c)})
				i++
				continue
			}
			return nil, fmt.Errorf("unexpected character %q at %d", c, i)
		}
	}
	out = append(out, token{k: tEOF})
	return out, nil
}

func isIdentStart(c byte) bool {
	return c == '_' || c >= 'a' && c <= 'z' || c >= 'A' && c <= 'Z'
}
func isIdentChar(c byte) bool { return isIdentStart(c) || c >= '0' && c <= '9' }

// ---- AST

type Expr interface{}

type (
	Lit struct {
		Kind string // int str null bool
		S    string
	}
	Param struct {
		Name string // "?" with Index, "$n", ":name"
		Idx  int    // positional index (0-based) for ? and $n
	}
	ColRef struct{ Table, Col string }
	Bin    struct {
		Op   string
		L, R Expr
	}
	Not     struct{ X Expr }
	Like struct {
		X, Pat Expr
		Neg    bool
	}
	Between struct {
		X, Lo, Hi Expr
		Neg       bool
	}
	InList struct {
		X    Expr
		List []Expr
		Neg  bool
	}
	InSel struct {
		X   Expr
		Sel *Select
		Neg bool
	}
	IsNull struct {
		X   Expr
		Neg bool
	}
	Func struct {
		Name string
		Args []Expr
		Star bool
	}
	SubSel struct{ Sel *Select }
)

type ResCol struct {
	E     Expr
	Alias string
	Star  bool
}

type TableRef struct {
	Name, Alias string
	On          Expr
}

type OrderKey struct {
	E    Expr
	Desc bool
}

type Core struct {
	Cols     []ResCol
	From     []TableRef
	Where    Expr
	Distinct bool
}

type CTE struct {
	Name      string
	Cols      []string
	Sel       *Select
	Recursive bool
}

type Select struct {
	With    []CTE
	Cores   []*Core
	SetOps  []string // between cores: "UNION" | "UNION ALL"
	OrderBy []OrderKey
	Limit   Expr
}

type Insert struct {
	Table      string
	Cols       []string
	Vals       []Expr
	OnConflict string // "" | "NOTHING"
}

type Update struct {
	Table string
	Set   []struct {
		Col string
		E   Expr
	}
	Where Expr
}

type Delete struct {
	Table string
	Where Expr
}

type CreateIndex struct {
	Name, Table string
	Cols        []string
	Unique      bool
}
type DropIndex struct {
	Name     string
	IfExists bool
}

type parser struct {
	toks []token
	pos  int
	npos int // positional parameter counter
}

func Parse(src string) (stmt interface{}, err error) {
	toks, err := lex(src)
	if err != nil {
		return nil, err
	}
	p := &parser{toks: toks}
	defer func() {
		if r := recover(); r != nil {
			if pe, ok := r.(parseErr); ok {
				err = fmt.Errorf("sql parse: %s", string(pe))
				return
			}
			panic(r)
		}
	}()
	switch p.peek().u {
	case "SELECT", "WITH":
		stmt = p.selectStmt()
	case "INSERT":
		stmt = p.insert()
	case "UPDATE":
		stmt = p.update()
	case "DELETE":
		stmt = p.delete()
	case "CREATE":
		stmt = p.createIndex()
	case "DROP":
		stmt = p.dropIndex()
	default:
		p.fail("unsupported statement start %q", p.peek().s)
	}
	if p.peek().k == tSym && p.peek().s == ";" {
		p.pos++
	}
	if p.peek().k != tEOF {
		p.fail("trailing input at %q", p.peek().s)
	}
	return stmt, nil
}

type parseErr string

func (p *parser) fail(f string, a ...interface{}) { panic(parseErr(fmt.Sprintf(f, a...))) }
func (p *parser) peek() token                     { return p.toks[p.pos] }
func (p *parser) next() token                     { t := p.toks[p.pos]; p.pos++; return t }
func (p *parser) isKw(k string) bool              { t := p.peek(); return t.k == tIdent && t.u == k }
func (p *parser) isSym(s string) bool             { t := p.peek(); return t.k == tSym && t.s == s }
func (p *parser) acceptKw(k string) bool {
	if p.isKw(k) {
		p.pos++
		return true
	}
	return false
}
func (p *parser) acceptSym(s string) bool {
	if p.isSym(s) {
		p.pos++
		return true
	}
	return false
}
func (p *parser) expectKw(k string) {
	if !p.acceptKw(k) {
		p.fail("expected %s, got %q", k, p.peek().s)
	}
}
func (p *parser) expectSym(s string) {
	if !p.acceptSym(s) {
		p.fail("expected %q, got %q", s, p.peek().s)
	}
}
func (p *parser) ident() string {
	t := p.next()
	if t.k != tIdent {
		p.fail("expected identifier, got %q", t.s)
	}
	return strings.ToLower(t.s)
}

var reserved = map[string]bool{"FROM": true, "WHERE": true, "ORDER": true, "LIMIT": true, "UNION": true, "JOIN": true, "ON": true, "AND": true, "OR": true,
	"GROUP": true, "HAVING": true, "INNER": true, "LEFT": true, "AS": true, "NOT": true, "IN": true, "IS": true, "BETWEEN": true, "LIKE": true, "SELECT": true, "ASC": true, "DESC": true, "SET": true, "VALUES": true}

func (p *parser) selectStmt() *Select {
	s := &Select{}
	if p.acceptKw("WITH") {
		rec := p.acceptKw("RECURSIVE")
		for {
			c := CTE{Name: p.ident(), Recursive: rec}
			if p.acceptSym("(") {
				for {
					c.Cols = append(c.Cols, p.ident())
					if !p.acceptSym(",") {
						break
					}
				}
				p.expectSym(")")
			}
			p.expectKw("AS")
			p.expectSym("(")
			c.Sel = p.selectStmt()
			p.expectSym(")")
			s.With = append(s.With, c)
			if !p.acceptSym(",") {
				break
			}
		}
	}
	s.Cores = append(s.Cores, p.core())
	for p.isKw("UNION") {
		p.pos++
		op := "UNION"
		if p.acceptKw("ALL") {
			op = "UNION ALL"
		}
		s.SetOps = append(s.SetOps, op)
		s.Cores = append(s.Cores, p.core())
	}
	if p.acceptKw("ORDER") {
		p.expectKw("BY")
		for {
			k := OrderKey{E: p.expr()}
			if p.acceptKw("DESC") {
				k.Desc = true
			} else {
				p.acceptKw("ASC")
			}
			s.OrderBy = append(s.OrderBy, k)
			if !p.acceptSym(",") {
				break
			}
		}
	}
	if p.acceptKw("LIMIT") {
		s.Limit = p.expr()
	}
	return s
}

func (p *parser) core() *Core {
	p.expectKw("SELECT")
	c := &Core{}
	if p.acceptKw("DISTINCT") {
		c.Distinct = true
	}
	for {
		if p.acceptSym("*") {
			c.Cols = append(c.Cols, ResCol{Star: true})
		} else {
			rc := ResCol{E: p.expr()}
			if p.acceptKw("AS") {
				rc.Alias = p.ident()
			} else if t := p.peek(); t.k == tIdent && !reserved[t.u] {
				rc.Alias = p.ident()
			}
			c.Cols = append(c.Cols, rc)
		}
		if !p.acceptSym(",") {
			break
		}
	}
	if p.acceptKw("FROM") {
		c.From = append(c.From, p.tableRef())
		for {
			if p.acceptSym(",") {
				c.From = append(c.From, p.tableRef())
				continue
			}
			if p.isKw("JOIN") || p.isKw("INNER") {
				p.acceptKw("INNER")
				p.expectKw("JOIN")
				tr := p.tableRef()
				if p.acceptKw("ON") {
					tr.On = p.expr()
				}
				c.From = append(c.From, tr)
				continue
			}
			break
		}
	}
	if p.acceptKw("WHERE") {
		c.Where = p.expr()
	}
	if p.isKw("GROUP") || p.isKw("HAVING") {
		p.fail("GROUP BY / HAVING not supported")
	}
	return c
}

func (p *parser) tableRef() TableRef {
	tr := TableRef{Name: p.ident()}
	if p.acceptKw("AS") {
		tr.Alias = p.ident()
	} else if t := p.peek(); t.k == tIdent && !reserved[t.u] {
		tr.Alias = p.ident()
	}
	if tr.Alias == "" {
		tr.Alias = tr.Name
	}
	return tr
}

func (p *parser) expr() Expr { return p.orExpr() }

func (p *parser) orExpr() Expr {
	l := p.andExpr()
	for p.acceptKw("OR") {
		l = Bin{Op: "OR", L: l, R: p.andExpr()}
	}
	return l
}
func (p *parser) andExpr() Expr {
	l := p.notExpr()
	for p.acceptKw("AND") {
		l = Bin{Op: "AND", L: l, R: p.notExpr()}
	}
	return l
}
func (p *parser) notExpr() Expr {
	if p.acceptKw("NOT") {
		return Not{X: p.notExpr()}
	}
	return p.cmpExpr()
}
func (p *parser) cmpExpr() Expr {
	l := p.addExpr()
	if t := p.peek(); t.k == tSym {
		switch t.s {
		case "=", "!=", "<>", "<", "<=", ">", ">=":
			p.pos++
			op := t.s
			if op == "<>" {
				op = "!="
			}
			return Bin{Op: op, L: l, R: p.addExpr()}
		}
	}
	neg := false
	save := p.pos
	if p.acceptKw("NOT") {
		neg = true
	}
	switch {
	case p.acceptKw("LIKE"):
		return Like{X: l, Pat: p.addExpr(), Neg: neg}
	case p.acceptKw("BETWEEN"):
		lo := p.addExpr()
		p.expectKw("AND")
		hi := p.addExpr()
		return Between{X: l, Lo: lo, Hi: hi, Neg: neg}
	case p.acceptKw("IN"):
		p.expectSym("(")
		if p.isKw("SELECT") || p.isKw("WITH") {
			s := p.selectStmt()
			p.expectSym(")")
			return InSel{X: l, Sel: s, Neg: neg}
		}
		var list []Expr
		for {
			list = append(list, p.expr())
			if !p.acceptSym(",") {
				break
			}
		}
		p.expectSym(")")
		return InList{X: l, List: list, Neg: neg}
	case !neg && p.acceptKw("IS"):
		n := p.acceptKw("NOT")
		p.expectKw("NULL")
		return IsNull{X: l, Neg: n}
	}
	p.pos = save
	return l
}
func (p *parser) addExpr() Expr {
	l := p.primary()
	for p.isSym("+") || p.isSym("-") {
		op := p.next().s
		l = Bin{Op: op, L: l, R: p.primary()}
	}
	return l
}
func (p *parser) primary() Expr {
	t := p.next()
	switch t.k {
	case tNum:
		return Lit{Kind: "int", S: t.s}
	case tStr:
		return Lit{Kind: "str", S: t.s}
	case tParam:
		if t.s == "?" {
			p.npos++
			return Param{Name: "?", Idx: p.npos - 1}
		}
		if t.s[0] == '$' {
			n := 0
			fmt.Sscanf(t.s[1:], "%d", &n)
			return Param{Name: t.s, Idx: n - 1}
		}
		return Param{Name: t.s, Idx: -1}
	case tSym:
		if t.s == "(" {
			if p.isKw("SELECT") || p.isKw("WITH") {
				s := p.selectStmt()
				p.expectSym(")")
				return SubSel{Sel: s}
			}
			e := p.expr()
			p.expectSym(")")
			return e
		}
		if t.s == "-" {
			x := p.primary()
			return Bin{Op: "-", L: Lit{Kind: "int", S: "0"}, R: x}
		}
	case tIdent:
		switch t.u {
		case "NULL":
			return Lit{Kind: "null"}
		case "TRUE":
			return Lit{Kind: "bool", S: "true"}
		case "FALSE":
			return Lit{Kind: "bool", S: "false"}
		}
		if p.acceptSym("(") {
			f := Func{Name: t.u}
			if p.acceptSym("*") {
				f.Star = true
			} else if !p.isSym(")") {
				for {
					f.Args = append(f.Args, p.expr())
					if !p.acceptSym(",") {
						break
					}
				}
			}
			p.expectSym(")")
			return f
		}
		if p.acceptSym(".") {
			return ColRef{Table: strings.ToLower(t.s), Col: p.ident()}
		}
		return ColRef{Col: strings.ToLower(t.s)}
	}
	p.fail("unexpected token %q in expression", t.s)
	return nil
}

func (p *parser) insert() *Insert {
	p.expectKw("INSERT")
	p.expectKw("INTO")
	ins := &Insert{Table: p.ident()}
	p.expectSym("(")
	for {
		ins.Cols = append(ins.Cols, p.ident())
		if !p.acceptSym(",") {
			break
		}
	}
	p.expectSym(")")
	p.expectKw("VALUES")
	p.expectSym("(")
	for {
		ins.Vals = append(ins.Vals, p.expr())
		if !p.acceptSym(",") {
			break
		}
	}
	p.expectSym(")")
	if p.acceptKw("ON") {
		p.expectKw("CONFLICT")
		p.expectKw("DO")
		p.expectKw("NOTHING")
		ins.OnConflict = "NOTHING"
	}
	if len(ins.Cols) != len(ins.Vals) {
		p.fail("INSERT column/value count mismatch")
	}
	return ins
}

func (p *parser) update() *Update {
	p.expectKw("UPDATE")
	u := &Update{Table: p.ident()}
	p.expectKw("SET")
	for {
		c := p.ident()
		p.expectSym("=")
		u.Set = append(u.Set, struct {
			Col string
			E   Expr
		}{c, p.expr()})
		if !p.acceptSym(",") {
			break
		}
	}
	if p.acceptKw("WHERE") {
		u.Where = p.expr()
	}
	return u
}

func (p *parser) delete() *Delete {
	p.expectKw("DELETE")
	p.expectKw("FROM")
	d := &Delete{Table: p.ident()}
	if p.acceptKw("WHERE") {
		d.Where = p.expr()
	}
	return d
}

func (p *parser) createIndex() *CreateIndex {
	p.expectKw("CREATE")
	ci := &CreateIndex{}
	if p.acceptKw("UNIQUE") {
		ci.Unique = true
	}
	p.expectKw("INDEX")
	ci.Name = p.ident()
	p.expectKw("ON")
	ci.Table = p.ident()
	p.expectSym("(")
	for {
		ci.Cols = append(ci.Cols, p.ident())
		if !p.acceptSym(",") {
			break
		}
	}
	p.expectSym(")")
	return ci
}

func (p *parser) dropIndex() *DropIndex {
	p.expectKw("DROP")
	p.expectKw("INDEX")
	d := &DropIndex{}
	if p.acceptKw("IF") {
		p.expectKw("EXISTS")
		d.IfExists = true
	}
	d.Name = p.ident()
	return d
}
