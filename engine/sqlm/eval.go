package sqlm

import (
	"fmt"
	"math/big"
	"sort"
	"strings"

	"bhsverif/smt"
)

type Kind int

const (
	KInt Kind = iota // 64-bit signed
	KStr
	KTime // unix seconds, 64-bit
	KBool
)

func (k Kind) String() string { return [...]string{"int", "str", "time", "bool"}[k] }

// Val is a nullable scalar.
type Val struct {
	K    Kind
	T    *smt.Term
	Null *smt.Term
}

type Column struct {
	Name string
	K    Kind
	Dflt string // schema default text, "" if none
	HasD bool
	PK   bool
}

type Row struct {
	Live *smt.Term
	Vals []Val
}

type Table struct {
	Name string
	Cols []Column
	Rows []*Row
}

func (t *Table) Col(name string) int {
	for i, c := range t.Cols {
		if c.Name == name {
			return i
		}
	}
	return -1
}

type IndexInfo struct {
	Name   string
	Cols   []string
	Unique bool
}

type DB struct {
	Tables  map[string]*Table
	Indexes map[string][]IndexInfo // per table
	Plans   map[string][]string    // normalised statement text -> EXPLAIN QUERY PLAN lines
	TmpIdx  map[string]*CreateIndex
	Writes  int // committed write transactions so far
}

func (db *DB) Clone() *DB {
	n := &DB{Tables: map[string]*Table{}, Indexes: db.Indexes, Plans: db.Plans, TmpIdx: map[string]*CreateIndex{}, Writes: db.Writes}
	for k, t := range db.Tables {
		nt := &Table{Name: t.Name, Cols: t.Cols}
		for _, r := range t.Rows {
			nr := &Row{Live: r.Live, Vals: append([]Val{}, r.Vals...)}
			nt.Rows = append(nt.Rows, nr)
		}
		n.Tables[k] = nt
	}
	for k, v := range db.TmpIdx {
		n.TmpIdx[k] = v
	}
	return n
}

// Env is what the evaluator needs from the executor.
type Env interface {
	Ctx() *smt.Ctx
	Branch(c *smt.Term) bool
	Concretize(t *smt.Term, what string) int64
	Unsupported(msg string)
	Note(msg string)
	Fresh(prefix string, s smt.Sort) *smt.Term
	MustBeUnsat(c *smt.Term, what string) // unwinding assertion
	IsUnsat(c *smt.Term) bool             // c cannot hold on this path
}

// orderMatters: an unordered result is used where the order of its rows matters. That is a
// real dependence only if two of its rows can be present together; if the solver shows that at
// most one can (a unique key the syntax does not reveal), any order is the same order.
func (e *ev) orderMatters(rel *Rel) bool {
	if !rel.Unordered || len(rel.Rows) <= 1 {
		return false
	}
	c := e.c
	two := c.False()
	for i := range rel.Rows {
		for j := 0; j < i; j++ {
			two = c.Or(two, c.And(rel.Rows[i].Present, rel.Rows[j].Present))
		}
	}
	return !e.env.IsUnsat(two)
}

// ParamVal is a bound argument: a scalar or (for IN (?)) a list.
type ParamVal struct {
	V      Val
	List   []Val
	IsList bool
}

type Args struct {
	Pos   []ParamVal
	Named map[string]ParamVal
}

func NormSQL(s string) string { return strings.Join(strings.Fields(s), " ") }

// ---------------------------------------------------------------- relations

type RCol struct {
	Alias string // table alias
	Name  string
	K     Kind
}

type RRow struct {
	Present *smt.Term
	Vals    []Val
	Keys    []Val // sort keys (lexicographic), nil = list order only
}

type Rel struct {
	Cols      []RCol
	Rows      []RRow
	KeyDesc   []bool
	Reverse   bool // whole scan order reversed (index scanned backwards)
	Unordered bool // SQL gives no order and the plan gives none we can model
}

type ev struct {
	env   Env
	c     *smt.Ctx
	db    *DB
	args  *Args
	ctes  map[string]*Rel
	scans []scanInfo
	tmpBT bool
}

type scanInfo struct {
	name string
	idx  string // "" = rowid
	used bool
}

func bfalse(c *smt.Ctx) *smt.Term { return c.False() }

func (e *ev) nn(k Kind, t *smt.Term) Val { return Val{K: k, T: t, Null: e.c.False()} }

func (e *ev) intConst(n int64) Val { return e.nn(KInt, e.c.BVConstI(n, 64)) }

func (e *ev) nullVal(k Kind) Val {
	var t *smt.Term
	switch k {
	case KStr:
		t = e.c.StrConst("")
	case KBool:
		t = e.c.False()
	default:
		t = e.c.BVConstI(0, 64)
	}
	return Val{K: k, T: t, Null: e.c.True()}
}

func (e *ev) ite(cond *smt.Term, a, b Val) Val {
	if a.K != b.K {
		// time/int are interchangeable 64-bit values
		if (a.K == KInt || a.K == KTime) && (b.K == KInt || b.K == KTime) {
			b.K = a.K
		} else {
			e.env.Unsupported(fmt.Sprintf("sql: ite over %v and %v", a.K, b.K))
		}
	}
	return Val{K: a.K, T: e.c.Ite(cond, a.T, b.T), Null: e.c.Ite(cond, a.Null, b.Null)}
}

// parsePlan extracts SCAN/SEARCH lines.
func parsePlan(lines []string) (scans []scanInfo, tmpBTreeOrder bool) {
	for _, l := range lines {
		parts := strings.SplitN(l, "|", 3)
		d := parts[len(parts)-1]
		if strings.HasPrefix(d, "USE TEMP B-TREE FOR ORDER BY") || strings.Contains(d, "USE TEMP B-TREE FOR ORDER BY") {
			tmpBTreeOrder = true
		}
		var rest string
		switch {
		case strings.HasPrefix(d, "SCAN "):
			rest = d[5:]
		case strings.HasPrefix(d, "SEARCH "):
			rest = d[7:]
		default:
			continue
		}
		f := strings.Fields(rest)
		si := scanInfo{name: strings.ToLower(f[0])}
		for i, w := range f {
			if w == "INDEX" && i+1 < len(f) {
				si.idx = f[i+1]
			}
			if w == "PRIMARY" { // USING INTEGER PRIMARY KEY (rowid=?)
				si.idx = ""
			}
		}
		scans = append(scans, si)
	}
	return
}

func (e *ev) takeScan(alias string) (scanInfo, bool) {
	for i := range e.scans {
		if !e.scans[i].used && e.scans[i].name == alias {
			e.scans[i].used = true
			return e.scans[i], true
		}
	}
	return scanInfo{}, false
}

// scanTable builds the base relation of a table in its plan order.
func (e *ev) scanTable(tr TableRef) *Rel {
	if r, ok := e.ctes[tr.Name]; ok {
		e.takeScan(tr.Alias)
		out := &Rel{KeyDesc: r.KeyDesc, Reverse: r.Reverse, Unordered: r.Unordered}
		for _, c := range r.Cols {
			out.Cols = append(out.Cols, RCol{Alias: tr.Alias, Name: c.Name, K: c.K})
		}
		out.Rows = append(out.Rows, r.Rows...)
		return out
	}
	t := e.db.Tables[tr.Name]
	if t == nil {
		e.env.Unsupported("sql: unknown table " + tr.Name)
	}
	rel := &Rel{}
	for _, c := range t.Cols {
		rel.Cols = append(rel.Cols, RCol{Alias: tr.Alias, Name: c.Name, K: c.K})
	}
	si, ok := e.takeScan(tr.Alias)
	if !ok {
		si, ok = e.takeScan(tr.Name)
	}
	var keyCols []int
	if ok && si.idx != "" {
		found := false
		for _, ix := range e.db.Indexes[t.Name] {
			if ix.Name == si.idx {
				found = true
				for _, cn := range ix.Cols {
					keyCols = append(keyCols, t.Col(cn))
				}
			}
		}
		if !found {
			e.env.Unsupported("UNSUPPORTED plan: index " + si.idx + " not in schema")
		}
	}
	if !ok {
		// no plan line (e.g. statement not probed): order unknown
		rel.Unordered = true
	}
	for _, r := range t.Rows {
		rr := RRow{Present: r.Live, Vals: r.Vals}
		for _, kc := range keyCols {
			rr.Keys = append(rr.Keys, r.Vals[kc])
		}
		rel.Rows = append(rel.Rows, rr)
	}
	rel.KeyDesc = make([]bool, len(keyCols))
	return rel
}

// ---------------------------------------------------------------- expression evaluation

type scope struct {
	cols []RCol
	vals []Val
}

func (e *ev) lookupCol(sc []scope, ref ColRef) Val {
	var found *Val
	for si := len(sc) - 1; si >= 0; si-- {
		s := sc[si]
		for i, c := range s.cols {
			if c.Name == ref.Col && (ref.Table == "" || ref.Table == c.Alias) {
				if found != nil && si == len(sc)-1 {
					// ambiguous within one scope only matters when the values differ; the repo never does this
				}
				v := s.vals[i]
				found = &v
				break
			}
		}
		if found != nil {
			break
		}
	}
	if found == nil {
		if ref.Table == "" && ref.Col == "current_timestamp" {
			// the wall clock of the database engine: an arbitrary instant
			return e.nn(KTime, e.c.Fresh("sql_now", smt.BV(64)))
		}
		e.env.Unsupported(fmt.Sprintf("sql: unknown column %s.%s", ref.Table, ref.Col))
	}
	return *found
}

func (e *ev) param(p Param) ParamVal {
	if p.Idx >= 0 {
		if p.Idx >= len(e.args.Pos) {
			e.env.Unsupported(fmt.Sprintf("sql: parameter %d not bound (%d given)", p.Idx+1, len(e.args.Pos)))
		}
		return e.args.Pos[p.Idx]
	}
	v, ok := e.args.Named[strings.TrimPrefix(p.Name, ":")]
	if !ok {
		e.env.Unsupported("sql: named parameter " + p.Name + " not bound")
	}
	return v
}

// truth returns "x is TRUE" for a boolean Val.
func (e *ev) truth(v Val) *smt.Term { return e.c.And(v.T, e.c.Not(v.Null)) }

func (e *ev) coerce(a, b Val) (Val, Val) {
	if a.K == b.K {
		return a, b
	}
	num := func(k Kind) bool { return k == KInt || k == KTime }
	if num(a.K) && num(b.K) {
		b.K = a.K
		return a, b
	}
	if a.K == KBool && b.K == KInt {
		return a, Val{K: KBool, T: e.c.Not(e.c.Eq(b.T, e.c.BVConstI(0, 64))), Null: b.Null}
	}
	if a.K == KInt && b.K == KBool {
		b2, a2 := e.coerce(b, a)
		return a2, b2
	}
	e.env.Unsupported(fmt.Sprintf("sql: comparison between %v and %v", a.K, b.K))
	return a, b
}

// StrLess is a total order on Str terms that coincides with Go/SQLite byte order on the
// shapes it can decide (literal vs literal, hex vs hex); other pairs use an uninterpreted order.
func StrLess(c *smt.Ctx, a, b *smt.Term) *smt.Term {
	if a == b {
		return c.False()
	}
	if sa, ok := c.GoString(a); ok {
		if sb, ok2 := c.GoString(b); ok2 {
			return c.BoolConst(sa < sb)
		}
	}
	if a.Op == smt.OpIte {
		return c.Ite(a.Args[0], StrLess(c, a.Args[1], b), StrLess(c, a.Args[2], b))
	}
	if b.Op == smt.OpIte {
		return c.Ite(b.Args[0], StrLess(c, a, b.Args[1]), StrLess(c, a, b.Args[2]))
	}
	if a.Op == smt.OpStrHex && b.Op == smt.OpStrHex {
		return c.BVULt(a.Args[0], b.Args[0])
	}
	c.DeclareFun("str_lt", []smt.Sort{smt.Str, smt.Str}, smt.Bool)
	return c.App("str_lt", a, b)
}

func (e *ev) likeUF(a, b *smt.Term) *smt.Term {
	e.c.DeclareFun("sql_like", []smt.Sort{smt.Str, smt.Str}, smt.Bool)
	return e.c.App("sql_like", a, b)
}

func (e *ev) cmp(op string, a, b Val) Val {
	a, b = e.coerce(a, b)
	c := e.c
	null := c.Or(a.Null, b.Null)
	var t *smt.Term
	switch a.K {
	case KInt, KTime:
		switch op {
		case "=":
			t = c.Eq(a.T, b.T)
		case "!=":
			t = c.Not(c.Eq(a.T, b.T))
		case "<":
			t = c.BVSLt(a.T, b.T)
		case "<=":
			t = c.BVSLe(a.T, b.T)
		case ">":
			t = c.BVSLt(b.T, a.T)
		case ">=":
			t = c.BVSLe(b.T, a.T)
		}
	case KStr:
		switch op {
		case "=":
			t = c.Eq(a.T, b.T)
		case "!=":
			t = c.Not(c.Eq(a.T, b.T))
		case "<":
			t = StrLess(c, a.T, b.T)
		case ">":
			t = StrLess(c, b.T, a.T)
		case "<=":
			t = c.Not(StrLess(c, b.T, a.T))
		case ">=":
			t = c.Not(StrLess(c, a.T, b.T))
		}
	case KBool:
		switch op {
		case "=":
			t = c.Eq(a.T, b.T)
		case "!=":
			t = c.Not(c.Eq(a.T, b.T))
		}
	}
	if t == nil {
		e.env.Unsupported("sql: operator " + op + " on " + a.K.String())
	}
	return Val{K: KBool, T: t, Null: null}
}

func (e *ev) and3(a, b Val) Val {
	c := e.c
	af := c.And(c.Not(a.Null), c.Not(a.T))
	bf := c.And(c.Not(b.Null), c.Not(b.T))
	isFalse := c.Or(af, bf)
	null := c.And(c.Not(isFalse), c.Or(a.Null, b.Null))
	return Val{K: KBool, T: c.And(c.Not(isFalse), c.Not(null)), Null: null}
}

func (e *ev) or3(a, b Val) Val {
	c := e.c
	at := e.truth(a)
	bt := e.truth(b)
	isTrue := c.Or(at, bt)
	null := c.And(c.Not(isTrue), c.Or(a.Null, b.Null))
	return Val{K: KBool, T: isTrue, Null: null}
}

func (e *ev) not3(a Val) Val { return Val{K: KBool, T: e.c.And(e.c.Not(a.T), e.c.Not(a.Null)), Null: a.Null} }

func (e *ev) expr(x Expr, sc []scope) Val {
	c := e.c
	switch x := x.(type) {
	case Lit:
		switch x.Kind {
		case "int":
			n, _ := new(big.Int).SetString(x.S, 10)
			return e.nn(KInt, c.BVConst(n, 64))
		case "str":
			return e.nn(KStr, c.StrConst(x.S))
		case "bool":
			return e.nn(KBool, c.BoolConst(x.S == "true"))
		case "null":
			return e.nullVal(KInt)
		}
	case Param:
		p := e.param(x)
		if p.IsList {
			e.env.Unsupported("sql: list parameter used as scalar")
		}
		return p.V
	case ColRef:
		return e.lookupCol(sc, x)
	case Bin:
		switch x.Op {
		case "AND":
			return e.and3(e.expr(x.L, sc), e.expr(x.R, sc))
		case "OR":
			return e.or3(e.expr(x.L, sc), e.expr(x.R, sc))
		case "+", "-":
			a, b := e.expr(x.L, sc), e.expr(x.R, sc)
			if (a.K != KInt && a.K != KTime) || (b.K != KInt && b.K != KTime) {
				e.env.Unsupported("sql: arithmetic on non-integers")
			}
			var t *smt.Term
			if x.Op == "+" {
				t = c.BVAdd(a.T, b.T)
			} else {
				t = c.BVSub(a.T, b.T)
			}
			return Val{K: KInt, T: t, Null: c.Or(a.Null, b.Null)}
		default:
			return e.cmp(x.Op, e.expr(x.L, sc), e.expr(x.R, sc))
		}
	case Not:
		return e.not3(e.expr(x.X, sc))
	case Like:
		// LIKE: a pattern made of '%' only matches everything; a concrete pattern without wildcards
		// and a symbolic pattern match at least the equal string (ASCII case folding and wildcards
		// inside a symbolic pattern are represented by an uninterpreted predicate: a counterexample
		// that depends on it does not replay and is reported as inconclusive).
		v, pat := e.expr(x.X, sc), e.expr(x.Pat, sc)
		if v.K != KStr || pat.K != KStr {
			e.env.Unsupported("sql: LIKE on non-strings")
		}
		var t *smt.Term
		if ps, ok := c.GoString(pat.T); ok {
			switch {
			case ps != "" && strings.Trim(ps, "%") == "":
				t = c.True()
			case !strings.ContainsAny(ps, "%_"):
				t = c.Or(c.Eq(v.T, pat.T), c.And(c.Not(c.Eq(v.T, pat.T)), e.likeUF(v.T, pat.T)))
			default:
				e.env.Unsupported("sql: LIKE with a wildcard pattern other than %")
			}
		} else {
			t = c.Or(c.Eq(v.T, pat.T), e.likeUF(v.T, pat.T))
		}
		r := Val{K: KBool, T: t, Null: c.Or(v.Null, pat.Null)}
		if x.Neg {
			return e.not3(r)
		}
		return r
	case Between:
		v := e.expr(x.X, sc)
		r := e.and3(e.cmp(">=", v, e.expr(x.Lo, sc)), e.cmp("<=", v, e.expr(x.Hi, sc)))
		if x.Neg {
			return e.not3(r)
		}
		return r
	case InList:
		v := e.expr(x.X, sc)
		var items []Val
		for _, it := range x.List {
			if p, ok := it.(Param); ok {
				pv := e.param(p)
				if pv.IsList {
					items = append(items, pv.List...)
					continue
				}
			}
			items = append(items, e.expr(it, sc))
		}
		acc := e.nn(KBool, c.False())
		for _, it := range items {
			acc = e.or3(acc, e.cmp("=", v, it))
		}
		if x.Neg {
			return e.not3(acc)
		}
		return acc
	case InSel:
		v := e.expr(x.X, sc)
		rel := e.selectStmt(x.Sel, sc)
		if len(rel.Cols) != 1 {
			e.env.Unsupported("sql: IN (select) with more than one column")
		}
		acc := e.nn(KBool, c.False())
		for _, r := range rel.Rows {
			m := e.cmp("=", v, r.Vals[0])
			m = Val{K: KBool, T: c.And(r.Present, m.T), Null: c.And(r.Present, m.Null)}
			acc = e.or3(acc, m)
		}
		if x.Neg {
			return e.not3(acc)
		}
		return acc
	case IsNull:
		v := e.expr(x.X, sc)
		if x.Neg {
			return e.nn(KBool, c.Not(v.Null))
		}
		return e.nn(KBool, v.Null)
	case SubSel:
		rel := e.selectStmt(x.Sel, sc)
		if len(rel.Cols) != 1 {
			e.env.Unsupported("sql: scalar subquery with more than one column")
		}
		return e.firstRow(rel, 0)
	case Func:
		switch x.Name {
		case "COALESCE":
			var vals []Val
			for _, a := range x.Args {
				vals = append(vals, e.expr(a, sc))
			}
			acc := vals[len(vals)-1]
			for i := len(vals) - 2; i >= 0; i-- {
				acc = e.ite(vals[i].Null, acc, vals[i])
			}
			return acc
		case "STRFTIME":
			if len(x.Args) == 2 {
				if l, ok := x.Args[0].(Lit); ok && l.S == "%s" {
					v := e.expr(x.Args[1], sc)
					// unix seconds as text
					return Val{K: KStr, T: c.StrDec(c.BV2Int(v.T)), Null: v.Null}
				}
			}
		}
		e.env.Unsupported("sql: function " + x.Name + " in scalar context")
	}
	e.env.Unsupported(fmt.Sprintf("sql: expression %T", x))
	return Val{}
}

// ---------------------------------------------------------------- ordering

// precedes: row j comes before row i in the output order of rel (both assumed present).
func (e *ev) precedes(rel *Rel, j, i int) *smt.Term {
	c := e.c
	// lexicographic on keys, then list position
	var lt *smt.Term = c.BoolConst(j < i)
	kj, ki := rel.Rows[j].Keys, rel.Rows[i].Keys
	for k := len(kj) - 1; k >= 0; k-- {
		a, b := kj[k], ki[k]
		if k < len(rel.KeyDesc) && rel.KeyDesc[k] {
			a, b = b, a
		}
		// NULLs sort first in SQLite
		less := e.cmp("<", a, b)
		eq := e.cmp("=", a, b)
		l := c.Or(c.And(a.Null, c.Not(b.Null)), c.And(c.Not(a.Null), c.Not(b.Null), less.T))
		q := c.Or(c.And(a.Null, b.Null), c.And(c.Not(a.Null), c.Not(b.Null), eq.T))
		lt = c.Or(l, c.And(q, lt))
	}
	if rel.Reverse {
		// reversed scan: j precedes i iff i preceded j in forward order
		var fw *smt.Term = c.BoolConst(i < j)
		for k := len(kj) - 1; k >= 0; k-- {
			a, b := ki[k], kj[k]
			less := e.cmp("<", a, b)
			eq := e.cmp("=", a, b)
			l := c.Or(c.And(a.Null, c.Not(b.Null)), c.And(c.Not(a.Null), c.Not(b.Null), less.T))
			q := c.Or(c.And(a.Null, b.Null), c.And(c.Not(a.Null), c.Not(b.Null), eq.T))
			fw = c.Or(l, c.And(q, fw))
		}
		return fw
	}
	return lt
}

// ranks returns for each row the number of present rows preceding it (BV64 terms).
func (e *ev) ranks(rel *Rel) []*smt.Term {
	c := e.c
	n := len(rel.Rows)
	out := make([]*smt.Term, n)
	one, zero := c.BVConstI(1, 64), c.BVConstI(0, 64)
	for i := 0; i < n; i++ {
		acc := zero
		for j := 0; j < n; j++ {
			if j == i {
				continue
			}
			acc = c.BVAdd(acc, c.Ite(c.And(rel.Rows[j].Present, e.precedes(rel, j, i)), one, zero))
		}
		out[i] = acc
	}
	return out
}

func (e *ev) count(rel *Rel) *smt.Term {
	c := e.c
	acc := c.BVConstI(0, 64)
	for _, r := range rel.Rows {
		acc = c.BVAdd(acc, c.Ite(r.Present, c.BVConstI(1, 64), c.BVConstI(0, 64)))
	}
	return acc
}

// rowAt selects the row with rank p (p concrete) as one RRow whose Present says whether it exists.
func (e *ev) rowAt(rel *Rel, ranks []*smt.Term, p int) RRow {
	c := e.c
	pc := c.BVConstI(int64(p), 64)
	out := RRow{Present: c.False()}
	n := len(rel.Rows)
	if n == 0 {
		for k := range rel.Cols {
			out.Vals = append(out.Vals, e.nullVal(rel.Cols[k].K))
		}
		return out
	}
	// the last candidate is the base of the chain: when no row has rank p the values are
	// meaningless and Present is false; this keeps invariant-decided shapes (hex/dec) syntactic
	out.Vals = append([]Val{}, rel.Rows[n-1].Vals...)
	out.Present = c.And(rel.Rows[n-1].Present, c.Eq(ranks[n-1], pc))
	for i := n - 2; i >= 0; i-- {
		sel := c.And(rel.Rows[i].Present, c.Eq(ranks[i], pc))
		out.Present = c.Or(sel, out.Present)
		for k := range rel.Cols {
			out.Vals[k] = e.ite(sel, rel.Rows[i].Vals[k], out.Vals[k])
		}
	}
	return out
}

func (e *ev) firstRow(rel *Rel, col int) Val {
	if e.orderMatters(rel) {
		e.env.Unsupported("UNSUPPORTED order-dependent use of unordered result")
	}
	rk := e.ranks(rel)
	r := e.rowAt(rel, rk, 0)
	v := r.Vals[col]
	return Val{K: v.K, T: v.T, Null: e.c.Or(e.c.Not(r.Present), v.Null)}
}

// ---------------------------------------------------------------- select

func isAggregate(x Expr) bool {
	switch x := x.(type) {
	case Func:
		switch x.Name {
		case "MAX", "MIN", "COUNT", "SUM":
			return true
		case "COALESCE":
			for _, a := range x.Args {
				if isAggregate(a) {
					return true
				}
			}
		}
	}
	return false
}

func (e *ev) aggregate(x Expr, rel *Rel, outer []scope) Val {
	c := e.c
	switch x := x.(type) {
	case Func:
		switch x.Name {
		case "COALESCE":
			var vals []Val
			for _, a := range x.Args {
				if isAggregate(a) {
					vals = append(vals, e.aggregate(a, rel, outer))
				} else {
					vals = append(vals, e.expr(a, outer))
				}
			}
			acc := vals[len(vals)-1]
			for i := len(vals) - 2; i >= 0; i-- {
				acc = e.ite(vals[i].Null, acc, vals[i])
			}
			return acc
		case "COUNT":
			return e.nn(KInt, e.count(rel))
		case "MAX", "MIN":
			acc := e.nullVal(KInt)
			for _, r := range rel.Rows {
				sc := append(append([]scope{}, outer...), scope{rel.Cols, r.Vals})
				v := e.expr(x.Args[0], sc)
				if v.K != KInt && v.K != KTime {
					e.env.Unsupported("sql: MAX/MIN over " + v.K.String())
				}
				acc.K = v.K
				ok := c.And(r.Present, c.Not(v.Null))
				var better *smt.Term
				if x.Name == "MAX" {
					better = c.BVSLt(acc.T, v.T)
				} else {
					better = c.BVSLt(v.T, acc.T)
				}
				take := c.And(ok, c.Or(acc.Null, better))
				acc = Val{K: v.K, T: c.Ite(take, v.T, acc.T), Null: c.And(acc.Null, c.Not(ok))}
			}
			return acc
		}
	}
	e.env.Unsupported("sql: aggregate expression")
	return Val{}
}

func (e *ev) core(co *Core, outer []scope, orderBy []OrderKey, hasTmpBTree bool) *Rel {
	c := e.c
	// FROM: cross product with ON conditions
	var rel *Rel
	if len(co.From) == 0 {
		rel = &Rel{Rows: []RRow{{Present: c.True()}}}
	}
	for i, tr := range co.From {
		base := e.scanTable(tr)
		if i == 0 {
			rel = base
		} else {
			j := &Rel{Cols: append(append([]RCol{}, rel.Cols...), base.Cols...), Unordered: true}
			for _, a := range rel.Rows {
				for _, b := range base.Rows {
					rr := RRow{Present: c.And(a.Present, b.Present), Vals: append(append([]Val{}, a.Vals...), b.Vals...)}
					j.Rows = append(j.Rows, rr)
				}
			}
			rel = j
		}
		if tr.On != nil {
			for k := range rel.Rows {
				sc := append(append([]scope{}, outer...), scope{rel.Cols, rel.Rows[k].Vals})
				rel.Rows[k].Present = c.And(rel.Rows[k].Present, e.truth(e.expr(tr.On, sc)))
			}
		}
	}
	if co.Where != nil {
		for k := range rel.Rows {
			if rel.Rows[k].Present.IsFalse() {
				continue
			}
			sc := append(append([]scope{}, outer...), scope{rel.Cols, rel.Rows[k].Vals})
			rel.Rows[k].Present = c.And(rel.Rows[k].Present, e.truth(e.expr(co.Where, sc)))
		}
	}
	// aggregates
	agg := false
	for _, rc := range co.Cols {
		if !rc.Star && isAggregate(rc.E) {
			agg = true
		}
	}
	out := &Rel{}
	if agg {
		row := RRow{Present: c.True()}
		for _, rc := range co.Cols {
			if rc.Star || !isAggregate(rc.E) {
				e.env.Unsupported("sql: mixing aggregate and plain columns")
			}
			v := e.aggregate(rc.E, rel, outer)
			name := rc.Alias
			if name == "" {
				name = "agg"
			}
			out.Cols = append(out.Cols, RCol{Name: strings.ToLower(name), K: v.K})
			row.Vals = append(row.Vals, v)
		}
		out.Rows = []RRow{row}
		return out
	}
	// ORDER BY keys are evaluated in the pre-projection scope
	out.KeyDesc = rel.KeyDesc
	out.Reverse = rel.Reverse
	out.Unordered = rel.Unordered
	useOrderKeys := len(orderBy) > 0 && hasTmpBTree
	if len(orderBy) > 0 && !hasTmpBTree {
		// the scan delivers the order; a DESC request means the index is walked backwards
		allDesc := true
		for _, k := range orderBy {
			if !k.Desc {
				allDesc = false
			}
		}
		if allDesc {
			out.Reverse = !rel.Reverse
		}
	}
	if useOrderKeys {
		out.KeyDesc = nil
		for _, k := range orderBy {
			out.KeyDesc = append(out.KeyDesc, k.Desc)
		}
		out.Unordered = false
		e.env.Note("ORDER BY ties are broken by scan order")
	}
	first := true
	for _, r := range rel.Rows {
		sc := append(append([]scope{}, outer...), scope{rel.Cols, r.Vals})
		nr := RRow{Present: r.Present, Keys: r.Keys}
		if useOrderKeys {
			nr.Keys = nil
			for _, k := range orderBy {
				nr.Keys = append(nr.Keys, e.expr(k.E, sc))
			}
		}
		for _, rc := range co.Cols {
			if rc.Star {
				for ci, cc := range rel.Cols {
					if first {
						out.Cols = append(out.Cols, RCol{Name: cc.Name, K: cc.K})
					}
					nr.Vals = append(nr.Vals, r.Vals[ci])
				}
				continue
			}
			v := e.expr(rc.E, sc)
			if first {
				name := rc.Alias
				if name == "" {
					if cr, ok := rc.E.(ColRef); ok {
						name = cr.Col
					} else {
						name = "expr"
					}
				}
				out.Cols = append(out.Cols, RCol{Name: strings.ToLower(name), K: v.K})
			}
			nr.Vals = append(nr.Vals, v)
		}
		first = false
		out.Rows = append(out.Rows, nr)
	}
	if first { // no rows at all: still need column names
		for _, rc := range co.Cols {
			name := rc.Alias
			if cr, ok := rc.E.(ColRef); ok && name == "" {
				name = cr.Col
			}
			out.Cols = append(out.Cols, RCol{Name: strings.ToLower(name), K: KInt})
		}
	}
	return out
}

// materialise turns rel into list order (rank order) with at most n rows; used for LIMIT and CTEs.
func (e *ev) materialise(rel *Rel, limit *smt.Term) *Rel {
	c := e.c
	if e.orderMatters(rel) {
		e.env.Unsupported("UNSUPPORTED order-dependent use of unordered result")
	}
	rk := e.ranks(rel)
	out := &Rel{Cols: rel.Cols}
	for p := 0; p < len(rel.Rows); p++ {
		r := e.rowAt(rel, rk, p)
		if limit != nil {
			r.Present = c.And(r.Present, c.BVSLt(c.BVConstI(int64(p), 64), limit))
		}
		r.Keys = nil
		out.Rows = append(out.Rows, r)
	}
	return out
}

func (e *ev) selectStmt(s *Select, outer []scope) *Rel {
	c := e.c
	saved := e.ctes
	defer func() { e.ctes = saved }()
	if len(s.With) > 0 {
		n := map[string]*Rel{}
		for k, v := range e.ctes {
			n[k] = v
		}
		e.ctes = n
		for _, cte := range s.With {
			var rel *Rel
			if cte.Recursive && len(cte.Sel.Cores) == 2 && cte.Sel.SetOps[0] == "UNION ALL" {
				rel = e.recursive(cte, outer)
			} else {
				rel = e.selectStmt(cte.Sel, outer)
			}
			if len(cte.Cols) > 0 {
				if len(cte.Cols) != len(rel.Cols) {
					e.env.Unsupported("sql: CTE column count mismatch")
				}
				cols := make([]RCol, len(rel.Cols))
				for i := range cols {
					cols[i] = RCol{Name: cte.Cols[i], K: rel.Cols[i].K}
				}
				rel = &Rel{Cols: cols, Rows: rel.Rows, KeyDesc: rel.KeyDesc, Reverse: rel.Reverse, Unordered: rel.Unordered}
			}
			e.ctes[cte.Name] = rel
		}
	}
	var rel *Rel
	if len(s.Cores) == 1 {
		rel = e.core(s.Cores[0], outer, s.OrderBy, e.tmpBT)
	} else {
		if len(s.OrderBy) > 0 {
			e.env.Unsupported("sql: ORDER BY on compound select")
		}
		parts := []*Rel{}
		for _, co := range s.Cores {
			parts = append(parts, e.core(co, outer, nil, false))
		}
		allUnionAll := true
		for _, op := range s.SetOps {
			if op != "UNION ALL" {
				allUnionAll = false
			}
		}
		rel = &Rel{Cols: parts[0].Cols}
		for _, p := range parts {
			if len(p.Cols) != len(rel.Cols) {
				e.env.Unsupported("sql: compound select column count mismatch")
			}
			if allUnionAll {
				// concatenation in part order; each part in its own order
				m := p
				if len(p.Rows) > 1 && (len(p.Rows[0].Keys) > 0 || p.Reverse) {
					m = e.materialise(p, nil)
				} else if p.Unordered && len(p.Rows) > 1 {
					rel.Unordered = true
				}
				rel.Rows = append(rel.Rows, m.Rows...)
			} else {
				for _, r := range p.Rows {
					r.Keys = nil
					rel.Rows = append(rel.Rows, r)
				}
			}
		}
		if !allUnionAll {
			// UNION: duplicates removed, order unspecified (temp b-tree)
			rel.Unordered = true
			for i := range rel.Rows {
				dup := c.False()
				for j := 0; j < i; j++ {
					same := rel.Rows[j].Present
					for k := range rel.Cols {
						a, b := rel.Rows[i].Vals[k], rel.Rows[j].Vals[k]
						eq := e.cmp("=", a, b)
						same = c.And(same, c.Or(c.And(a.Null, b.Null), c.And(c.Not(a.Null), c.Not(b.Null), eq.T)))
					}
					dup = c.Or(dup, same)
				}
				rel.Rows[i].Present = c.And(rel.Rows[i].Present, c.Not(dup))
			}
		}
	}
	if s.Limit != nil {
		lv := e.expr(s.Limit, outer)
		if lv.K != KInt {
			e.env.Unsupported("sql: non-integer LIMIT")
		}
		// negative LIMIT means no limit in SQLite
		lim := c.Ite(c.BVSLt(lv.T, c.BVConstI(0, 64)), c.BVConstI(int64(len(rel.Rows)+1), 64), lv.T)
		rel = e.materialise(rel, lim)
	}
	return rel
}

// recursive unrolls WITH RECURSIVE name AS (base UNION ALL step) level by level; every level
// holds at most one row (the step joins on a unique key), which is collapsed into one row.
func (e *ev) recursive(cte CTE, outer []scope) *Rel {
	c := e.c
	base := e.core(cte.Sel.Cores[0], outer, nil, false)
	cols := make([]RCol, len(base.Cols))
	for i := range cols {
		name := base.Cols[i].Name
		if len(cte.Cols) == len(base.Cols) {
			name = cte.Cols[i]
		}
		cols[i] = RCol{Name: name, K: base.Cols[i].K}
	}
	collapse := func(r *Rel) RRow {
		out := RRow{Present: c.False()}
		n := len(r.Rows)
		if n == 0 {
			for k := range cols {
				out.Vals = append(out.Vals, e.nullVal(cols[k].K))
			}
			return out
		}
		out.Vals = append([]Val{}, r.Rows[n-1].Vals...)
		out.Present = r.Rows[n-1].Present
		for i := n - 2; i >= 0; i-- {
			row := r.Rows[i]
			out.Present = c.Or(row.Present, out.Present)
			for k := range cols {
				out.Vals[k] = e.ite(row.Present, row.Vals[k], out.Vals[k])
			}
		}
		return out
	}
	// bound: number of rows of the largest base table + 1
	maxRows := 0
	for _, t := range e.db.Tables {
		if len(t.Rows) > maxRows {
			maxRows = len(t.Rows)
		}
	}
	levels := []RRow{collapse(base)}
	e.env.Note("recursive CTE levels hold at most one row (the step joins on the primary key)")
	stepCore := cte.Sel.Cores[1]
	savedScans := append([]scanInfo{}, e.scans...)
	for l := 0; l <= maxRows; l++ {
		prev := levels[len(levels)-1]
		if prev.Present.IsFalse() {
			break
		}
		e.ctes[cte.Name] = &Rel{Cols: cols, Rows: []RRow{prev}}
		// the step's scans are reused at every level
		e.scans = append([]scanInfo{}, savedScans...)
		st := e.core(stepCore, outer, nil, false)
		lv := collapse(st)
		if l == maxRows {
			e.env.MustBeUnsat(lv.Present, "recursive CTE deeper than the number of rows (cyclic parent links?)")
			break
		}
		levels = append(levels, lv)
	}
	for i := range e.scans {
		if i < len(savedScans) {
			// mark the step's scans used
		}
	}
	e.scans = savedScans
	for _, tr := range stepCore.From {
		e.takeScan(tr.Alias)
	}
	return &Rel{Cols: cols, Rows: levels}
}

// ---------------------------------------------------------------- entry points

func (db *DB) newEv(env Env, sql string, args *Args) *ev {
	e := &ev{env: env, c: env.Ctx(), db: db, args: args, ctes: map[string]*Rel{}}
	if lines, ok := db.Plans[NormSQL(sql)]; ok {
		e.scans, e.tmpBT = parsePlan(lines)
	}
	return e
}

// Query evaluates a SELECT and returns the relation in list order = output order.
func (db *DB) Query(env Env, sql string, sel *Select, args *Args) *Rel {
	e := db.newEv(env, sql, args)
	if _, ok := db.Plans[NormSQL(sql)]; !ok {
		env.Note("no query plan for: " + NormSQL(sql))
	}
	rel := e.selectStmt(sel, nil)
	return rel
}

// Ordered returns rel's rows by output position: element p is the row with rank p.
// OrderMatters reports whether two rows of the unordered rel can be present together.
func (db *DB) OrderMatters(env Env, rel *Rel) bool {
	e := &ev{env: env, c: env.Ctx(), db: db}
	return e.orderMatters(rel)
}

func (db *DB) Ordered(env Env, rel *Rel) []RRow {
	e := &ev{env: env, c: env.Ctx(), db: db}
	needsOrder := false
	for _, r := range rel.Rows {
		if len(r.Keys) > 0 {
			needsOrder = true
		}
	}
	if rel.Reverse {
		needsOrder = true
	}
	if !needsOrder {
		// list order; still rows may be absent, so rank by list position
		needsOrder = true
	}
	rk := e.ranks(rel)
	out := make([]RRow, len(rel.Rows))
	for p := range rel.Rows {
		out[p] = e.rowAt(rel, rk, p)
	}
	return out
}

func (db *DB) Count(env Env, rel *Rel) *smt.Term {
	e := &ev{env: env, c: env.Ctx(), db: db}
	return e.count(rel)
}

// pkCols returns the primary-key column indexes of t.
func pkCols(t *Table) []int {
	var out []int
	for i, c := range t.Cols {
		if c.PK {
			out = append(out, i)
		}
	}
	return out
}

// ExecInsert appends a row. Returns the conflict condition (a live row with the same key exists).
func (db *DB) ExecInsert(env Env, ins *Insert, args *Args, now Val) (conflict *smt.Term) {
	c := env.Ctx()
	e := db.newEv(env, "", args)
	t := db.Tables[ins.Table]
	if t == nil {
		env.Unsupported("sql: insert into unknown table " + ins.Table)
	}
	row := &Row{Vals: make([]Val, len(t.Cols))}
	set := make([]bool, len(t.Cols))
	for i, cn := range ins.Cols {
		ci := t.Col(cn)
		if ci < 0 {
			env.Unsupported("sql: insert into unknown column " + cn)
		}
		v := e.expr(ins.Vals[i], nil)
		row.Vals[ci] = e.fit(v, t.Cols[ci].K, t.Name+"."+cn)
		set[ci] = true
	}
	for ci, col := range t.Cols {
		if set[ci] {
			continue
		}
		switch {
		case !col.HasD:
			row.Vals[ci] = e.nullVal(col.K)
		case col.Dflt == "CURRENT_TIMESTAMP":
			row.Vals[ci] = now
		default:
			row.Vals[ci] = e.defaultVal(col)
		}
	}
	conflict = c.False()
	pk := pkCols(t)
	for _, r := range t.Rows {
		same := r.Live
		for _, k := range pk {
			same = c.And(same, e.truth(e.cmp("=", r.Vals[k], row.Vals[k])))
		}
		if len(pk) == 0 {
			same = c.False()
		}
		conflict = c.Or(conflict, same)
	}
	// temporary unique indexes (validateHeightUniqueness) are checked at creation only
	row.Live = c.Not(conflict)
	t.Rows = append(t.Rows, row)
	return conflict
}

func (e *ev) defaultVal(col Column) Val {
	d := strings.TrimSpace(col.Dflt)
	switch col.K {
	case KInt:
		n, ok := new(big.Int).SetString(d, 10)
		if ok {
			return e.nn(KInt, e.c.BVConst(n, 64))
		}
	case KStr:
		return e.nn(KStr, e.c.StrConst(strings.Trim(d, "'")))
	case KBool:
		return e.nn(KBool, e.c.BoolConst(strings.EqualFold(d, "TRUE") || d == "1"))
	case KTime:
		if strings.Contains(d, "1970-01-01 00:00:00") {
			return e.nn(KTime, e.c.BVConstI(0, 64))
		}
	}
	e.env.Unsupported("sql: default value " + col.Dflt + " for column " + col.Name)
	return Val{}
}

// fit converts v to the column kind.
func (e *ev) fit(v Val, k Kind, what string) Val {
	if v.K == k {
		return v
	}
	if (v.K == KInt || v.K == KTime) && (k == KInt || k == KTime) {
		v.K = k
		return v
	}
	if v.K == KInt && k == KBool {
		return Val{K: KBool, T: e.c.Not(e.c.Eq(v.T, e.c.BVConstI(0, 64))), Null: v.Null}
	}
	e.env.Unsupported(fmt.Sprintf("sql: value of kind %v stored into %s of kind %v", v.K, what, k))
	return v
}

// ExecUpdate rewrites columns of matching rows; returns the number of affected rows (term).
func (db *DB) ExecUpdate(env Env, sql string, up *Update, args *Args) *smt.Term {
	c := env.Ctx()
	e := db.newEv(env, sql, args)
	t := db.Tables[up.Table]
	if t == nil {
		env.Unsupported("sql: update of unknown table " + up.Table)
	}
	var cols []RCol
	for _, col := range t.Cols {
		cols = append(cols, RCol{Alias: t.Name, Name: col.Name, K: col.K})
	}
	n := c.BVConstI(0, 64)
	for _, r := range t.Rows {
		sc := []scope{{cols, r.Vals}}
		m := r.Live
		if up.Where != nil {
			m = c.And(m, e.truth(e.expr(up.Where, sc)))
		}
		nv := append([]Val{}, r.Vals...)
		for _, s := range up.Set {
			ci := t.Col(s.Col)
			if ci < 0 {
				env.Unsupported("sql: update of unknown column " + s.Col)
			}
			if t.Cols[ci].PK {
				env.Unsupported("sql: update of a primary-key column")
			}
			v := e.fit(e.expr(s.E, sc), t.Cols[ci].K, t.Name+"."+s.Col)
			nv[ci] = e.ite(m, v, r.Vals[ci])
		}
		r.Vals = nv
		n = c.BVAdd(n, c.Ite(m, c.BVConstI(1, 64), c.BVConstI(0, 64)))
	}
	return n
}

func (db *DB) ExecDelete(env Env, sql string, del *Delete, args *Args) *smt.Term {
	c := env.Ctx()
	e := db.newEv(env, sql, args)
	t := db.Tables[del.Table]
	if t == nil {
		env.Unsupported("sql: delete from unknown table " + del.Table)
	}
	var cols []RCol
	for _, col := range t.Cols {
		cols = append(cols, RCol{Alias: t.Name, Name: col.Name, K: col.K})
	}
	n := c.BVConstI(0, 64)
	for _, r := range t.Rows {
		m := r.Live
		if del.Where != nil {
			m = c.And(m, e.truth(e.expr(del.Where, []scope{{cols, r.Vals}})))
		}
		r.Live = c.And(r.Live, c.Not(m))
		n = c.BVAdd(n, c.Ite(m, c.BVConstI(1, 64), c.BVConstI(0, 64)))
	}
	return n
}

// UniqueViolation: do two live rows agree on all cols? (CREATE UNIQUE INDEX)
func (db *DB) UniqueViolation(env Env, ci *CreateIndex) *smt.Term {
	c := env.Ctx()
	e := db.newEv(env, "", &Args{})
	t := db.Tables[ci.Table]
	if t == nil {
		env.Unsupported("sql: index on unknown table " + ci.Table)
	}
	var idx []int
	for _, cn := range ci.Cols {
		k := t.Col(cn)
		if k < 0 {
			env.Unsupported("sql: index on unknown column " + cn)
		}
		idx = append(idx, k)
	}
	v := c.False()
	for i := range t.Rows {
		for j := 0; j < i; j++ {
			same := c.And(t.Rows[i].Live, t.Rows[j].Live)
			for _, k := range idx {
				same = c.And(same, e.truth(e.cmp("=", t.Rows[i].Vals[k], t.Rows[j].Vals[k])))
			}
			v = c.Or(v, same)
		}
	}
	return v
}

func SortedTableNames(db *DB) []string {
	var ns []string
	for n := range db.Tables {
		ns = append(ns, n)
	}
	sort.Strings(ns)
	return ns
}
